/-
  C27 — which table references get the discriminator filter (sqltranslation.py: TableRef / StarTableRef / JoinedTableRef .make_join).
  Core Lean only.  The GUARDS are not hand-written: `Gen.JoinGuards` is regenerated from the `if` tests of the current source on every run
  (harness/gen_c27.py); this file mirrors the control flow around them (what is appended to FROM / the conditions, which flags are set).

  * `tableRefStep`   : `TableRef.make_join(pk_only)` (a query variable `for s in Student`, and the lazily joined table of a nested
                       `Student.select/exists(lambda s: …)`): the first call appends the table to FROM, appends the criteria if the guard
                       says so, sets `joined`; later calls do nothing.  `StarTableRef` has the same shape.
  * `joinedStep`     : `JoinedTableRef.make_join(pk_only)` (attribute navigation `m.author`, `h.refs`), by the kind of relationship:
                       foreign key on the left (pk-only use needs no join), one-to-one with the key on the right, one-to-many, many-to-many
                       (intermediate table first; the entity's own table only when a non-key column is needed).
                       (The `translator.optimize` shortcut, which drops the join altogether, is not modelled.)
-/
import PonyVerif.Gen.JoinGuards
namespace PonyVerif.Model.JoinDiscr
open PonyVerif.Gen

/-- state of a (Star)TableRef plus what it has emitted: times the table was appended to FROM, discriminator criteria appended -/
structure TState where
  joined : Bool := false
  fromItems : Nat := 0
  filters : Nat := 0
  deriving DecidableEq, Repr

def tableRefStep (hasDiscr : Bool) (s : TState) (pkOnly : Bool) : TState :=
  if JoinGuards.tableRefOuterGuard s.joined then
    { joined := true, fromItems := s.fromItems + 1,
      filters := s.filters + (if JoinGuards.tableRefDiscrGuard pkOnly hasDiscr then 1 else 0) }
  else s

def starTableRefStep (hasDiscr : Bool) (s : TState) (pkOnly : Bool) : TState :=
  if JoinGuards.starTableRefOuterGuard s.joined then
    { joined := true, fromItems := s.fromItems + 1,
      filters := s.filters + (if JoinGuards.starTableRefDiscrGuard pkOnly hasDiscr then 1 else 0) }
  else s

/-- the calls `make_join(pk_only)` a translation makes on one table reference, in order -/
def tableRefRun (hasDiscr : Bool) (calls : List Bool) : TState := calls.foldl (tableRefStep hasDiscr) {}
def starTableRefRun (hasDiscr : Bool) (calls : List Bool) : TState := calls.foldl (starTableRefStep hasDiscr) {}

inductive RelKind where
  | fkLeft      -- to-one, foreign key column in the parent's table (`attr.columns`)
  | o2oRight    -- one-to-one, foreign key column in the other table (`not attr.columns`)
  | o2m         -- collection whose reverse is to-one
  | m2m         -- many-to-many through an intermediate table
  deriving DecidableEq, Repr

structure JState where
  joined : Bool := false
  optimized : Bool := false
  entityJoins : Nat := 0     -- `sqlquery.join_table(parent_alias, alias, entity._table_, join_cond)`
  filters : Nat := 0         -- discriminator criteria put into a join condition
  m2mJoins : Nat := 0        -- joins of the intermediate table
  deriving DecidableEq, Repr

/-- the common tail: join the entity's table, with the criteria if the guard says so -/
def joinEntity (hasDiscr pkOnly : Bool) (s : JState) : JState :=
  { s with joined := true, optimized := false, entityJoins := s.entityJoins + 1,
           filters := s.filters + (if JoinGuards.joinedDiscrGuard pkOnly hasDiscr then 1 else 0) }

def joinedStep (k : RelKind) (hasDiscr : Bool) (s : JState) (pkOnly : Bool) : JState :=
  if JoinGuards.joinedEarlyReturn s.joined pkOnly s.optimized then s else
  match k with
  | .fkLeft => if pkOnly then { s with optimized := true } else joinEntity hasDiscr pkOnly s
  | .o2oRight => joinEntity hasDiscr pkOnly s
  | .o2m => joinEntity hasDiscr pkOnly s
  | .m2m =>
      if !s.joined then
        let s1 := { s with m2mJoins := s.m2mJoins + 1 }
        if pkOnly then { s1 with optimized := true, joined := true } else joinEntity hasDiscr pkOnly s1
      else joinEntity hasDiscr pkOnly s

def joinedRun (k : RelKind) (hasDiscr : Bool) (calls : List Bool) : JState := calls.foldl (joinedStep k hasDiscr) {}

end PonyVerif.Model.JoinDiscr
