/-
  C21 — the read set of MANY-TO-MANY collections (pony/orm/core.py): entities Q and T, `Q.tags = Set(T)`, `T.qs = Set(Q)`.

  Reader state: for both sides and every instance the `SetData` of the collection (`items`, `is_fully_loaded`, `count`);
  all instances are in the identity map.  The committed link table is an argument of every step (the adversary).
  Mirrors [Set.load] (many-to-many branch, one object, no batch prefetching), [Set.prefetch_load_all] (many-to-many
  branch, one batch), [Set.db_reverse_add], [Set.copy] / [SetInstance.__len__].  The three phantom guards are parameters
  (`Guards`); which of them the code has is read off the source on every run (harness/gen_c21.py -> Gen/CollGuards.lean):
    addChecks       `db_reverse_add`:      `elif setdata.is_fully_loaded and not attr.is_volatile: throw(... appeared ...)`
    prefetchChecks  `prefetch_load_all`:   `if items and setdata2.is_fully_loaded and ...: throw(... appeared ...)`  (fix 0192669)
    loadSkipsFull   `Set.load`:            `elif setdata.is_fully_loaded and not attr.is_volatile: return setdata`
  Core Lean only (linked into the driver).
-/
namespace PonyVerif.Model.CollRead

structure SetData where
  items : List Nat
  full : Bool
  count : Option Nat
  deriving Repr, DecidableEq

structure Guards where
  addChecks : Bool
  prefetchChecks : Bool
  loadSkipsFull : Bool

/-- `side = false`: collections `Q.tags` (owner a Q, items T); `side = true`: `T.qs` -/
structure Sess where
  sets : Bool → Nat → Option SetData

def Sess.init : Sess := ⟨fun _ _ => none⟩

/-- committed rows of the link table: (q, t) -/
abbrev Db := List (Nat × Nat)

inductive Err | unrepeatable
  deriving DecidableEq, Repr

def setS (s : Sess) (side : Bool) (o : Nat) (sd : SetData) : Sess :=
  ⟨fun sd' x => if sd' = side ∧ x = o then some sd else s.sets sd' x⟩

/-- the items linked to `o` in the committed table, in row order -/
def linked (db : Db) (side : Bool) (o : Nat) : List Nat :=
  if side then (db.filter (fun r => r.2 == o)).map (·.1) else (db.filter (fun r => r.1 == o)).map (·.2)

/-- [Set.db_reverse_add] for ONE object `x` of the reverse side receiving `o` -/
def reverseAdd (g : Guards) (s : Sess) (side : Bool) (o x : Nat) : Sess × Option Err :=
  match s.sets (!side) x with
  | none => (setS s (!side) x ⟨[o], false, none⟩, none)
  | some sd =>
    if sd.full && g.addChecks then (s, some .unrepeatable)            -- Phantom object appeared
    else (setS s (!side) x { sd with items := if sd.items.contains o then sd.items else sd.items ++ [o] }, none)

def reverseAddAll (g : Guards) (side : Bool) (o : Nat) : Sess → List Nat → Sess × Option Err
  | s, [] => (s, none)
  | s, x :: rest =>
    match reverseAdd g s side o x with
    | (s1, some e) => (s1, some e)
    | (s1, none) => reverseAddAll g side o s1 rest

/-- the per-object part shared by [Set.load] and [Set.prefetch_load_all]:
    `phantoms = setdata2 - items` -> disappeared; `items -= setdata2`; [appeared guard]; `setdata2 |= items`;
    `reverse.db_reverse_add(items, obj2)` -/
def mergeOne (g : Guards) (checkAppeared : Bool) (s : Sess) (side : Bool) (o : Nat) (dbItems : List Nat) : Sess × Option Err :=
  let sd := (s.sets side o).getD ⟨[], false, none⟩
  if sd.items.any (fun x => !dbItems.contains x) then (s, some .unrepeatable)       -- Phantom object disappeared
  else
    let new := (dbItems.filter (fun x => !sd.items.contains x)).eraseDups
    if checkAppeared && !new.isEmpty && sd.full then (s, some .unrepeatable)         -- Phantom object appeared
    else reverseAddAll g side o (setS s side o { sd with items := sd.items ++ new }) new

def markFull (s : Sess) (side : Bool) : List Nat → Sess
  | [] => s
  | o :: rest =>
    let sd := (s.sets side o).getD ⟨[], false, none⟩
    markFull (setS s side o ⟨sd.items, true, some sd.items.length⟩) side rest

/-- [Set.load], many-to-many, one object -/
def loadColl (g : Guards) (s : Sess) (db : Db) (side : Bool) (o : Nat) : Sess × Option Err :=
  let sd := (s.sets side o).getD ⟨[], false, none⟩
  if sd.full && g.loadSkipsFull then (s, none)
  else
    match mergeOne g false (setS s side o sd) side o (linked db side o) with
    | (s1, some e) => (s1, some e)
    | (s1, none) => (markFull s1 side [o], none)

def mergeAll (g : Guards) (db : Db) (side : Bool) : Sess → List Nat → Sess × Option Err
  | s, [] => (s, none)
  | s, o :: rest =>
    match mergeOne g g.prefetchChecks s side o (linked db side o) with
    | (s1, some e) => (s1, some e)
    | (s1, none) => mergeAll g db side s1 rest

/-- [Set.prefetch_load_all], many-to-many, one batch: with more than one object only those that have link rows get the
    per-object treatment (`m2m_dict`); every object ends fully loaded -/
def prefetch (g : Guards) (s : Sess) (db : Db) (side : Bool) (objs : List Nat) : Sess × Option Err :=
  let withRows := if objs.length > 1 then objs.filter (fun o => !(linked db side o).isEmpty) else objs
  match mergeAll g db side s withRows with
  | (s1, some e) => (s1, some e)
  | (s1, none) => (markFull s1 side objs, none)

inductive Op
  | load (side : Bool) (o : Nat)
  | iter (side : Bool) (o : Nat)
  | len (side : Bool) (o : Nat)
  | prefetch (side : Bool) (objs : List Nat)
  deriving Repr

inductive Res
  | ok | items (l : List Nat) | num (n : Nat) | err (e : Err)
  deriving DecidableEq, Repr

def exec (g : Guards) (s : Sess) (db : Db) : Op → Sess × Res
  | .load side o =>
    match loadColl g s db side o with
    | (s1, some e) => (s1, .err e)
    | (s1, none) => (s1, .ok)
  | .iter side o =>
    match loadColl g s db side o with
    | (s1, some e) => (s1, .err e)
    | (s1, none) => (s1, .items ((s1.sets side o).getD ⟨[], false, none⟩).items)
  | .len side o =>
    match loadColl g s db side o with
    | (s1, some e) => (s1, .err e)
    | (s1, none) => (s1, .num ((s1.sets side o).getD ⟨[], false, none⟩).items.length)
  | .prefetch side objs =>
    match prefetch g s db side objs with
    | (s1, some e) => (s1, .err e)
    | (s1, none) => (s1, .ok)

def run (g : Guards) : Sess → List (Db × Op) → Sess × List Res
  | s, [] => (s, [])
  | s, (db, op) :: rest =>
    let r := exec g s db op
    let r2 := run g r.1 rest
    (r2.1, r.2 :: r2.2)

def runS (g : Guards) (s : Sess) (tr : List (Db × Op)) : Sess := (run g s tr).1

end PonyVerif.Model.CollRead
