/-
  Engine Q, part 1 (shared by C01 and C02): the SQL AST fragment Pony's monads emit for conditions / projections over one
  entity, and its evaluation under SQL semantics (NULL propagation, Kleene three-valued logic) for three backends.

  `Sql`        the node kinds of `pony/orm/sqlbuilding.py` used by the fragment (COLUMN VALUE PARAM EQ NE LT LE GT GE ADD SUB MUL
               NEG ABS LENGTH TO_INT CONCAT IS_NULL IS_NOT_NULL COALESCE NOT AND OR IN NOT_IN LIKE NOT_LIKE CASE)
  `eval`       value of an AST on one row; `none` = the backend would reject the statement / a value of the wrong kind reached an
               operator (PostgreSQL is strict about boolean vs integer; SQLite and MySQL store booleans as 0/1 integers)
  `evalCond`   the three-valued truth value of an AST used in WHERE / CASE WHEN / AND / OR / NOT

  Core Lean only (linked into the driver).  The evaluator is validated against real SQLite on every run (engine c01, oracle 3);
  for PostgreSQL / MySQL it is a documented-semantics model (no server exists in the sandbox).
-/
namespace PonyVerif.Model.Q

inductive Dialect | sqlite | pg | mysql
  deriving DecidableEq, Repr, Inhabited

/-- booleans are a separate SQL type (PostgreSQL) rather than the integers 0/1 (SQLite, MySQL) -/
def Dialect.isPg : Dialect → Bool
  | .pg => true
  | _ => false

def Dialect.ofString? : String → Option Dialect
  | "sqlite" => some .sqlite | "SQLite" => some .sqlite
  | "pg" => some .pg | "postgres" => some .pg | "PostgreSQL" => some .pg
  | "mysql" => some .mysql | "MySQL" => some .mysql
  | _ => none

/-- SQL values -/
inductive Val
  | null
  | int (i : Int)
  | str (s : String)
  | bool (b : Bool)        -- PostgreSQL only
  deriving DecidableEq, Repr, Inhabited

/-- three-valued logic -/
inductive K | tt | ff | unk
  deriving DecidableEq, Repr, Inhabited

def K.ofBool : Bool → K
  | true => .tt
  | false => .ff

def K.not : K → K
  | .tt => .ff | .ff => .tt | .unk => .unk

def K.and : K → K → K
  | .ff, _ => .ff
  | _, .ff => .ff
  | .tt, .tt => .tt
  | _, _ => .unk

def K.or : K → K → K
  | .tt, _ => .tt
  | _, .tt => .tt
  | .ff, .ff => .ff
  | _, _ => .unk

inductive CmpOp | eq | ne | lt | le | gt | ge
  deriving DecidableEq, Repr, Inhabited

inductive ArOp | add | sub | mul
  deriving DecidableEq, Repr, Inhabited

/-- literal of a `[ 'VALUE', x ]` node -/
inductive Lit
  | null
  | int (i : Int)
  | str (s : String)
  | bool (b : Bool)
  deriving DecidableEq, Repr, Inhabited

mutual
inductive Sql
  | column (name : String)                       -- [ 'COLUMN', 'e', name ]
  | value (v : Lit)                              -- [ 'VALUE', v ]
  | param (name : String)                        -- [ 'PARAM', key, converter ]  (key normalised to the source text)
  | cmp (op : CmpOp) (a b : Sql)                 -- EQ NE LT LE GT GE
  | ar (op : ArOp) (a b : Sql)                   -- ADD SUB MUL
  | neg (a : Sql) | abs (a : Sql) | length (a : Sql) | toInt (a : Sql)
  | concat (a b : Sql)                           -- [ 'CONCAT', a, b ]
  | isNull (a : Sql) | isNotNull (a : Sql)
  | coalesce (a b : Sql)
  | not (a : Sql)
  | and (items : SqlList) | or (items : SqlList)
  | inList (neg : Bool) (a : Sql) (items : SqlList)          -- IN / NOT_IN with a list of expressions
  | like (neg : Bool) (a : Sql) (pat : String) (esc : Bool)  -- LIKE / NOT_LIKE  a  VALUE(pat)  [ VALUE('!') ]
  | case (c t e : Sql)                           -- [ 'CASE', None, [ [ c, t ] ], e ]
inductive SqlList
  | nil
  | cons (h : Sql) (t : SqlList)
end

instance : Inhabited Sql := ⟨.value .null⟩
instance : Inhabited SqlList := ⟨.nil⟩

def SqlList.ofList : List Sql → SqlList
  | [] => .nil
  | h :: t => .cons h (SqlList.ofList t)

def SqlList.toList : SqlList → List Sql
  | .nil => []
  | .cons h t => h :: t.toList

def SqlList.append : SqlList → SqlList → SqlList
  | .nil, ys => ys
  | .cons h t, ys => .cons h (t.append ys)

/-- the row and the query parameters, as the backend sees them -/
structure SEnv where
  col : String → Val
  par : String → Val

/-- value of a literal as `Value.__str__` / `PGValue.__str__` spell it: booleans are `1`/`0` except on PostgreSQL (`true`/`false`) -/
def litVal (d : Dialect) : Lit → Val
  | .null => .null
  | .int i => .int i
  | .str s => .str s
  | .bool b => if d.isPg then .bool b else .int (if b then 1 else 0)

/-- a value used where a truth value is needed.  `none`: not accepted there (PostgreSQL: anything but boolean; all backends:
    a string — SQLite/MySQL would convert its numeric prefix, which no correct translation may rely on). -/
def toCond (d : Dialect) : Val → Option K
  | .null => some .unk
  | .bool b => if d.isPg then some (K.ofBool b) else none
  | .int i => if d.isPg then none else some (K.ofBool (i != 0))
  | .str _ => none

/-- a truth value as a value of the backend -/
def ofCond (d : Dialect) : K → Val
  | .unk => .null
  | .tt => if d.isPg then .bool true else .int 1
  | .ff => if d.isPg then .bool false else .int 0

def cmpInt (op : CmpOp) (a b : Int) : Bool :=
  match op with
  | .eq => a == b | .ne => a != b | .lt => a < b | .le => a ≤ b | .gt => a > b | .ge => a ≥ b

def cmpStr (op : CmpOp) (a b : String) : Bool :=
  match op with
  | .eq => a == b | .ne => a != b | .lt => a < b | .le => !(b < a) | .gt => b < a | .ge => !(a < b)

def boolInt (b : Bool) : Int := if b then 1 else 0

/-- comparison of two values: NULL if an operand is NULL; operands must be of the same kind -/
def cmpVals (op : CmpOp) : Val → Val → Option K
  | .null, _ => some .unk
  | _, .null => some .unk
  | .int a, .int b => some (K.ofBool (cmpInt op a b))
  | .str a, .str b => some (K.ofBool (cmpStr op a b))
  | .bool a, .bool b => some (K.ofBool (cmpInt op (boolInt a) (boolInt b)))
  | _, _ => none

def arInt (op : ArOp) (a b : Int) : Int :=
  match op with
  | .add => a + b | .sub => a - b | .mul => a * b

def arVals (op : ArOp) : Val → Val → Option Val
  | .null, .null => some .null
  | .null, .int _ => some .null
  | .int _, .null => some .null
  | .int a, .int b => some (.int (arInt op a b))
  | _, _ => none

def sameKind : Val → Val → Bool
  | .null, _ => true
  | _, .null => true
  | .int _, .int _ => true
  | .str _, .str _ => true
  | .bool _, .bool _ => true
  | _, _ => false

/-- the LIKE matcher of a backend: `like pattern hasEscapeClause subject` -/
structure LikeFn where
  run : Dialect → String → Bool → String → Bool

mutual
def eval (L : LikeFn) (d : Dialect) (env : SEnv) : Sql → Option Val
  | .column n => some (env.col n)
  | .value v => some (litVal d v)
  | .param n => some (env.par n)
  | .cmp op a b =>
      match eval L d env a, eval L d env b with
      | some va, some vb => (cmpVals op va vb).map (ofCond d)
      | _, _ => none
  | .ar op a b =>
      match eval L d env a, eval L d env b with
      | some va, some vb => arVals op va vb
      | _, _ => none
  | .neg a =>
      match eval L d env a with
      | some .null => some .null
      | some (.int i) => some (.int (-i))
      | _ => none
  | .abs a =>
      match eval L d env a with
      | some .null => some .null
      | some (.int i) => some (.int (Int.ofNat i.natAbs))
      | _ => none
  | .length a =>
      match eval L d env a with
      | some .null => some .null
      | some (.str s) => some (.int s.length)
      | _ => none
  | .toInt a =>
      match eval L d env a with
      | some .null => some .null
      | some (.int i) => some (.int i)
      | some (.bool b) => some (.int (boolInt b))
      | _ => none
  | .concat a b =>
      match eval L d env a, eval L d env b with
      | some .null, some .null => some .null
      | some .null, some (.str _) => some .null
      | some (.str _), some .null => some .null
      | some (.str x), some (.str y) => some (.str (x ++ y))
      | _, _ => none
  | .isNull a =>
      match eval L d env a with
      | some v => some (ofCond d (K.ofBool (v == .null)))
      | none => none
  | .isNotNull a =>
      match eval L d env a with
      | some v => some (ofCond d (K.ofBool (v != .null)))
      | none => none
  | .coalesce a b =>
      match eval L d env a, eval L d env b with
      | some va, some vb => if sameKind va vb then some (if va == .null then vb else va) else none
      | _, _ => none
  | .not a =>
      match (eval L d env a).bind (toCond d) with
      | some k => some (ofCond d k.not)
      | none => none
  | .and items => (evalAll L d env items).map (fun ks => ofCond d (ks.foldl K.and .tt))
  | .or items => (evalAll L d env items).map (fun ks => ofCond d (ks.foldl K.or .ff))
  | .inList ng a items =>
      match eval L d env a, evalVals L d env items with
      | some va, some vs =>
          match vs.mapM (cmpVals .eq va) with
          | some ks => let k := ks.foldl K.or .ff; some (ofCond d (if ng then k.not else k))
          | none => none
      | _, _ => none
  | .like ng a pat esc =>
      match eval L d env a with
      | some .null => some .null
      | some (.str s) => let k := K.ofBool (L.run d pat esc s); some (ofCond d (if ng then k.not else k))
      | _ => none
  | .case c t e =>
      match (eval L d env c).bind (toCond d), eval L d env t, eval L d env e with
      | some k, some vt, some ve => if sameKind vt ve then some (if k == .tt then vt else ve) else none
      | _, _, _ => none
/-- truth values of a list of conditions (all must be acceptable as conditions) -/
def evalAll (L : LikeFn) (d : Dialect) (env : SEnv) : SqlList → Option (List K)
  | .nil => some []
  | .cons h t =>
      match (eval L d env h).bind (toCond d), evalAll L d env t with
      | some k, some ks => some (k :: ks)
      | _, _ => none
def evalVals (L : LikeFn) (d : Dialect) (env : SEnv) : SqlList → Option (List Val)
  | .nil => some []
  | .cons h t =>
      match eval L d env h, evalVals L d env t with
      | some v, some vs => some (v :: vs)
      | _, _ => none
end

/-- three-valued truth value of a condition (WHERE selects the row iff it is `tt`) -/
def evalCond (L : LikeFn) (d : Dialect) (env : SEnv) (s : Sql) : Option K :=
  (eval L d env s).bind (toCond d)

/-! ### an executable LIKE matcher for the driver (SQLite's `patternCompare` with `case_sensitive_like = true`;
    the same recursion as `Model.SqlText.likeMatch`, which C06 proves equal to Python's `in` / `startswith` / `endswith`) -/

def likeChars (esc : Option Char) : List Char → List Char → Bool
  | [], s => s.isEmpty
  | c :: p', s =>
    if c = '%' then
      likeChars esc p' s || (match s with
        | [] => false
        | _ :: s' => likeChars esc (c :: p') s')
    else if some c = esc then
      match p' with
      | [] => false
      | x :: p'' =>
        match s with
        | [] => false
        | e :: s' => x == e && likeChars esc p'' s'
    else if c = '_' then
      match s with
      | [] => false
      | _ :: s' => likeChars esc p' s'
    else
      match s with
      | [] => false
      | e :: s' => c == e && likeChars esc p' s'
termination_by p s => p.length + s.length
decreasing_by all_goals (simp_wf; try omega)

/-- default escape character when no ESCAPE clause is present: none (SQLite), backslash (PostgreSQL, MySQL) -/
def likeExec : LikeFn where
  run d pat esc s :=
    let e : Option Char := if esc then some '!' else (match d with | .sqlite => none | _ => some '\\')
    likeChars e pat.toList s.toList

end PonyVerif.Model.Q
