import PonyVerif.Gen.DbSessionGen
/-
  C18 — executable model of `db_session` (pony/orm/core.py: DBSessionContextManager, commit(), rollback(),
  rollback_and_reraise), of the Flask glue (pony/flask/__init__.py) and the Bottle plugin
  (pony/orm/integration/bottle_plugin.py).  Core Lean only.

  What is mirrored, line by line:
    `_enter`, `__enter__`, `__exit__`, `_commit_or_rollback`, `_wrap_function.new_func` (nested shortcut + retry loop),
    `_wrap_coroutine_or_generator_function` (`wrapped_interact`, option check), `_enter_session/_exit_session`,
    `PonyPlugin.apply`.
  Regenerated from the source on every run (Gen/DbSessionGen.lean, harness/gen_dbsession.py) and USED here: the chain
    assigning `can_commit` (`allowedDecision`), the chain assigning `do_retry` (`doRetry`), `range(retry+1)` (`loopFuel`),
    `rollback()` on the retry path, `commit()` after the body, the arguments of the `finally: __exit__(…)` call, the counter
    steps of `_enter`/`__exit__`, the guard and arguments of `_commit_or_rollback` in `__exit__`, its commit/rollback branches
    and `local.db_session = None`, the counter constants of the generator wrapper, the argument of Flask's
    `session.__exit__`, Bottle's `is_allowed_exception` expression.
  What is abstracted:
    * the database is `committed : List Write`; the session caches (`local.db2cache`) are `pending : List Write`;
    * an exception is an opaque identity `Exc`; `allowed_exceptions` / `retry_exceptions` (class lists *or* callables) are
      functions `Exc → PredR` (a callable may itself raise); `exc.should_retry` is `Env.shouldRetry`;
    * `commit()` with nothing pending does nothing; otherwise the oracle `Env.commitFail` (indexed by the number of real
      commits made so far) says whether it succeeds or raises — in both failure paths of `commit()` (flush error →
      `rollback_and_reraise`; `primary_cache.commit()` error → `cache.rollback()` inside `SessionCache.commit`) everything
      pending is rolled back before the exception leaves `commit()`;
    * `rollback()` does not fail (assumption);
    * options `immediate`, `strict`, `optimistic`, `sql_debug`, `show_values` do not occur in any commit/rollback decision
      of the code and are not modelled; `ddl` / `serializable` occur in `_enter` and in the wrappers' option checks.
  Ghost state: `trace` (events emitted by `Prog.mark` / `Prog.observe`; never rolled back) is only there so that the
  number and order of body executions and what each execution sees can be compared with the real code.
-/
namespace PonyVerif.Model.DbSession
open PonyVerif.Gen

abbrev Write := Nat

inductive Exc where
  | user (n : Nat)          -- exceptions of bodies, of predicates, and those surfaced by commit() (oracle-chosen)
  | retryInCM               -- TypeError: `retry` only when used as decorator (`__enter__`)
  | ddlInsideNonDdl         -- TransactionError (`_enter`)
  | serInsideNonSer         -- TransactionError (`_enter`)
  | ddlDecoratedInside      -- TransactionError (`new_func`, called inside another db_session with `ddl`)
  | genBadOption            -- TypeError: ddl / retry / serializable on a generator function
  | genInsideSession        -- TransactionError: wrapped generator resumed inside another db_session
  | genSuspendDirty         -- TransactionError: 'You need to manually commit() changes before suspending the generator'
  | generatorExit           -- GeneratorExit thrown in by `close()`
  | noSession               -- TransactionError: db_session is required when working with the database
  | assertion               -- AssertionError of one of the `assert`s of the modelled code
  | unbound                 -- `reraise(exc_type, exc, tb)` after a loop that never ran (unreachable)
  deriving DecidableEq, Repr, Inhabited

/-- result of calling `allowed_exceptions` / `retry_exceptions` on an exception (class lists never raise) -/
inductive PredR where
  | yes | no | raises (e : Exc)
  deriving DecidableEq, Repr, Inhabited

inductive Outcome where
  | ret | raise (e : Exc)
  deriving DecidableEq, Repr, Inhabited

def Outcome.exc? : Outcome → Option Exc
  | .ret => none
  | .raise e => some e

/-- the part of `local.db_session` that later `_enter` calls and the outermost `__exit__` look at -/
structure Sess where
  sid : Nat
  ddl : Bool
  serializable : Bool
  deriving DecidableEq, Repr, Inhabited

structure Opts where
  retry : Nat := 0
  ddl : Bool := false
  serializable : Bool := false
  allowed : Exc → PredR := fun _ => .no
  retryable : Exc → PredR := fun _ => .no
  allowedCallable : Bool := false      -- `callable(db_session.allowed_exceptions)` (which branch of the code asks the predicate)
  retryCallable : Bool := false        -- `callable(db_session.retry_exceptions)`
  sid : Nat := 0
  deriving Inhabited

def Opts.sess (o : Opts) : Sess := ⟨o.sid, o.ddl, o.serializable⟩

structure Env where
  shouldRetry : Exc → Bool := fun _ => false        -- `getattr(exc, 'should_retry', False)`
  commitFail : Nat → Option Exc := fun _ => none     -- n-th real commit: `none` = succeeds, `some e` = commit() raises e
  isTx : Exc → Bool := fun _ => false                -- `issubclass(type(exc), TransactionError)` (default retry_exceptions)
  deriving Inhabited

inductive Ev where
  | mark (n : Nat)
  | saw (rows : List Write)
  deriving DecidableEq, Repr, Inhabited

structure St where
  counter : Int := 0                 -- local.db_context_counter
  session : Option Sess := none      -- local.db_session
  pending : List Write := []         -- uncommitted changes held by local.db2cache
  committed : List Write := []       -- the database
  ncommit : Nat := 0                 -- number of real commits attempted so far (index into Env.commitFail)
  trace : List Ev := []              -- ghost
  deriving DecidableEq, Repr, Inhabited

/-- module-level `commit()` -/
def commit (env : Env) (s : St) : St × Option Exc :=
  if s.pending = [] then (s, none)
  else match env.commitFail s.ncommit with
    | none => ({ s with committed := s.committed ++ s.pending, pending := [], ncommit := s.ncommit + 1 }, none)
    | some e => ({ s with pending := [], ncommit := s.ncommit + 1 }, some e)

/-- module-level `rollback()` -/
def rollback (s : St) : St := { s with pending := [] }

/-- `DBSessionContextManager._enter` -/
def enter (o : Opts) (s : St) : Except Exc St :=
  match s.session with
  | none =>
    if s.counter ≠ 0 then .error .assertion
    else .ok { s with session := some o.sess, counter := DbSessionGen.counterAfterEnter s.counter }
  | some cur =>
    if o.ddl && !cur.ddl then .error .ddlInsideNonDdl
    else if o.serializable && !cur.serializable then .error .serInsideNonSer
    else .ok { s with counter := DbSessionGen.counterAfterEnter s.counter }

/-- the value of `can_commit`: the if/elif/else chain of `_commit_or_rollback` as regenerated from the source
    (`Gen.DbSessionGen.canCommit`), instantiated with what the list check / the callable answer for this exception -/
def allowedDecision (o : Opts) (exc : Option Exc) : PredR :=
  match exc with
  | none => DbSessionGen.canCommit PredR.yes PredR.no true o.allowedCallable PredR.no PredR.no
  | some e => DbSessionGen.canCommit PredR.yes PredR.no false o.allowedCallable (o.allowed e) (o.allowed e)

/-- `DBSessionContextManager._commit_or_rollback`; the second component is the exception it raises itself -/
def commitOrRollback (env : Env) (o : Opts) (exc : Option Exc) (s : St) : St × Option Exc :=
  let r : St × Option Exc :=
    match allowedDecision o exc with
    | .raises e' => (rollback s, some e')      -- `except: rollback_and_reraise(sys.exc_info())`
    | .yes => if DbSessionGen.commitBranchCommits then commit env s else (s, none)
    | .no => if DbSessionGen.elseBranchRollsBack then (rollback s, none) else (s, none)
  (if DbSessionGen.clearsSession then { r.1 with session := none } else r.1, r.2)   -- `finally: local.db_session = None`

/-- `DBSessionContextManager.__exit__` -/
def exit (env : Env) (o : Opts) (exc : Option Exc) (s : St) : St × Option Exc :=
  let s1 := { s with counter := DbSessionGen.counterAfterExit s.counter }
  if DbSessionGen.exitIsOutermost s1.counter then
    if s1.session.map (·.sid) ≠ some o.sid then (s1, some .assertion)     -- `assert local.db_session is db_session`
    else commitOrRollback env o (if DbSessionGen.exitPassesExc then exc else none) s1
  else (s1, none)

/-- `with db_session(**o): body` — `__enter__`, body, `__exit__` with the semantics of the `with` statement -/
def cm (env : Env) (o : Opts) (run : St → St × Outcome) (s : St) : St × Outcome :=
  if o.retry ≠ 0 then (s, .raise .retryInCM)
  else match enter o s with
    | .error e => (s, .raise e)
    | .ok s1 =>
      let r := run s1
      let x := exit env o r.2.exc? r.1
      (x.1, match x.2 with
            | some e' => .raise e'       -- an exception raised by `__exit__` replaces the one in flight
            | none => r.2)               -- `__exit__` returns None: the body's exception propagates

/-- the `except:` clause's decision in `new_func` -/
def doRetry (env : Env) (o : Opts) (e : Exc) : PredR :=
  DbSessionGen.doRetry PredR.yes PredR.no (env.shouldRetry e) o.retryCallable (o.retryable e) (o.retryable e)

/-- what the `finally:` clause of the retry loop hands to `__exit__` -/
def loopExc (e : Exc) : Option Exc := if DbSessionGen.loopExitPassesExc then some e else none

/-- one record per execution of the decorated function's body (ghost output of the loop) -/
structure Att where
  start : St                 -- state right after `_enter()`
  after : St                 -- state in which the body ended (what it committed itself is in `after.committed`)
  bodyOut : Outcome
  exc : Option Exc           -- what the `except:` clause saw (body's exception or commit()'s), `none` = `return result`
  deriving DecidableEq, Repr, Inhabited

/-- what the body left pending -/
def Att.writes (a : Att) : List Write := a.after.pending

structure Res where
  st : St
  out : Outcome
  log : List Att
  deriving Inhabited

inductive AttOut where
  | done (out : Outcome)       -- the function returns / an exception leaves the loop
  | again (e : Exc)            -- the loop goes on to the next `i`
  deriving DecidableEq, Repr, Inhabited

/-- one iteration of the retry loop after `_enter()`: `try: result = func(); commit(); return result` /
    `except: ...` / `finally: db_session.__exit__(exc_type, exc, tb)` -/
def attempt (env : Env) (o : Opts) (run : Nat → St → St × Outcome) (i : Nat) (s1 : St) : St × AttOut × Att :=
  let b := run i s1
  let c : St × Option Exc := match b.2 with
    | .ret => if DbSessionGen.commitAfterBody then commit env b.1 else (b.1, none)
    | .raise e => (b.1, some e)
  let a : Att := ⟨s1, b.1, b.2, c.2⟩
  match c.2 with
  | none =>
    let x := exit env o none c.1                           -- `return result` → `finally: __exit__(None, None, None)`
    (x.1, .done (match x.2 with | none => .ret | some e' => .raise e'), a)
  | some e =>
    match doRetry env o e with
    | .yes =>
      let x := exit env o (loopExc e) (if DbSessionGen.retryPathRollsBack then rollback c.1 else c.1)   -- `rollback()`, then `finally: __exit__(exc_type, exc, tb)`
      (x.1, (match x.2 with | some e' => .done (.raise e') | none => .again e), a)
    | .no =>
      let x := exit env o (loopExc e) c.1                  -- `raise`, then `finally: __exit__(...)`
      (x.1, .done (.raise (x.2.getD e)), a)
    | .raises e' =>
      let x := exit env o (loopExc e) c.1                  -- the callable raised inside `except:`
      (x.1, .done (.raise (x.2.getD e')), a)

/-- `for i in range(db_session.retry+1): ...` followed by `reraise(exc_type, exc, tb)` -/
def loop (env : Env) (o : Opts) (run : Nat → St → St × Outcome) : Nat → Nat → Option Exc → St → Res
  | 0, _, last, s => ⟨s, .raise (last.getD .unbound), []⟩
  | fuel + 1, i, _, s =>
    match enter o s with
    | .error e => ⟨s, .raise e, []⟩
    | .ok s1 =>
      match attempt env o run i s1 with
      | (s2, .done out, a) => ⟨s2, out, [a]⟩
      | (s2, .again e, a) =>
        let r := loop env o run fuel (i + 1) (some e) s2
        ⟨r.st, r.out, a :: r.log⟩

/-- `db_session(**o)(func)(...)` for a plain function: `_wrap_function.new_func` -/
def decorated (env : Env) (o : Opts) (run : Nat → St → St × Outcome) (s : St) : Res :=
  if s.counter ≠ 0 then
    if o.ddl then ⟨s, .raise .ddlDecoratedInside, []⟩
    else
      let b := run 0 s                                       -- `return func(*args, **kwargs)`
      ⟨b.1, b.2, []⟩
  else loop env o run (DbSessionGen.loopFuel o.retry) 0 none s

/-! ### generator functions -/

inductive SegEnd where
  | yield | ret | raise (e : Exc)
  deriving DecidableEq, Repr, Inhabited

/-- what the consumer does on the same thread while the generator is suspended, right before it resumes it:
    nothing, a read-only `with db_session:` of its own, or a `with db_session:` that writes one row -/
inductive Between where
  | none | read | write (w : Write)
  deriving DecidableEq, Repr, Inhabited

/-- what the generator body does between two suspension points -/
structure Seg where
  before : Between := .none           -- the consumer's own session before this resume
  writes : List Write := []
  manualCommit : Bool := false        -- the body calls `commit()` itself after `writes`
  late : List Write := []
  fin : SegEnd := .yield
  deriving DecidableEq, Repr, Inhabited

/-- how the consumer resumes the wrapped generator -/
inductive Resume where
  | next | throw (e : Exc) | close
  deriving DecidableEq, Repr, Inhabited

inductive StepOut where
  | yielded | stopped | raised (e : Exc)
  deriving DecidableEq, Repr, Inhabited

def addWrites (s : St) (ws : List Write) : St := { s with pending := s.pending ++ ws }

/-- `wrapped_interact`; `copy` is `db2cache_copy`. Returns the new state, the new copy and what the step produced. -/
def wrappedInteract (env : Env) (o : Opts) (seg : Seg) (resume : Resume) (copy : List Write) (s : St) :
    St × List Write × StepOut :=
  if s.session.isSome then (s, copy, .raised .genInsideSession)
  else if s.counter ≠ 0 ∨ s.pending ≠ [] then (s, copy, .raised .assertion)
  else
    let s1 := { s with counter := DbSessionGen.genCounterInside, session := some o.sess, pending := s.pending ++ copy }
    let r : St × StepOut :=
      match resume with
      | .close => (rollback s1, .raised .generatorExit)          -- `iterator.close(); reraise` → `rollback_and_reraise`
      | .throw e => (rollback s1, .raised e)                     -- thrown in and not caught by the body
      | .next =>
        let s2 := addWrites s1 seg.writes
        let m : St × Option Exc := if seg.manualCommit then commit env s2 else (s2, none)
        match m.2 with
        | some e => (rollback m.1, .raised e)
        | none =>
          let s4 := addWrites m.1 seg.late
          match seg.fin with
          | .raise e => (rollback s4, .raised e)
          | .ret =>                                              -- StopIteration: `commit()`, release, `raise e`
            let c := commit env s4
            (rollback c.1, match c.2 with | none => .stopped | some e => .raised e)
          | .yield =>
            if s4.pending ≠ [] then (rollback s4, .raised .genSuspendDirty) else (s4, .yielded)
    -- `finally: db2cache_copy.update(local.db2cache); local.db2cache.clear(); counter = 0; db_session = None`
    ({ r.1 with pending := [], counter := DbSessionGen.genCounterAfter, session := none }, r.1.pending, r.2)

/-- the consumer's own `with db_session: ...` (module-level default session) between two resumes -/
def betweenRun (env : Env) : Between → St → St × Outcome
  | .none, s => (s, .ret)
  | .read, s =>
    cm env {} (fun s => if s.session.isSome then ({ s with trace := s.trace ++ [.saw (s.committed ++ s.pending)] }, .ret)
                        else (s, .raise .noSession)) s
  | .write w, s => cm env {} (fun s => (addWrites s [w], .ret)) s

def iterLoop (env : Env) (o : Opts) : List (Seg × Resume) → List Write → St → St × Outcome
  | [], _, s => (s, .ret)                       -- the consumer stops; the generator stays suspended
  | (seg, r) :: rest, copy, s =>
    match betweenRun env seg.before s with
    | (s0, .raise e) => (s0, .raise e)          -- the consumer's own session failed (its commit): it does not resume
    | (s0, .ret) =>
      match wrappedInteract env o seg r copy s0 with
      | (s1, copy1, .yielded) => iterLoop env o rest copy1 s1
      | (s1, _, .stopped) => (s1, .ret)
      | (s1, _, .raised e) => (s1, .raise e)

/-- decorate a generator function with `db_session(**o)` and drive it with the given resume script -/
def iterGen (env : Env) (o : Opts) (steps : List (Seg × Resume)) (s : St) : St × Outcome :=
  if o.ddl || o.retry != 0 || o.serializable then (s, .raise .genBadOption)
  else iterLoop env o steps [] s

/-! ### Flask: `_enter_session`, `_exit_session`, and one request through the registered hooks -/

/-- the module-level `db_session` singleton returned by `db_session()` -/
def defaultOpts (env : Env) : Opts :=
  { retryable := fun e => if env.isTx e then .yes else .no }

/-- `_enter_session`: returns the new `request.pony_session` and the state, or the exception of `__enter__` -/
def flaskEnter (env : Env) (s : St) : Option Opts × Except Exc St :=
  let session := defaultOpts env
  (some session, if session.retry ≠ 0 then .error .retryInCM else enter session s)

/-- `_exit_session(exception)` -/
def flaskExit (env : Env) (ponySession : Option Opts) (exception : Option Exc) (s : St) : St × Option Exc :=
  match ponySession with
  | none => (s, none)
  | some session => exit env session (if DbSessionGen.flaskExitPassesType then exception else none) s

/-- one request: before_request hooks (`hooked` = Pony's hook is reached), the view, the teardown hooks with the
    exception of the request; an exception raised by the teardown hook replaces the outcome -/
def flaskRequest (env : Env) (hooked : Bool) (view : St → St × Outcome) (s : St) : St × Outcome :=
  let e : Option Opts × Except Exc St := if hooked then flaskEnter env s else (none, .ok s)
  let r : St × Outcome := match e.2 with
    | .error x => (s, .raise x)
    | .ok s1 => view s1
  let x := flaskExit env e.1 r.2.exc? r.1
  (x.1, match x.2 with | some e' => .raise e' | none => r.2)

/-! ### Bottle: `PonyPlugin.apply` = `db_session(allowed_exceptions=is_allowed_exception)(callback)` -/

def bottleOpts (env : Env) (isResp isErr : Exc → Bool) : Opts :=
  { allowed := fun e => if DbSessionGen.isAllowedException (isResp e) (isErr e) then .yes else .no,
    allowedCallable := true,
    retryable := fun e => if env.isTx e then .yes else .no }

/-! ### programs: arbitrary nesting of the above -/

inductive Prog where
  | skip
  | write (w : Write)
  | mark (n : Nat)
  | observe
  | commit                   -- the body calls the module-level `commit()` itself
  | rollback                 -- the body calls the module-level `rollback()` itself
  | raise (e : Exc)
  | seq (a b : Prog)
  | tryCatch (p : Prog) (catches : Exc → Bool) (h : Prog)
  | withSession (o : Opts) (p : Prog)
  | call (o : Opts) (f : Nat → Prog)
  | iter (o : Opts) (steps : List (Seg × Resume))
  | flask (hooked : Bool) (view : Prog)

def exec (env : Env) : Prog → St → St × Outcome
  | .skip, s => (s, .ret)
  | .write w, s => if s.session.isSome then (addWrites s [w], .ret) else (s, .raise .noSession)
  | .mark n, s => ({ s with trace := s.trace ++ [.mark n] }, .ret)
  | .observe, s =>
    if s.session.isSome then ({ s with trace := s.trace ++ [.saw (s.committed ++ s.pending)] }, .ret)
    else (s, .raise .noSession)
  | .commit, s =>
    let r := commit env s
    (r.1, match r.2 with | none => .ret | some e => .raise e)
  | .rollback, s => (rollback s, .ret)
  | .raise e, s => (s, .raise e)
  | .seq a b, s =>
    match exec env a s with
    | (s1, .ret) => exec env b s1
    | r => r
  | .tryCatch p c h, s =>
    match exec env p s with
    | (s1, .raise e) => if c e then exec env h s1 else (s1, .raise e)
    | r => r
  | .withSession o p, s => cm env o (exec env p) s
  | .call o f, s => let r := decorated env o (fun i => exec env (f i)) s; (r.st, r.out)
  | .iter o steps, s => iterGen env o steps s
  | .flask hooked view, s => flaskRequest env hooked (exec env view) s

/-- the program never calls `commit()` / `rollback()` itself (outside generator segments) -/
def Prog.noManual : Prog → Prop
  | .commit => False
  | .rollback => False
  | .seq a b => a.noManual ∧ b.noManual
  | .tryCatch p _ h => p.noManual ∧ h.noManual
  | .withSession _ p => p.noManual
  | .call _ f => ∀ i, (f i).noManual
  | .flask _ v => v.noManual
  | _ => True

end PonyVerif.Model.DbSession
