import PonyVerif.Model.TxnProtocol
/-
  C17 — the statements a Pony session EMITS (the producer side of the language L of Model/TxnProtocol.lean).

  A small executable mirror of the transaction bookkeeping of one `db_session` on SQLite:

    pony/orm/core.py   Database._exec_sql (`if start_transaction: cache.immediate = True`; prepare; execute;
                       `if cache.immediate: cache.in_transaction = True`),
                       SessionCache.prepare_connection_for_query_execution / connect (pooled connection reused, else
                       `sqlite3.connect`; `set_transaction_mode`: BEGIN IMMEDIATE iff `cache.immediate`; on failure drop),
                       SessionCache.flush (`cache.immediate = True`; statements; `finally: if not in_transaction: restore`),
                       SessionCache.commit / close(rollback) / release, core.commit / rollback, db_session.__exit__
    sqlite.py          SQLiteProvider.commit/rollback (`in_transaction = False` in `finally`), Pool.release = con.rollback()

  The WRITE ENTRY POINTS are the constructors of `Entry`; whether an entry point asks for a transaction before it sends
  its statement is NOT written here: it is the parameter `opens : Entry → Bool` (and `flushImm` for `SessionCache.flush`),
  instantiated in Props/C17.lean by `Gen/TxnEntry.lean`, which harness/gen_txnentry.py re-derives from the source on every run.

  Every DB-API call that can raise asks the oracle `f : Nat → Bool` (index = number of calls made so far in the session).
  `cursor()` calls and the PRAGMAs of a new connection are not statements of L and are left out.  Core Lean only.
-/
namespace PonyVerif.Model.TxnEmit
open PonyVerif.Model.TxnProtocol

/-- the functions of pony/orm/core.py that send INSERT / UPDATE / DELETE statements -/
inductive Entry
  | dbExecute      -- Database.execute (raw SQL)
  | dbInsert       -- Database.insert
  | saveCreated    -- Entity._save_created_   (SessionCache.flush and Entity.flush)
  | saveUpdated    -- Entity._save_updated_
  | saveDeleted    -- Entity._save_deleted_
  | m2mRemove      -- Set.remove_m2m          (SessionCache.flush only)
  | m2mAdd         -- Set.add_m2m
  | bulkDelete     -- Query.delete(bulk=True)
  | rawConn        -- Database.get_connection(): user code writes on the raw DB-API connection it returns
  deriving DecidableEq, Repr, Inhabited

/-- can be called by user code outside `SessionCache.flush` (`db.execute`, `db.insert`, `obj.flush()`, `q.delete(bulk=True)`) -/
def Entry.direct : Entry → Bool
  | .m2mRemove => false
  | .m2mAdd => false
  | _ => true

/-- the fields of SessionCache / Pool the protocol reads and writes -/
structure A where
  pool : Bool          -- the thread's pool holds an open connection
  conn : Bool          -- cache.connection is not None
  inTx : Bool          -- cache.in_transaction
  imm : Bool           -- cache.immediate
  deriving DecidableEq, Repr, Inhabited

/-- what came out of a piece of the session: the calls made, the new state, did it raise, how many oracle questions -/
structure R where
  evs : List Ev
  a : A
  ok : Bool
  used : Nat
  deriving Repr, Inhabited

/-- the L-phase the connection is in when no error handling is under way -/
def phaseOf (a : A) : Phase := if !a.pool then .idle else if a.inTx then .txn else .auto

/-- `provider.execute` + `if cache.immediate: cache.in_transaction = True` -/
def execStmt (pre : List Ev) (a : A) (sv : Stmt) (fail : Bool) (used : Nat) : R :=
  if fail then ⟨pre ++ [⟨sv, false⟩], a, false, used + 1⟩
  else ⟨pre ++ [⟨sv, true⟩], { a with inTx := a.inTx || a.imm }, true, used + 1⟩

/-- `Database._exec_sql(sql, start_transaction=setImm)`: one statement `sv` -/
def stmt (a : A) (setImm : Bool) (sv : Stmt) (f : Nat → Bool) : R :=
  let a1 := { a with imm := a.imm || setImm }                 -- if start_transaction: cache.immediate = True
  if !a1.conn then
    if !a1.pool then
      -- Pool.connect: sqlite3.connect
      if f 0 then ⟨[⟨.connect, false⟩], a1, false, 1⟩
      else if a1.imm then
        -- set_transaction_mode: BEGIN IMMEDIATE; on failure provider.drop
        if f 1 then ⟨[⟨.connect, true⟩, ⟨.begin, false⟩, ⟨.close, true⟩], { a1 with pool := false, conn := false, inTx := false }, false, 2⟩
        else execStmt [⟨.connect, true⟩, ⟨.begin, true⟩] { a1 with pool := true, conn := true, inTx := true } sv (f 2) 2
      else execStmt [⟨.connect, true⟩] { a1 with pool := true, conn := true } sv (f 1) 1
    else if a1.imm then
      if f 0 then ⟨[⟨.begin, false⟩, ⟨.close, true⟩], { a1 with pool := false, conn := false, inTx := false }, false, 1⟩
      else execStmt [⟨.begin, true⟩] { a1 with conn := true, inTx := true } sv (f 1) 1
    else execStmt [] { a1 with conn := true } sv (f 0) 0
  else if a1.imm && !a1.inTx then
    -- set_transaction_mode on the session's connection; should_reconnect is False: the error is re-raised
    if f 0 then ⟨[⟨.begin, false⟩], a1, false, 1⟩
    else execStmt [⟨.begin, true⟩] { a1 with inTx := true } sv (f 1) 1
  else execStmt [] a1 sv (f 0) 0

/-- `prepare_connection_for_query_execution` up to its auto-flush: connect / set_transaction_mode as in `stmt`, no statement -/
def prep (a1 : A) (f : Nat → Bool) : R :=
  if !a1.conn then
    if !a1.pool then
      if f 0 then ⟨[⟨.connect, false⟩], a1, false, 1⟩
      else if a1.imm then
        if f 1 then ⟨[⟨.connect, true⟩, ⟨.begin, false⟩, ⟨.close, true⟩], { a1 with pool := false, conn := false, inTx := false }, false, 2⟩
        else ⟨[⟨.connect, true⟩, ⟨.begin, true⟩], { a1 with pool := true, conn := true, inTx := true }, true, 2⟩
      else ⟨[⟨.connect, true⟩], { a1 with pool := true, conn := true }, true, 1⟩
    else if a1.imm then
      if f 0 then ⟨[⟨.begin, false⟩, ⟨.close, true⟩], { a1 with pool := false, conn := false, inTx := false }, false, 1⟩
      else ⟨[⟨.begin, true⟩], { a1 with conn := true, inTx := true }, true, 1⟩
    else ⟨[], { a1 with conn := true }, true, 0⟩
  else if a1.imm && !a1.inTx then
    if f 0 then ⟨[⟨.begin, false⟩], a1, false, 1⟩
    else ⟨[⟨.begin, true⟩], { a1 with inTx := true }, true, 1⟩
  else ⟨[], a1, true, 0⟩

/-- `SessionCache.close(rollback=True)`; `dbt`: the database transaction is open (after a refused COMMIT `in_transaction`
    is already False).  `si`: `db_session.immediate` (the next SessionCache starts with it) -/
def closeRb (a : A) (si : Bool) (ddl : Bool) (f : Nat → Bool) : R :=
  let fresh : A := { pool := a.pool, conn := false, inTx := false, imm := si }
  if !a.conn then ⟨[], fresh, true, 0⟩
  else if f 0 then ⟨[⟨.rollback, false⟩, ⟨.close, true⟩], { fresh with pool := false }, false, 1⟩       -- provider.drop
  else if ddl then ⟨[⟨.rollback, true⟩, ⟨.close, true⟩], { fresh with pool := false }, true, 1⟩          -- DBAPIProvider.release of a ddl session: drop
  else if f 1 then ⟨[⟨.rollback, true⟩, ⟨.rollback, false⟩, ⟨.close, true⟩], { fresh with pool := false }, false, 2⟩
  else ⟨[⟨.rollback, true⟩, ⟨.rollback, true⟩], fresh, true, 2⟩                                         -- + Pool.release

/-- `SessionCache.release()` = close(rollback=False): Pool.release = con.rollback() -/
def release (a : A) (si : Bool) (ddl : Bool) (f : Nat → Bool) : R :=
  let fresh : A := { pool := a.pool, conn := false, inTx := false, imm := si }
  if !a.conn then ⟨[], fresh, true, 0⟩
  else if ddl then ⟨[⟨.close, true⟩], { fresh with pool := false }, true, 0⟩     -- a ddl session never returns its connection to the pool
  else if f 0 then ⟨[⟨.rollback, false⟩, ⟨.close, true⟩], { fresh with pool := false }, false, 1⟩
  else ⟨[⟨.rollback, true⟩], fresh, true, 1⟩

/-- the save loop of `SessionCache.flush` -/
def flushLoop (opens : Entry → Bool) : A → List (Entry × List RowWrite) → (Nat → Bool) → R
  | a, [], _ => ⟨[], a, true, 0⟩
  | a, (e, ws) :: rest, f =>
    let r := stmt a (opens e) (.write ws) f
    if !r.ok then r
    else
      let r2 := flushLoop opens r.a rest (fun k => f (k + r.used))
      ⟨r.evs ++ r2.evs, r2.a, r2.ok, r.used + r2.used⟩

/-- `SessionCache.flush` -/
def cacheFlush (opens : Entry → Bool) (flushImm : Bool) (a : A) (ws : List (Entry × List RowWrite)) (f : Nat → Bool) : R :=
  if ws.isEmpty then ⟨[], a, true, 0⟩ else          -- `if not cache.modified: return`
  let prev := a.imm
  let r := flushLoop opens { a with imm := a.imm || flushImm } ws f
  ⟨r.evs, { r.a with imm := if r.a.inTx then r.a.imm else prev }, r.ok, r.used⟩      -- finally: if not in_transaction: restore

/-- a statement sent while modifications are pending: `prepare_connection_for_query_execution` connects (BEGIN only when
    `cache.immediate`), THEN runs `cache.flush()` (whose statements find the connection and begin the transaction on it), then
    the statement itself is executed -/
def autoFlushStmt (opens : Entry → Bool) (flushImm : Bool) (a : A) (setImm : Bool) (ws : List (Entry × List RowWrite)) (sv : Stmt)
    (f : Nat → Bool) : R :=
  let r := prep { a with imm := a.imm || setImm } f
  if !r.ok then r
  else
    let r2 := cacheFlush opens flushImm r.a ws (fun k => f (k + r.used))
    if !r2.ok then ⟨r.evs ++ r2.evs, r2.a, false, r.used + r2.used⟩
    else
      let r3 := execStmt [] r2.a sv (f (r.used + r2.used)) 0
      ⟨r.evs ++ r2.evs ++ r3.evs, r3.a, r3.ok, r.used + r2.used + r3.used⟩

/-- `SessionCache.commit` after the flush: COMMIT when a transaction is open; on failure `cache.rollback()` -/
def cacheCommit (a : A) (si : Bool) (ddl : Bool) (f : Nat → Bool) : R :=
  if a.inTx then
    if f 0 then
      -- provider.commit raised; its `finally` has set in_transaction False; the transaction is still open
      let r := closeRb { a with inTx := false } si ddl (fun k => f (k + 1))
      ⟨⟨.commit, false⟩ :: r.evs, r.a, false, 1 + r.used⟩
    else ⟨[⟨.commit, true⟩], { a with inTx := false, imm := true }, true, 1⟩
  else ⟨[], { a with imm := true }, true, 0⟩

/-- what user code does inside the session -/
inductive Op
  | query                                          -- a SELECT (start_transaction=False)
  | lockQuery                                      -- get_for_update / query.for_update(): `cache.immediate = True`, then the SELECT
  | direct (e : Entry) (ws : List RowWrite)        -- a write entry point called by user code (db.execute, obj.flush(), ...)
  | flush (ws : List (Entry × List RowWrite))      -- flush() / auto-flush with these pending statements
  | commit (ws : List (Entry × List RowWrite))     -- commit(): flush, then COMMIT
  | rollback                                       -- rollback()
  | flushQuery (ws : List (Entry × List RowWrite)) (lock : Bool)          -- a (locking) SELECT with modifications pending: auto-flush
  | flushDirect (ws : List (Entry × List RowWrite)) (e : Entry) (w : List RowWrite)   -- a direct write with modifications pending
  deriving Repr, Inhabited

/-- `core.commit()`: flush (on failure rollback_and_reraise), then SessionCache.commit -/
def coreCommit (opens : Entry → Bool) (flushImm : Bool) (a : A) (si : Bool) (ddl : Bool) (ws : List (Entry × List RowWrite)) (f : Nat → Bool) : R :=
  let r := cacheFlush opens flushImm a ws f
  if !r.ok then
    let r2 := closeRb r.a si ddl (fun k => f (k + r.used))
    ⟨r.evs ++ r2.evs, r2.a, false, r.used + r2.used⟩
  else
    let r2 := cacheCommit r.a si ddl (fun k => f (k + r.used))
    ⟨r.evs ++ r2.evs, r2.a, r2.ok, r.used + r2.used⟩

def runOp (opens : Entry → Bool) (flushImm : Bool) (si : Bool) (ddl : Bool) (a : A) (op : Op) (f : Nat → Bool) : R :=
  match op with
  | .query => stmt a false .read f
  | .lockQuery => stmt a true .read f
  | .direct e ws => stmt a (opens e) (.write ws) f
  | .flush ws => cacheFlush opens flushImm a ws f
  | .commit ws => coreCommit opens flushImm a si ddl ws f
  | .rollback => closeRb a si ddl f
  | .flushQuery ws lock => autoFlushStmt opens flushImm a lock ws .read f
  | .flushDirect ws e w => autoFlushStmt opens flushImm a (opens e) ws (.write w) f

/-- the body of the session; each operation may sit in the user's own try/except (`caught`).
    Returns the calls made and whether the body ended with an exception. -/
def runBody (opens : Entry → Bool) (flushImm : Bool) (si : Bool) (ddl : Bool) : A → List (Op × Bool) → (Nat → Bool) → R
  | a, [], _ => ⟨[], a, true, 0⟩
  | a, (op, caught) :: rest, f =>
    let r := runOp opens flushImm si ddl a op f
    if !r.ok && !caught then r
    else
      let r2 := runBody opens flushImm si ddl r.a rest (fun k => f (k + r.used))
      ⟨r.evs ++ r2.evs, r2.a, r2.ok, r.used + r2.used⟩

/-- `with db_session(immediate=si, ddl=ddl): body` (a ddl session is immediate; its connection is dropped, not pooled) — `db_session.__exit__`: commit() + release() when the body ended normally,
    rollback() otherwise.  `bodyRaises`: the user's code itself raises at the end. -/
def session (opens : Entry → Bool) (flushImm : Bool) (si : Bool) (ddl : Bool) (a : A) (prog : List (Op × Bool)) (bodyRaises : Bool)
    (f : Nat → Bool) : R :=
  let r := runBody opens flushImm si ddl a prog f
  if !r.ok || bodyRaises then
    let r2 := closeRb r.a si ddl (fun k => f (k + r.used))
    ⟨r.evs ++ r2.evs, r2.a, false, r.used + r2.used⟩
  else
    let r2 := coreCommit opens flushImm r.a si ddl [] (fun k => f (k + r.used))
    if !r2.ok then ⟨r.evs ++ r2.evs, r2.a, false, r.used + r2.used⟩
    else
      let r3 := release r2.a si ddl (fun k => f (k + r.used + r2.used))
      ⟨r.evs ++ r2.evs ++ r3.evs, r3.a, r3.ok, r.used + r2.used + r3.used⟩

/-- the state at the start of a session: nothing cached; the pool may hold a connection from an earlier session -/
def A.start (pool si : Bool) : A := { pool := pool, conn := false, inTx := false, imm := si }

/-- user code calls only entry points it can reach -/
def Op.wf : Op → Bool
  | .direct e _ => e.direct
  | .flushDirect _ e _ => e.direct
  | _ => true

end PonyVerif.Model.TxnEmit
