/-
  C27 — entity inheritance: discriminators, polymorphic criteria, row parsing, class refinement, isinstance in queries
  (hand model; core Lean only).

  Mirrors, as the code is written (pony/orm/core.py, sqltranslation.py):
    * `EntityMeta.__init__`: `_all_bases_` = ⋃ over the direct bases b of (`b._all_bases_` ∪ {b}); `_subclasses_` of a class = the classes that
      have it among their `_all_bases_`                                                              → `allBases`, `subclasses`
    * `Discriminator.process_entity_inheritance`: `code2cls[discr_value] = entity` in definition order (a later class with the same
      value overwrites the earlier one)                                                              → `code2cls`
    * `_construct_discriminator_criteria_`: `IN [values of _subclasses_] + [own value]`              → `criteria`
    * `_parse_row_`: `real_entity_subclass = code2cls[row discriminator]`                            → `parseRow`
    * `_get_from_identity_map_`: the chain `is entity / issubclass(obj.__class__, entity) / not issubclass(entity, obj.__class__) /
      rbits or wbits / obj.__class__ = entity`                                                       → `refine`
    * `FuncIsinstanceMonad.call`                                                                      → `isinstanceSql`, `evalCond`
  Classes are numbered in definition order (a class is defined after its bases: every direct base has a smaller number);
  `bases i` are the direct entity bases.  Python's `issubclass` is the inductive closure `IsSub`.
-/
namespace PonyVerif.Model.Inherit

/-- a hierarchy: number of classes, direct bases, discriminator value (an `Int` code standing for the str/int value), root -/
structure Hier where
  n : Nat
  bases : Nat → List Nat
  discr : Nat → Int

/-- definition order: every direct base is an earlier class -/
def Hier.wf (h : Hier) : Prop := ∀ i, ∀ b ∈ h.bases i, b < i

/-- discriminator values are pairwise different (Pony does not check this) -/
def Hier.distinct (h : Hier) : Prop := ∀ i j, i < h.n → j < h.n → h.discr i = h.discr j → i = j

/-- `_all_bases_` (fuel = an upper bound of the class number) -/
def allBases (h : Hier) : Nat → Nat → List Nat
  | 0, _ => []
  | f + 1, i => (h.bases i).flatMap (fun b => allBases h f b ++ [b])

/-- `entity._all_bases_` -/
def Hier.allBasesOf (h : Hier) (i : Nat) : List Nat := allBases h i i

/-- `entity._subclasses_`: every class that has `i` among its `_all_bases_` -/
def Hier.subclasses (h : Hier) (i : Nat) : List Nat := (List.range h.n).filter (fun j => (h.allBasesOf j).contains i)

/-- Python: `j` is a proper subclass of `i` -/
inductive StrictSub (h : Hier) : Nat → Nat → Prop where
  | direct {j i : Nat} : i ∈ h.bases j → StrictSub h j i
  | trans {j b i : Nat} : b ∈ h.bases j → StrictSub h b i → StrictSub h j i

/-- Python `issubclass(j, i)` -/
def IsSub (h : Hier) (j i : Nat) : Prop := j = i ∨ StrictSub h j i

/-- `issubclass(j, i)` as the code can compute it -/
def Hier.isSub (h : Hier) (j i : Nat) : Bool := j == i || (h.allBasesOf j).contains i

/-- `_construct_discriminator_criteria_`: the IN-list -/
def Hier.criteria (h : Hier) (e : Nat) : List Int := (h.subclasses e).map h.discr ++ [h.discr e]

/-- `discr_attr.code2cls` after all classes were processed in definition order (later definitions overwrite) -/
def Hier.code2cls (h : Hier) (d : Int) : Option Nat := (List.range h.n).reverse.find? (fun i => h.discr i == d)

/-- `_parse_row_`: the class of a fetched row (`none`: KeyError on an unknown code) -/
def Hier.parseRow (h : Hier) (rowDiscr : Int) : Option Nat := h.code2cls rowDiscr

/-- does the WHERE criteria of a query over `e` keep a row with this discriminator -/
def Hier.selects (h : Hier) (e : Nat) (rowDiscr : Int) : Bool := (h.criteria e).contains rowDiscr

inductive RefineErr where
  | classChange        -- TransactionError: Unexpected class change
  | notImplemented     -- NotImplementedError (read or write bits already set)
  deriving DecidableEq, Repr

/-- `_get_from_identity_map_` for an object already in the identity map with class `cls`, asked for as `entity`
    (status 'loaded'): the class the object has afterwards.  `compat` = no attribute of `cls` has another bit in `entity`
    (`not any(entity._bits_.get(attr) != bit for attr, bit in obj.__class__._bits_.items())`): only then may an object whose read / write
    bits are already set be moved to the subclass. -/
def Hier.refine (h : Hier) (cls entity : Nat) (rbits wbits : Nat) (compat : Bool) : Except RefineErr Nat :=
  if cls = entity then .ok cls
  else if h.isSub cls entity then .ok cls
  else if !(h.isSub entity cls) then .error .classChange
  else if (rbits != 0 || wbits != 0) && !compat then .error .notImplemented
  else .ok entity

/-- bit layouts: `bits c a` = the bit of attribute `a` in class `c` (`entity._bits_`); compatibility as the code tests it, over the attributes `attrs` of `cls` -/
def layoutCompat (bits : Nat → Nat → Option Nat) (attrs : List Nat) (cls entity : Nat) : Bool :=
  attrs.all (fun a => match bits cls a with
    | some b => bits entity a == some b
    | none => true)

/-- the condition `FuncIsinstanceMonad` emits -/
inductive Cond where
  | true_ | false_
  | discrIn (vals : List Int)
  deriving DecidableEq, Repr

/-- `FuncIsinstanceMonad.call(obj, classinfo)` for `obj` of static type `e`; `sameRoot c` = `entity._root_ is cls._root_` -/
def Hier.isinstanceSql (h : Hier) (sameRoot : Nat → Bool) (e : Nat) (classes : List Nat) : Cond :=
  let subs := (classes.filter sameRoot).flatMap (fun c => c :: h.subclasses c)
  if subs.contains e then .true_
  else
    let s := subs.filter (fun c => (h.subclasses e).contains c)
    if s.isEmpty then .false_ else .discrIn (s.map h.discr)

def evalCond : Cond → Int → Bool
  | .true_, _ => true
  | .false_, _ => false
  | .discrIn vals, d => vals.contains d

end PonyVerif.Model.Inherit
