/-
  C33 — lifecycle hooks.  Executable model (core Lean only) of
    SessionCache.flush            the ≤ 50 rounds; per round: before-hooks loop over `objects_to_save` (which GROWS while it is
                                  iterated), the save loop, `objects_to_save[:] = ()`, `modified = False`, call_after_save_hooks
    Entity._before_save_/_after_save_   dispatch on the CURRENT status / on the status recorded in `saved_objects`
    Entity._save_                 statement by status, status change, `saved_objects.append`
    Attribute.__set__ / Entity.__init__  as far as they touch status, `objects_to_save`, `cache.modified` (what a hook can do)
    Entity.flush                  `obj.flush()`: before-hooks of obj and of the new objects its `_save_` inserts first, the save, after-hooks
  Hooks are ARBITRARY functions of the whole state returning a list of operations (read / modify an object / create an object).
  The order in which the save loop emits the statements (`_save_principal_objects_` recursion, C16) is a parameter `ord`.
-/
namespace PonyVerif.Model.Hooks

inductive Status | loaded | created | modified | markedToDelete | inserted | updated | deleted
  deriving DecidableEq, Repr, Inhabited

inductive Kind | insert | update | delete
  deriving DecidableEq, Repr, Inhabited

/-- `_before_save_`: which hook / statement the CURRENT status selects -/
def kindOf : Status → Option Kind
  | .created => some .insert
  | .modified => some .update
  | .markedToDelete => some .delete
  | _ => none

/-- the status `_save_created_/_save_updated_/_save_deleted_` leave -/
def savedStatus : Kind → Status
  | .insert => .inserted
  | .update => .updated
  | .delete => .deleted

structure Obj where
  status : Status
  dirty : Nat              -- number of edits (attribute assignments; the creation itself) not yet written by a statement
  deriving DecidableEq, Repr, Inhabited

inductive Event
  | before (k : Kind) (o : Nat)      -- before_insert / before_update / before_delete of object o is entered
  | stmt (k : Kind) (o : Nat)        -- INSERT / UPDATE / DELETE for object o
  | after (k : Kind) (o : Nat)       -- after_insert / after_update / after_delete of object o is entered
  | linkDel (a b : Nat)              -- DELETE of the many-to-many link row (a, b)     (remove_m2m)
  | linkIns (a b : Nat)              -- INSERT of the many-to-many link row (a, b)     (add_m2m)
  deriving DecidableEq, Repr, Inhabited

/-- the many-to-many side of the cache, for one relationship, pairs (owner, item) -/
structure Links where
  view : List (Nat × Nat)            -- what the collections show in the session (the SetData contents of both sides)
  pendAdd : List (Nat × Nat)         -- ⋃ setdata.added of the objects in cache.modified_collections
  pendRem : List (Nat × Nat)         -- ⋃ setdata.removed
  m2mAdd : List (Nat × Nat)          -- the local `modified_m2m` of the running round: pairs still to insert
  m2mRem : List (Nat × Nat)          --                                                 pairs to delete
  db : List (Nat × Nat)              -- the link table as written so far in this transaction
  deriving DecidableEq, Repr, Inhabited

structure State where
  objs : List Obj
  queue : List (Option Nat)          -- cache.objects_to_save (None = hole)
  modified : Bool                    -- cache.modified
  saved : List (Nat × Kind)          -- cache.saved_objects
  trace : List Event
  lk : Links
  refs : List (List Nat) := []       -- refs[o] = the objects the row of o refers to NOW (reference attributes with columns)
  deriving DecidableEq, Repr, Inhabited

/-- what a hook body may do -/
inductive HOp
  | read (o : Nat)
  | modify (o : Nat)                 -- assign an attribute of object o (the hooked object or any other)
  | create                           -- create a new object
  | link (a b : Nat)                 -- a.coll.add(b)       (many-to-many; also `X(coll=[b])` after the creation of X)
  | unlink (a b : Nat)               -- a.coll.remove(b)
  | linkNewOwner (b : Nat)           -- the object created last owns the link: `X(coll=[b])` (creation and link are two operations)
  | linkNewItem (a : Nat)            -- a.coll.add(the object created last)
  | setRef (i g : Nat)               -- i.ref = g: an attribute assignment of i whose value is the object g
  | refNewTo (g : Nat)               -- the object created last refers to g: `X(ref=g)` (creation and reference are two operations)
  | refToNew (i : Nat)               -- i.ref = the object created last
  | query                            -- a read THROUGH the database (select, raw SQL): `prepare_connection_for_query_execution`
                                     -- flushes first unless flush is disabled (it is, inside before_* hooks)
  deriving DecidableEq, Repr, Inhabited

inductive Err
  | hookRaised (o : Nat)             -- a hook touched a deleted / unknown object: the exception leaves flush
  | badStatus (o : Nat)              -- `assert False` in `_save_`
  | outOfFuel                        -- the before-hooks loop did not end within the given fuel (hooks that create objects for ever)
  | limit (s : State)                -- TransactionError('Recursion depth limit reached in obj._after_save_() call'), with the state reached
  deriving Repr, Inhabited

/-- hook bodies: arbitrary functions of the state at entry and of the hooked object -/
structure Hooks where
  before : Kind → State → Nat → List HOp
  after : Kind → State → Nat → List HOp

def State.setObj (s : State) (o : Nat) (ob : Obj) : State := { s with objs := s.objs.set o ob }

def State.kindAt (s : State) (o : Nat) : Option Kind :=
  match s.objs[o]? with
  | some ob => kindOf ob.status
  | none => none

/-- may object o own / be an item of a collection change: it exists and was not deleted (`throw_object_was_deleted`) -/
def State.usable (s : State) (o : Nat) : Bool :=
  match s.objs[o]? with
  | some ob => !(ob.status == .markedToDelete || ob.status == .deleted)
  | none => false

/-- `SetInstance.add` / `SetInstance.remove` with `Set.reverse_add` / `reverse_remove`, many-to-many: the bookkeeping of
    `setdata`, `setdata.added`, `setdata.removed`, `cache.modified_collections`, `cache.modified` (no status change, nothing queued) -/
def applyLink (s : State) (a b : Nat) (add : Bool) : Except Err State :=
  if !(s.usable a) then .error (.hookRaised a) else
  if !(s.usable b) then .error (.hookRaised b) else
  let p := (a, b)
  let lk := s.lk
  if add then
    if lk.view.contains p then .ok { s with modified := true }                                  -- `new_items -= setdata`: nothing new
    else if lk.pendRem.contains p then
      .ok { s with modified := true, lk := { lk with view := lk.view ++ [p], pendRem := lk.pendRem.filter (· != p) } }
    else .ok { s with modified := true, lk := { lk with view := lk.view ++ [p], pendAdd := lk.pendAdd ++ [p] } }
  else
    if lk.pendRem.contains p then .ok s                                                           -- `items -= setdata.removed; if not items: return`
    else if !(lk.view.contains p) then .ok { s with modified := true }                           -- `items &= setdata`: nothing to remove
    else if lk.pendAdd.contains p then
      .ok { s with modified := true, lk := { lk with view := lk.view.filter (· != p), pendAdd := lk.pendAdd.filter (· != p) } }
    else .ok { s with modified := true, lk := { lk with view := lk.view.filter (· != p), pendRem := lk.pendRem ++ [p] } }

def State.refsOf (s : State) (o : Nat) : List Nat := (s.refs[o]?).getD []

/-- `refs[o] = l` (the list is padded when o is new) -/
def State.setRefs (s : State) (o : Nat) (l : List Nat) : State :=
  { s with refs := (s.refs ++ List.replicate (o + 1 - s.refs.length) []).set o l }

/-- `obj.attr = value`: the status logic of `Attribute.__set__` -/
def applyModify (s : State) (o : Nat) : Except Err State :=
  match s.objs[o]? with
  | none => .error (.hookRaised o)
  | some ob =>
    match ob.status with
    | .created | .modified => .ok (s.setObj o { ob with dirty := ob.dirty + 1 })       -- wbits None / already 'modified': no queue change
    | .loaded | .inserted | .updated =>
      .ok { (s.setObj o ⟨.modified, ob.dirty + 1⟩) with queue := s.queue ++ [some o], modified := true }
    | .markedToDelete | .deleted => .error (.hookRaised o)                              -- throw_object_was_deleted

/-- one operation of a hook body (the status logic of `Attribute.__set__` / `Entity.__init__`) -/
def applyOp (s : State) : HOp → Except Err State
  | .read _ => .ok s
  | .create =>
    .ok { s with objs := s.objs ++ [⟨.created, 1⟩], queue := s.queue ++ [some s.objs.length], modified := true }
  | .modify o => applyModify s o
  | .link a b => applyLink s a b true
  | .unlink a b => applyLink s a b false
  | .linkNewOwner b => applyLink s (s.objs.length - 1) b true
  | .linkNewItem a => applyLink s a (s.objs.length - 1) true
  | .setRef i g =>
    match applyModify s i with
    | .ok s' => .ok (s'.setRefs i [g])
    | .error e => .error e
  | .refNewTo g => .ok (s.setRefs (s.objs.length - 1) [g])
  | .refToNew i =>
    match applyModify s i with
    | .ok s' => .ok (s'.setRefs i [s.objs.length - 1])
    | .error e => .error e
  | .query => .ok s                   -- inside `cache.flush_disabled()` (before_* hooks; `applyOpA` is the after_* reading)

def runOps : List HOp → State → Except Err State
  | [], s => .ok s
  | op :: rest, s =>
    match applyOp s op with
    | .ok s' => runOps rest s'
    | .error e => .error e

/-- `for obj in cache.objects_to_save: if obj is not None: obj._before_save_()` — by index, the list can grow -/
def beforeLoop (H : Hooks) : Nat → Nat → State → Except Err State
  | 0, _, _ => .error .outOfFuel
  | fuel + 1, i, s =>
    match s.queue[i]? with
    | none => .ok s
    | some none => beforeLoop H fuel (i + 1) s
    | some (some o) =>
      match s.kindAt o with
      | none => beforeLoop H fuel (i + 1) s
      | some k =>
        let s1 := { s with trace := s.trace ++ [.before k o] }
        match runOps (H.before k s1 o) s1 with
        | .ok s2 => beforeLoop H fuel (i + 1) s2
        | .error e => .error e

/-- `obj._save_()`: the statement chosen by the status, status change, `saved_objects.append((obj, status))` -/
def saveOne (s : State) (o : Nat) : Except Err State :=
  match s.objs[o]? with
  | none => .error (.badStatus o)
  | some ob =>
    match kindOf ob.status with
    | none => .error (.badStatus o)
    | some k => .ok { (s.setObj o ⟨savedStatus k, 0⟩) with trace := s.trace ++ [.stmt k o], saved := s.saved ++ [(o, k)] }

def saveAll : List Nat → State → Except Err State
  | [], s => .ok s
  | o :: rest, s =>
    match saveOne s o with
    | .ok s' => saveAll rest s'
    | .error e => .error e

def pendingList (s : State) : List Nat := s.queue.filterMap id

/-- the save loop: every queued object, in the order `ord` (queue order modified by the principal-objects-first recursion) -/
def savePhase (ord : List Nat → List Nat) (s : State) : Except Err State := saveAll (ord (pendingList s)) s

def afterLoop (H : Hooks) : List (Nat × Kind) → State → Except Err State
  | [], s => .ok s
  | (o, k) :: rest, s =>
    let s1 := { s with trace := s.trace ++ [.after k o] }
    match runOps (H.after k s1 o) s1 with
    | .ok s2 => afterLoop H rest s2
    | .error e => .error e

/-- `call_after_save_hooks`: `saved_objects` is taken and reset first -/
def afterPhase (H : Hooks) (s : State) : Except Err State := afterLoop H s.saved { s with saved := [] }

/-- `modified_m2m = cache._calc_modified_m2m()`: the pending link changes are taken into the local variable and the
    `added` / `removed` sets of the collections are reset; then `remove_m2m` deletes the removed pairs -/
def calcAndRemoveM2m (s : State) : State :=
  { s with trace := s.trace ++ s.lk.pendRem.map (fun p => Event.linkDel p.1 p.2),
           lk := { s.lk with m2mAdd := s.lk.pendAdd, m2mRem := s.lk.pendRem, pendAdd := [], pendRem := [],
                             db := s.lk.db.filter (fun q => !(s.lk.pendRem.contains q)) } }

/-- `add_m2m` after the save loop inserts the added pairs of the local `modified_m2m` -/
def addM2m (s : State) : State :=
  { s with trace := s.trace ++ s.lk.m2mAdd.map (fun p => Event.linkIns p.1 p.2),
           lk := { s.lk with db := s.lk.db ++ s.lk.m2mAdd, m2mAdd := [], m2mRem := [] } }

/-- one round of the loop in `SessionCache.flush`:
    before-hooks → _calc_modified_m2m → remove_m2m → save loop → add_m2m → queue / flag reset → after-hooks -/
def round (H : Hooks) (ord : List Nat → List Nat) (bfuel : Nat) (s : State) : Except Err State :=
  match beforeLoop H bfuel 0 s with
  | .error e => .error e
  | .ok s1 =>
    match savePhase ord (calcAndRemoveM2m s1) with
    | .error e => .error e
    | .ok s2 => afterPhase H { (addM2m s2) with queue := [], modified := false }

/-- `for i in range(n): if not cache.modified: return; …; else: if cache.modified: throw(TransactionError, …)`;
    `ord r` is the statement order of the round with r rounds still to go -/
def flushLoop (H : Hooks) (ord : Nat → List Nat → List Nat) (bfuel : Nat) : Nat → State → Except Err State
  | 0, s => if s.modified then .error (.limit s) else .ok s
  | n + 1, s =>
    if !s.modified then .ok s else
    match round H (ord n) bfuel s with
    | .error e => .error e
    | .ok s' => flushLoop H ord bfuel n s'

def flush (H : Hooks) (ord : Nat → List Nat → List Nat) (bfuel : Nat) (s : State) : Except Err State :=
  flushLoop H ord bfuel 50 s

/-! ### queries inside after_* hooks: recursive flush

  `call_after_save_hooks` runs outside `flush_disabled()`: a query made by an after_* hook calls `cache.flush()` again when something
  is modified (`if not cache.noflush_counter and cache.modified: cache.flush()`), i.e. complete rounds nested inside the after-phase of
  the running round.  `nested` is that inner flush; `flushN` closes the recursion with a depth fuel (Python's recursion limit).
  The statement order is asked per round with the state at the start of the save loop (`ord s pending`). -/

def applyOpA (nested : State → Except Err State) (s : State) (op : HOp) : Except Err State :=
  match op with
  | .query => if s.modified then nested s else .ok s
  | op => applyOp s op

def runOpsA (nested : State → Except Err State) : List HOp → State → Except Err State
  | [], s => .ok s
  | op :: rest, s =>
    match applyOpA nested s op with
    | .ok s' => runOpsA nested rest s'
    | .error e => .error e

def afterLoopA (nested : State → Except Err State) (H : Hooks) : List (Nat × Kind) → State → Except Err State
  | [], s => .ok s
  | (o, k) :: rest, s =>
    let s1 := { s with trace := s.trace ++ [.after k o] }
    match runOpsA nested (H.after k s1 o) s1 with
    | .ok s2 => afterLoopA nested H rest s2
    | .error e => .error e

def roundA (nested : State → Except Err State) (H : Hooks) (ord : State → List Nat → List Nat) (bfuel : Nat) (s : State) : Except Err State :=
  match beforeLoop H bfuel 0 s with
  | .error e => .error e
  | .ok s1 =>
    match savePhase (ord s1) (calcAndRemoveM2m s1) with
    | .error e => .error e
    | .ok s2 =>
      let s3 : State := { (addM2m s2) with queue := [], modified := false }
      afterLoopA nested H s3.saved { s3 with saved := [] }

def flushLoopA (nested : State → Except Err State) (H : Hooks) (ord : State → List Nat → List Nat) (bfuel : Nat) : Nat → State → Except Err State
  | 0, s => if s.modified then .error (.limit s) else .ok s
  | n + 1, s =>
    if !s.modified then .ok s else
    match roundA nested H ord bfuel s with
    | .error e => .error e
    | .ok s' => flushLoopA nested H ord bfuel n s'

/-- `cache.flush()` with queries inside after_* hooks flushing recursively, at most `depth` levels deep -/
def flushN (H : Hooks) (ord : State → List Nat → List Nat) (bfuel : Nat) : Nat → State → Except Err State
  | 0, _ => .error .outOfFuel
  | d + 1, s => flushLoopA (flushN H ord bfuel d) H ord bfuel 50 s

/-- the once-before / once-after automaton for one (kind, object): (a before-hook is waiting for its statement, number of statements
    waiting for their after-hook) -/
def stepKey (p : Kind × Nat) (st : Bool × Nat) : Event → Option (Bool × Nat)
  | .before k o => if (k, o) = p then (if st.1 then none else some (true, st.2)) else some st
  | .stmt k o => if (k, o) = p then (if st.1 then some (false, st.2 + 1) else none) else some st
  | .after k o => if (k, o) = p then (if st.2 = 0 then none else some (st.1, st.2 - 1)) else some st
  | _ => some st

def runKey (p : Kind × Nat) : List Event → Bool × Nat → Option (Bool × Nat)
  | [], st => some st
  | e :: t, st =>
    match stepKey p st e with
    | some st' => runKey p t st'
    | none => none

/-- every statement of the trace has its own before-hook entry before it (no second entry in between) and its own after-hook entry
    after it, for every kind and object, and nothing is left over — also when the trace is appended to an unfinished after-phase -/
def Balanced (t : List Event) : Prop := ∀ p n, runKey p t (false, n) = some (false, n)

/-! ### Entity.flush (`obj.flush()`) — the per-object path, taken by created and modified objects (see `objFlushN` for the dispatch)

  `hookList` grows while it is iterated: after the hook of an object, the newly created objects its row refers to (`princ`, a
  parameter: relationships are not part of this model) are appended unless present.  Then `obj._save_()` writes `saveList`
  (the new objects it refers to, recursively, then obj itself — a parameter for the same reason), then the after-hooks run. -/

/-- `if val is not None and val._status_ == 'created' and val not in objects: objects.append(val)`, attribute by attribute -/
def appendNew (s : State) (l : List Nat) : List Nat → List Nat
  | [] => l
  | p :: ps => if s.kindAt p = some .insert && !(l.contains p) then appendNew s (l ++ [p]) ps else appendNew s l ps

def entityBeforeLoop (H : Hooks) (princ : State → Nat → List Nat) : Nat → Nat → List Nat → State → Except Err (State × List Nat)
  | 0, _, _, _ => .error .outOfFuel
  | fuel + 1, i, l, s =>
    match l[i]? with
    | none => .ok (s, l)
    | some o =>
      match s.kindAt o with
      | none => entityBeforeLoop H princ fuel (i + 1) l s
      | some k =>
        let s1 := { s with trace := s.trace ++ [.before k o] }
        match runOps (H.before k s1 o) s1 with
        | .ok s2 =>
          -- marked_to_delete: `else: continue` (no principal objects are collected)
          entityBeforeLoop H princ fuel (i + 1) (if k == .delete then l else appendNew s2 l (princ s2 o)) s2
        | .error e => .error e

def clearSlots (q : List (Option Nat)) (l : List Nat) : List (Option Nat) :=
  q.map (fun e => match e with
    | some o => if l.contains o then none else some o
    | none => none)

def entityFlush (H : Hooks) (princ : State → Nat → List Nat) (saveList : State → Nat → List Nat) (bfuel : Nat) (s : State) (o : Nat) :
    Except Err State :=
  match s.kindAt o with
  | none => .ok s                         -- `if obj._status_ not in ('created', 'modified', 'marked_to_delete'): return`
  | some _ =>
    match entityBeforeLoop H princ bfuel 0 [o] s with
    | .error e => .error e
    | .ok (s1, _) =>
      let l := saveList s1 o
      match saveAll l s1 with
      | .error e => .error e
      | .ok s2 => afterPhase H { s2 with queue := clearSlots s2.queue l }

/-! ### obj.flush() with the references as state

  `_save_principal_objects_`: before obj is written, every NEW object a reference attribute of obj holds is written first, recursively
  (post-order).  `entityFlushRefs` is `entityFlush` with both parameters read from the state: the scan of the before-hooks loop looks
  at the references AFTER the hook of the object has run (the hook may have created an object and assigned it). -/

def saveDfs (s : State) : Nat → List Nat → Nat → List Nat
  | 0, acc, _ => acc
  | f + 1, acc, o =>
    if acc.contains o then acc else
    -- `_save_principal_objects_` runs for 'created' and 'modified' objects only
    let acc' := if s.kindAt o = some .delete then acc
                else (s.refsOf o).foldl (fun a p => if s.kindAt p = some .insert then saveDfs s f a p else a) acc
    if acc'.contains o then acc' else acc' ++ [o]

/-- `obj.flush()` whose after_* hooks may query: `cache.call_after_save_hooks()` runs outside `flush_disabled()`, so a query flushes
    the whole cache (`nested`) -/
def entityFlushN (nested : State → Except Err State) (H : Hooks) (princ : State → Nat → List Nat) (saveList : State → Nat → List Nat)
    (bfuel : Nat) (s : State) (o : Nat) : Except Err State :=
  match s.kindAt o with
  | none => .ok s
  | some _ =>
    match entityBeforeLoop H princ bfuel 0 [o] s with
    | .error e => .error e
    | .ok (s1, _) =>
      let l := saveList s1 o
      match saveAll l s1 with
      | .error e => .error e
      | .ok s2 => afterLoopA nested H s2.saved { s2 with queue := clearSlots s2.queue l, saved := [] }

/-- obj.flush() with the references as state and recursive flushes from queries inside its after_* hooks -/
def entityFlushRefsN (H : Hooks) (ord : State → List Nat → List Nat) (bfuel depth : Nat) (s : State) (o : Nat) : Except Err State :=
  entityFlushN (flushN H ord bfuel depth) H (fun st p => st.refsOf p) (fun st p => saveDfs st (st.objs.length + 1) [] p) bfuel s o

/-- `Entity.flush` as of de6b988: `if obj._status_ == 'marked_to_delete': cache.flush(); return` — the per-object flush of a deleted
    object IS the session flush (the whole queue in its order, with all hooks); created / modified objects take the per-object path
    (`entityFlushRefsN`: hooks of obj and of the new objects it refers to, their statements, their after-hooks) -/
def objFlushN (H : Hooks) (ord : State → List Nat → List Nat) (bfuel depth : Nat) (s : State) (o : Nat) : Except Err State :=
  match s.kindAt o with
  | some .delete => flushN H ord bfuel depth s
  | _ => entityFlushRefsN H ord bfuel depth s o

def entityFlushRefs (H : Hooks) (bfuel : Nat) (s : State) (o : Nat) : Except Err State :=
  entityFlush H (fun st p => st.refsOf p) (fun st p => saveDfs st (st.objs.length + 1) [] p) bfuel s o

end PonyVerif.Model.Hooks
