/-
  C03 — translation validation of `pony.orm.decompiling` with a checker whose soundness is a theorem.

  * `Instr`, `run`      : the expression fragment of CPython 3.12 generator / lambda bodies as a stack machine over OPAQUE atoms,
                          executed relative to an arbitrary interpretation `I` (value of every atom, one uninterpreted function per
                          operator / call / attribute / subscript, an arbitrary truth function on non-bool values).
  * `Expr`, `Top.eval`  : the expression AST (what `decompile` returns) with Python's evaluation rules.
  * `symRun`, `Top.sym` : both sides compiled to decision trees over symbolic terms; `norm` asks every query at most once per path.
  * `check code ast`    : equality of the normalised trees.  Soundness (`Props/C03.lean`): `check code a = true → ∀ I, run code I = a.eval I`.

  One "pass" through a generator is modelled: FOR_ITER is assumed to deliver an item (the loop variable is an atom whose value is
  whatever `I` says), a JUMP_BACKWARD ends the pass with the depth of the loop it continues.  Core Lean only.
-/
namespace PonyVerif.Bytecode

/-! ## Values and interpretations -/

/-- `lit n t` : the constant number `n` (an int, str, … literal) whose truth value `t` is known (CPython folds tests on it at compile time) -/
inductive Val | bool (b : Bool) | none | obj (n : Nat) | lit (n : Nat) (t : Bool)
  deriving DecidableEq, Repr, Inhabited

/-- Nothing is assumed about atoms, operators or the truth of objects. -/
structure Interp where
  atom : Nat → Val
  op : String → List Val → Val
  truthObj : Nat → Bool

/-- `truth (bool b) = b`, `truth None = False`, anything else is up to the interpretation. -/
def Interp.truth (I : Interp) : Val → Bool
  | .bool b => b
  | .none => false
  | .obj n => I.truthObj n
  | .lit _ t => t

def Val.isNone : Val → Bool
  | .none => true
  | _ => false

/-- `v is w` : identity with `None` is decided by the value, any other identity is uninterpreted (but a bool). -/
def Interp.isVal (I : Interp) (v w : Val) : Bool :=
  match w with
  | .none => v.isNone
  | _ => I.truth (I.op "is" [v, w])

/-- comparison operators: `named` are uninterpreted (`== != < <= > >=`); `in` / `not in` coerce `__contains__` to bool and negate;
    `is` / `is not` are identity. -/
inductive CmpOp | named (s : String) | isin (neg : Bool) | is (neg : Bool)
  deriving DecidableEq, Repr

/-! ## Symbolic terms, queries, decision trees -/

inductive Term | atom (n : Nat) | bool (b : Bool) | none | lit (n : Nat) (t : Bool) | app (f : String) (args : List Term)
  deriving Repr, Inhabited

def Term.eval (I : Interp) : Term → Val
  | .atom n => I.atom n
  | .bool b => .bool b
  | .none => .none
  | .lit n t => .lit n t
  | .app f args => I.op f (args.map (Term.eval I))

mutual
def Term.beq : Term → Term → Bool
  | .atom n, .atom m => n == m
  | .bool a, .bool b => a == b
  | .none, .none => true
  | .lit n t, .lit m u => n == m && t == u
  | .app f a, .app g b => f == g && Term.beqL a b
  | _, _ => false
def Term.beqL : List Term → List Term → Bool
  | [], [] => true
  | x :: xs, y :: ys => Term.beq x y && Term.beqL xs ys
  | _, _ => false
end

/-- a question asked of the interpretation along a path -/
inductive Q | truth (t : Term) | isq (t u : Term)
  deriving Repr

def Q.eval (I : Interp) : Q → Bool
  | .truth t => I.truth (t.eval I)
  | .isq t u => I.isVal (t.eval I) (u.eval I)

def Q.beq : Q → Q → Bool
  | .truth a, .truth b => Term.beq a b
  | .isq a b, .isq c d => Term.beq a c && Term.beq b d
  | _, _ => false

inductive Tree (α : Type) | leaf (a : α) | test (q : Q) (yes no : Tree α)
  deriving Repr

def Tree.bind : Tree α → (α → Tree β) → Tree β
  | .leaf a, f => f a
  | .test q y n, f => .test q (y.bind f) (n.bind f)

/-- follow the answers given by an oracle -/
def Tree.walk (o : Q → Bool) : Tree α → α
  | .leaf a => a
  | .test q y n => if o q then y.walk o else n.walk o

def Tree.run (I : Interp) (t : Tree α) : α := t.walk (Q.eval I)

def Tree.all (p : α → Bool) : Tree α → Bool
  | .leaf a => p a
  | .test _ y n => y.all p && n.all p

def Tree.size : Tree α → Nat
  | .leaf _ => 1
  | .test _ y n => 1 + y.size + n.size

/-- answers known without asking: literals -/
def Q.static : Q → Option Bool
  | .truth (.bool b) => some b
  | .truth .none => some false
  | .truth (.lit _ t) => some t
  | .isq .none .none => some true
  | .isq (.bool _) .none => some false
  | .isq (.lit _ _) .none => some false
  | _ => none

def lookup (facts : List (Q × Bool)) (q : Q) : Option Bool :=
  match facts with
  | [] => none
  | (q', b) :: r => if Q.beq q' q then some b else lookup r q

def ask (facts : List (Q × Bool)) (q : Q) : Option Bool :=
  match q.static with
  | some b => some b
  | none => lookup facts q

/-- along every path: no literal query, and no query equal to one in `seen` or asked earlier on the path -/
def noRepeat (seen : List Q) : Tree α → Bool
  | .leaf _ => true
  | .test q y n => q.static.isNone && !(seen.any fun q' => Q.beq q' q) && noRepeat (q :: seen) y && noRepeat (q :: seen) n

/-- every query is asked at most once per path; literal queries are never asked -/
def norm (facts : List (Q × Bool)) : Tree α → Tree α
  | .leaf a => .leaf a
  | .test q y n =>
    match ask facts q with
    | some true => norm facts y
    | some false => norm facts n
    | none => .test q (norm ((q, true) :: facts) y) (norm ((q, false) :: facts) n)

/-! ## Outcomes -/

/-- `ret v` : a lambda returned `v`.  `pass loops y depth` : one pass through a generator entered `loops` (value of the iterable and
    the atoms the item was stored to, outermost first), yielded `y` (or nothing) and continues the loop number `depth` (1 = outermost). -/
inductive Outcome (α : Type) | ret (v : α) | pass (loops : List (α × List Nat)) (y : Option α) (depth : Nat) | stuck
  deriving Repr

def Outcome.map (f : α → β) : Outcome α → Outcome β
  | .ret v => .ret (f v)
  | .pass l y d => .pass (l.map fun p => (f p.1, p.2)) (y.map f) d
  | .stuck => .stuck

def Outcome.isStuck : Outcome α → Bool
  | .stuck => true
  | _ => false

def Outcome.beq : Outcome Term → Outcome Term → Bool
  | .ret a, .ret b => Term.beq a b
  | .pass l y d, .pass l' y' d' =>
      Term.beqL (l.map (·.1)) (l'.map (·.1)) && (l.map (·.2) == l'.map (·.2))
      && (match y, y' with | none, none => true | some a, some b => Term.beq a b | _, _ => false) && d == d'
  | .stuck, .stuck => true
  | _, _ => false

def Tree.beq : Tree (Outcome Term) → Tree (Outcome Term) → Bool
  | .leaf a, .leaf b => Outcome.beq a b
  | .test q y n, .test q' y' n' => Q.beq q q' && Tree.beq y y' && Tree.beq n n'
  | _, _ => false

/-! ## The stack machine -/

inductive Instr
  | load (a : Nat)                      -- LOAD_FAST / LOAD_GLOBAL / LOAD_DEREF / LOAD_NAME / LOAD_CONST <opaque constant>
  | loadBool (b : Bool) | loadNone      -- LOAD_CONST True / False / None
  | loadLit (n : Nat) (t : Bool)        -- LOAD_CONST <int / str / … constant number n, truth value t>
  | copy (n : Nat) | swap (n : Nat) | popTop
  | unaryNot
  | op (name : String) (argc : Nat)     -- UNARY_NEGATIVE/INVERT, BINARY_OP, CALL (+KW_NAMES), LOAD_ATTR, BINARY_SUBSCR, BUILD_*, FORMAT_VALUE …
  | cmp (o : CmpOp)                     -- COMPARE_OP / CONTAINS_OP / IS_OP
  | jumpIf (sense : Bool) (target : Nat)       -- POP_JUMP_IF_TRUE / POP_JUMP_IF_FALSE
  | jumpIfNone (sense : Bool) (target : Nat)   -- POP_JUMP_IF_NONE / POP_JUMP_IF_NOT_NONE
  | jump (target : Nat)                 -- JUMP_FORWARD
  | jumpBack (target : Nat)             -- JUMP_BACKWARD to a FOR_ITER: continue that loop (ends the pass)
  | nop                                 -- GET_ITER
  | forIter                             -- FOR_ITER: pop the iterable, enter the loop, push the item
  | unpack (n : Nat)                    -- UNPACK_SEQUENCE
  | store (a : Nat)                     -- STORE_FAST / STORE_DEREF of (a component of) the item
  | yieldValue | returnValue
  | unsupported
  deriving Repr

structure St (α : Type) where
  pc : Nat
  stack : List α
  loops : List (α × List Nat)
  yielded : Option α
  deriving Repr

def St.map (f : α → β) (s : St α) : St β :=
  { pc := s.pc, stack := s.stack.map f, loops := s.loops.map fun p => (f p.1, p.2), yielded := s.yielded.map f }

inductive Res (α : Type) | next (s : St α) | done (o : Outcome α)

def Res.map (f : α → β) : Res α → Res β
  | .next s => .next (s.map f)
  | .done o => .done (o.map f)

/-- what one instruction does: a result, or a question whose answer selects the result -/
inductive Act (α : Type) | res (r : Res α) | askTruth (v : α) (k : Bool → Res α) | askIs (v w : α) (k : Bool → Res α)

def Act.map (f : α → β) : Act α → Act β
  | .res r => .res (r.map f)
  | .askTruth v k => .askTruth (f v) (fun b => (k b).map f)
  | .askIs v w k => .askIs (f v) (f w) (fun b => (k b).map f)

/-- the constants of a value domain (concrete values or symbolic terms) -/
structure Dom (α : Type) where
  atom : Nat → α
  bool : Bool → α
  none : α
  lit : Nat → Bool → α
  app : String → List α → α

def domV (I : Interp) : Dom Val := ⟨I.atom, .bool, .none, .lit, I.op⟩
def domT : Dom Term := ⟨.atom, .bool, .none, .lit, .app⟩

def isForIter : Instr → Bool
  | .forIter => true
  | _ => false

/-! The target of a loop is recorded in prefix notation: `2 * a` = the item (component) is stored to atom `a`, `2 * n + 1` = it is
    unpacked into `n` components — so `for x, (y, z) in …` and `for (x, y), z in …` are different targets. -/

/-- the loop a backward jump continues: number of FOR_ITERs up to and including the target -/
def depthOf (code : List Instr) (target : Nat) : Nat := ((code.take (target + 1)).filter isForIter).length

def storeTarget (loops : List (α × List Nat)) (a : Nat) : List (α × List Nat) :=
  match loops.reverse with
  | [] => []
  | (v, ts) :: r => (r.reverse ++ [(v, ts ++ [a])])

/-- ONE definition of the instruction semantics, used for both the concrete and the symbolic machine. -/
def act (D : Dom α) (code : List Instr) (s : St α) : Act α :=
  let stuck : Act α := .res (.done .stuck)
  let push (x : α) (rest : List α) : Act α := .res (.next { s with pc := s.pc + 1, stack := x :: rest })
  match code[s.pc]? with
  | none => stuck
  | some ins =>
    match ins with
    | .load a => push (D.atom a) s.stack
    | .loadBool b => push (D.bool b) s.stack
    | .loadNone => push D.none s.stack
    | .loadLit n t => push (D.lit n t) s.stack
    | .copy n =>
      if n = 0 then stuck else
      match s.stack[n - 1]? with
      | some x => push x s.stack
      | none => stuck
    | .swap n =>
      if n = 0 then stuck else
      match s.stack, s.stack[n - 1]? with
      | top :: _, some x => .res (.next { s with pc := s.pc + 1, stack := (s.stack.set (n - 1) top).set 0 x })
      | _, _ => stuck
    | .popTop =>
      match s.stack with
      | _ :: rest => .res (.next { s with pc := s.pc + 1, stack := rest })
      | [] => stuck
    | .unaryNot =>
      match s.stack with
      | v :: rest => .askTruth v fun b => .next { s with pc := s.pc + 1, stack := D.bool (!b) :: rest }
      | [] => stuck
    | .op name argc =>
      if argc ≤ s.stack.length then push (D.app name (s.stack.take argc).reverse) (s.stack.drop argc) else stuck
    | .cmp o =>
      match s.stack with
      | w :: v :: rest =>
        match o with
        | .named f => push (D.app f [v, w]) rest
        | .isin neg => .askTruth (D.app "in" [v, w]) fun b => .next { s with pc := s.pc + 1, stack := D.bool (b != neg) :: rest }
        | .is neg => .askIs v w fun b => .next { s with pc := s.pc + 1, stack := D.bool (b != neg) :: rest }
      | _ => stuck
    | .jumpIf sense target =>
      match s.stack with
      | v :: rest => .askTruth v fun b => .next { s with pc := if b == sense then target else s.pc + 1, stack := rest }
      | [] => stuck
    | .jumpIfNone sense target =>
      match s.stack with
      | v :: rest => .askIs v D.none fun b => .next { s with pc := if b == sense then target else s.pc + 1, stack := rest }
      | [] => stuck
    | .jump target => .res (.next { s with pc := target })
    | .jumpBack target => .res (.done (.pass s.loops s.yielded (depthOf code target)))
    | .nop => .res (.next { s with pc := s.pc + 1 })
    | .forIter =>
      match s.stack with
      | v :: rest => .res (.next { s with pc := s.pc + 1, stack := D.none :: rest, loops := s.loops ++ [(v, [])] })
      | [] => stuck
    | .unpack n =>
      match s.stack with
      | _ :: rest => .res (.next { s with pc := s.pc + 1, stack := List.replicate n D.none ++ rest, loops := storeTarget s.loops (2 * n + 1) })
      | [] => stuck
    | .store a =>
      match s.stack with
      | _ :: rest => .res (.next { s with pc := s.pc + 1, stack := rest, loops := storeTarget s.loops (2 * a) })
      | [] => stuck
    | .yieldValue =>
      match s.stack, s.yielded with
      | v :: rest, none => .res (.next { s with pc := s.pc + 1, stack := D.none :: rest, yielded := some v })
      | _, _ => stuck
    | .returnValue =>
      match s.stack, s.loops with
      | v :: _, [] => .res (.done (.ret v))
      | _, _ => stuck
    | .unsupported => stuck

def stepV (I : Interp) (code : List Instr) (s : St Val) : Res Val :=
  match act (domV I) code s with
  | .res r => r
  | .askTruth v k => k (I.truth v)
  | .askIs v w k => k (I.isVal v w)

def stepT (code : List Instr) (s : St Term) : Tree (Res Term) :=
  match act domT code s with
  | .res r => .leaf r
  | .askTruth t k => .test (.truth t) (.leaf (k true)) (.leaf (k false))
  | .askIs t u k => .test (.isq t u) (.leaf (k true)) (.leaf (k false))

def exec (I : Interp) (code : List Instr) : Nat → St Val → Outcome Val
  | 0, _ => .stuck
  | n + 1, s =>
    match stepV I code s with
    | .next s' => exec I code n s'
    | .done o => o

def sexec (code : List Instr) : Nat → St Term → Tree (Outcome Term)
  | 0, _ => .leaf .stuck
  | n + 1, s =>
    (stepT code s).bind fun r =>
      match r with
      | .next s' => sexec code n s'
      | .done o => .leaf o

def St.init : St α := { pc := 0, stack := [], loops := [], yielded := none }

/-- all jumps of the fragment go forward except the loop-continue, which ends the pass: `length + 1` steps suffice -/
def run (code : List Instr) (I : Interp) : Outcome Val := exec I code (code.length + 1) St.init

def symRun (code : List Instr) : Tree (Outcome Term) := sexec code (code.length + 1) St.init

/-! ## The expression AST and Python's evaluation rules -/

mutual
inductive Expr
  | atom (n : Nat) | bool (b : Bool) | none | lit (n : Nat) (t : Bool)
  | not (e : Expr)
  | boolop (isOr : Bool) (first : Expr) (rest : Args)   -- BoolOp(And|Or, [first, *rest])
  | ife (c t f : Expr)                                   -- IfExp
  | cmp (first : Expr) (rest : CmpRest)                  -- Compare (chains)
  | app (f : String) (args : Args)                       -- BinOp, UnaryOp, Call (+keywords), Attribute, Subscript, Slice, JoinedStr, …
inductive Args | nil | cons (e : Expr) (r : Args)
inductive CmpRest | last (op : CmpOp) (e : Expr) | more (op : CmpOp) (e : Expr) (r : CmpRest)
end

def Interp.cmpVal (I : Interp) (o : CmpOp) (v w : Val) : Val :=
  match o with
  | .named f => I.op f [v, w]
  | .isin neg => .bool (I.truth (I.op "in" [v, w]) != neg)
  | .is neg => .bool (I.isVal v w != neg)

mutual
def Expr.eval (I : Interp) : Expr → Val
  | .atom n => I.atom n
  | .bool b => .bool b
  | .none => .none
  | .lit n t => .lit n t
  | .not e => .bool (!I.truth (e.eval I))
  | .boolop isOr a r => Args.evalBool I isOr (a.eval I) r
  | .ife c t f => if I.truth (c.eval I) then t.eval I else f.eval I
  | .cmp a r => CmpRest.evalChain I (a.eval I) r
  | .app f args => I.op f (args.evalList I)
def Args.evalList (I : Interp) : Args → List Val
  | .nil => []
  | .cons e r => e.eval I :: r.evalList I
/-- `prev and e and …` / `prev or e or …`: short circuit returns the operand's value -/
def Args.evalBool (I : Interp) (isOr : Bool) (prev : Val) : Args → Val
  | .nil => prev
  | .cons e r => if I.truth prev == isOr then prev else Args.evalBool I isOr (e.eval I) r
/-- `left op e op' …`: the middle operand is evaluated once; a false comparison is the value of the chain -/
def CmpRest.evalChain (I : Interp) (left : Val) : CmpRest → Val
  | .last o e => I.cmpVal o left (e.eval I)
  | .more o e r =>
    if I.truth (I.cmpVal o left (e.eval I)) then CmpRest.evalChain I (e.eval I) r else I.cmpVal o left (e.eval I)
end

def cmpSym (o : CmpOp) (t u : Term) : Tree Term :=
  match o with
  | .named f => .leaf (.app f [t, u])
  | .isin neg => .test (.truth (.app "in" [t, u])) (.leaf (.bool (true != neg))) (.leaf (.bool (false != neg)))
  | .is neg => .test (.isq t u) (.leaf (.bool (true != neg))) (.leaf (.bool (false != neg)))

mutual
def Expr.sym : Expr → Tree Term
  | .atom n => .leaf (.atom n)
  | .bool b => .leaf (.bool b)
  | .none => .leaf .none
  | .lit n t => .leaf (.lit n t)
  | .not e => e.sym.bind fun t => .test (.truth t) (.leaf (.bool false)) (.leaf (.bool true))
  | .boolop isOr a r => a.sym.bind fun t => Args.symBool isOr t r
  | .ife c t f => c.sym.bind fun x => .test (.truth x) t.sym f.sym
  | .cmp a r => a.sym.bind fun t => CmpRest.symChain t r
  | .app f args => args.symList.bind fun ts => .leaf (.app f ts)
def Args.symList : Args → Tree (List Term)
  | .nil => .leaf []
  | .cons e r => e.sym.bind fun t => r.symList.bind fun ts => .leaf (t :: ts)
def Args.symBool (isOr : Bool) (prev : Term) : Args → Tree Term
  | .nil => .leaf prev
  | .cons e r =>
    -- an operand whose truth is a literal (`not x`, `x is None`, a constant) does not fork: building both branches only to have
    -- `norm` drop one would make `not a or not b or …` exponential
    match (Q.truth prev).static with
    | some b => if b == isOr then .leaf prev else e.sym.bind fun t => Args.symBool isOr t r
    | none =>
      if isOr then .test (.truth prev) (.leaf prev) (e.sym.bind fun t => Args.symBool isOr t r)
      else .test (.truth prev) (e.sym.bind fun t => Args.symBool isOr t r) (.leaf prev)
def CmpRest.symChain (left : Term) : CmpRest → Tree Term
  | .last o e => e.sym.bind fun u => cmpSym o left u
  | .more o e r => e.sym.bind fun u => (cmpSym o left u).bind fun c => .test (.truth c) (CmpRest.symChain u r) (.leaf c)
end

/-! ## Lambdas and generators -/

structure Clause where
  targets : List Nat
  iter : Expr
  ifs : List Expr

inductive Top | lam (body : Expr) | gen (elt : Expr) (clauses : List Clause)

def evalIfs (I : Interp) : List Expr → Bool
  | [] => true
  | c :: cs => if I.truth (c.eval I) then evalIfs I cs else false

def evalClauses (I : Interp) (elt : Expr) : List (Val × List Nat) → List Clause → Outcome Val
  | loops, [] => .pass loops (some (elt.eval I)) loops.length
  | loops, c :: cs =>
    if evalIfs I c.ifs then evalClauses I elt (loops ++ [(c.iter.eval I, c.targets)]) cs
    else .pass (loops ++ [(c.iter.eval I, c.targets)]) none (loops.length + 1)

def Top.eval (I : Interp) : Top → Outcome Val
  | .lam b => .ret (b.eval I)
  | .gen elt cl => evalClauses I elt [] cl

def symIfs : List Expr → Tree Bool
  | [] => .leaf true
  | c :: cs => c.sym.bind fun t => .test (.truth t) (symIfs cs) (.leaf false)

def symClauses (elt : Expr) : List (Term × List Nat) → List Clause → Tree (Outcome Term)
  | loops, [] => elt.sym.bind fun t => .leaf (.pass loops (some t) loops.length)
  | loops, c :: cs =>
    c.iter.sym.bind fun it =>
      (symIfs c.ifs).bind fun ok =>
        if ok then symClauses elt (loops ++ [(it, c.targets)]) cs
        else .leaf (.pass (loops ++ [(it, c.targets)]) none (loops.length + 1))

def Top.sym : Top → Tree (Outcome Term)
  | .lam b => b.sym.bind fun t => .leaf (.ret t)
  | .gen elt cl => symClauses elt [] cl

/-! ## The checker -/

def Tree.eval (I : Interp) (t : Tree (Outcome Term)) : Outcome Val := (t.run I).map (Term.eval I)

def codeTree (code : List Instr) : Tree (Outcome Term) := norm [] (symRun code)
def astTree (a : Top) : Tree (Outcome Term) := norm [] a.sym

/-- sound, not complete: `true` only when the two normalised decision trees are identical and no path of the code gets stuck -/
def check (code : List Instr) (a : Top) : Bool :=
  (codeTree code).all (fun o => !o.isStuck) && Tree.beq (codeTree code) (astTree a)

end PonyVerif.Bytecode
