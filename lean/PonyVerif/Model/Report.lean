/-
  C31 — hand model of the VALUE a cell of `Bag.to_dict` / `Entity.to_dict` reports for one attribute (as written):

    Bag._process_object                                   Entity.to_dict (related_objects=False)
      collection:  sorted(reduce(raw) for item)   (cols>1)     sorted(raw for item)        (cols>1)
                   sorted(raw[0] for item)        (else)       sorted(raw[0] for item)     (else)
      to-one:      None | raw[0] (1 column) | raw (the whole tuple, NOT the reduced text)   — the same in both
      scalar:      the value itself

  `raw` = `_get_raw_pkval_()` of the related object, rendered part by part with `str()` (as in Model/Serial.lean).
  `sorted` is a parameter `srt` of the model (any function that permutes its argument): Python orders a column's values
  by their own type (numbers numerically), which the rendered texts do not preserve; nothing proved depends on the order.
  Core Lean only.
-/
import PonyVerif.Model.Serial
namespace PonyVerif.Model.Report
open PonyVerif.Model.Serial

/-- the current value of an attribute -/
inductive Val where
  | scalar (v : Nat)
  | one (k : Option (List String))       -- to-one relation: the related object's raw key, or None
  | many (ks : List (List String))       -- collection: the raw keys of the related objects
  deriving DecidableEq, Repr

/-- what the output contains for it -/
inductive Rep where
  | scalar (v : Nat)
  | null
  | key (k : Key)                        -- a bare column value (`Key.single`) or a reduced composite text (`Key.text`)
  | tuple (raw : List String)            -- a whole raw key
  | keys (l : List Key)
  | tuples (l : List (List String))
  deriving DecidableEq, Repr

/-- key of ONE collection item in the bag (`bagCollectionKey`, total on non-empty raw keys) -/
def collKey (raw : List String) : Key := (bagCollectionKey raw).getD (.single "")

def oneRep : Option (List String) → Rep
  | none => .null
  | some [c] => .key (.single c)
  | some raw => .tuple raw

/-- cell of `Bag.to_dict` -/
def bagCell (srt : List Key → List Key) : Val → Rep
  | .scalar v => .scalar v
  | .one k => oneRep k
  | .many ks => .keys (srt (ks.map collKey))

/-- cell of `Entity.to_dict(related_objects=False)`; `cols` = number of pk columns of the related entity -/
def entityCell (srtK : List Key → List Key) (srtT : List (List String) → List (List String)) (cols : Nat) : Val → Rep
  | .scalar v => .scalar v
  | .one k => oneRep k
  | .many ks => if cols > 1 then .tuples (srtT ks) else .keys (srtK (ks.map (fun raw => Key.single (raw.headD ""))))

/-- reading a reported key back -/
def unKey : Key → Option (List String)
  | .text s => decodePk s
  | .single c => some [c]

/-- reading a reported cell back (collections: in the reported order) -/
def unRep : Rep → Option Val
  | .scalar v => some (.scalar v)
  | .null => some (.one none)
  | .key k => (unKey k).map (fun raw => .one (some raw))
  | .tuple raw => some (.one (some raw))
  | .keys l => some (.many (l.filterMap unKey))
  | .tuples l => some (.many l)

/-- insertion sort by the text order: the `srt` the driver uses -/
def insertBy (le : α → α → Bool) (x : α) : List α → List α
  | [] => [x]
  | y :: ys => if le x y then x :: y :: ys else y :: insertBy le x ys
def sortBy (le : α → α → Bool) : List α → List α
  | [] => []
  | x :: xs => insertBy le x (sortBy le xs)

def keyText : Key → String
  | .text s => s
  | .single s => s

end PonyVerif.Model.Report
