/-
  Model/SetCount.lean — the bookkeeping of ONE collection `obj.attr` (property C10: `count ± added ∓ removed`).

  Mirrors, for one SetData object and the rows the database holds for it, pony/orm/core.py
    Set.db_reverse_add                         -> `seen`        (an item linked in the database is loaded)
    Set.reverse_add / Set.reverse_remove       -> `revAdd` / `revRemove`   (`item.ref = obj`, `item.ref = None/other`, the
                                                  other side of a many-to-many, `item.delete()`)
    SetInstance.add / SetInstance.remove       -> `add` / `remove`  (one item; a call with n items does the same bookkeeping
                                                  n times: `count ±= len(items)`, set unions / differences)
    Set.load(obj, items) inside add / remove   -> `partialLoad`
    Set.load(obj) (copy, len, iteration)       -> `loadAll`
    SetInstance.count                          -> `count`  (cached `setdata.count`, else database count + len(added) − len(removed))
    SessionCache.flush / _calc_modified_m2m    -> `flush`  (the pending changes reach the database; `added = removed = None`)
  `None` and the empty set are not distinguished for `added` / `removed`: the code only ever truth-tests them.

  Two places of the code as found did the bookkeeping wrongly; the model has both behaviours, selected by `Cfg`:
    `fixRemove = false`: `SetInstance.remove` on a one-to-many collection repeats, after `reverse.__set__(item, None)` has
       already run `reverse_remove` on this very SetData, the removal bookkeeping (`count -= len(items)`, `removed |= items`);
    `fixFlush = false`:  `_calc_modified_m2m` resets `added` / `removed` only on the side of a many-to-many relationship from
       which it collects the pairs (`if reverse in modified_m2m: continue`).
  Core Lean only.
-/
namespace PonyVerif.Model.SetCount

abbrev Item := Nat

structure Cfg where
  m2m : Bool            -- `reverse.is_collection`
  owning : Bool         -- many-to-many: the flush collects the pairs from this side
  fixRemove : Bool
  fixFlush : Bool
deriving Repr, DecidableEq

structure SetData where
  items : List Item
  fully : Bool
  count : Option Int
  added : List Item
  removed : List Item
deriving Repr, DecidableEq

def SetData.new : SetData := ⟨[], false, none, [], []⟩

structure Coll where
  sd : Option SetData       -- `obj._vals_.get(attr)`
  db : List Item            -- items the transaction view links to `obj`
deriving Repr, DecidableEq

inductive Op where
  | seen (x : Item)
  | revAdd (x : Item)
  | revRemove (x : Item)
  | add (x : Item)
  | remove (x : Item)
  | loadAll
  | count
  | flush
deriving Repr, DecidableEq

inductive Err where
  | assertion       -- an `assert` of reverse_add / reverse_remove
  | phantom         -- UnrepeatableReadError
deriving Repr, DecidableEq

def ins (x : Item) (l : List Item) : List Item := if x ∈ l then l else l ++ [x]

def bump (c : Option Int) (d : Int) : Option Int := c.map (· + d)

/-- `Set.load(obj, {x})`: is the item linked in the database?  (a removed item is not asked for) -/
def partialLoad (c : Coll) (x : Item) : SetData :=
  let sd := c.sd.getD SetData.new
  if sd.fully then sd
  else if x ∈ c.db ∧ x ∉ sd.removed then { sd with items := ins x sd.items } else sd

/-- `reverse_add` on this SetData -/
def revAdd (sd : SetData) (x : Item) : Except Err SetData :=
  if x ∈ sd.items ∨ x ∈ sd.added then .error .assertion
  else if x ∈ sd.removed then .ok { sd with items := sd.items ++ [x], count := bump sd.count 1, removed := sd.removed.erase x }
  else .ok { sd with items := sd.items ++ [x], count := bump sd.count 1, added := sd.added ++ [x] }

/-- `reverse_remove` on this SetData -/
def revRemove (sd : SetData) (x : Item) : Except Err SetData :=
  if x ∉ sd.items ∨ x ∈ sd.removed then .error .assertion
  else if x ∈ sd.added then .ok { sd with items := sd.items.erase x, count := bump sd.count (-1), added := sd.added.erase x }
  else .ok { sd with items := sd.items.erase x, count := bump sd.count (-1), removed := sd.removed ++ [x] }

/-- the tail of `SetInstance.remove` for one item -/
def removeTail (sd : SetData) (x : Item) : SetData :=
  if x ∈ sd.added then { sd with items := sd.items.erase x, count := bump sd.count (-1), added := sd.added.erase x }
  else { sd with items := sd.items.erase x, count := bump sd.count (-1), removed := ins x sd.removed }

/-- the tail of `SetInstance.add` for one item -/
def addTail (sd : SetData) (x : Item) : SetData :=
  if x ∈ sd.removed then { sd with items := ins x sd.items, count := bump sd.count 1, removed := sd.removed.erase x }
  else { sd with items := ins x sd.items, count := bump sd.count 1, added := ins x sd.added }

/-- one call; the `Option Int` is the value a read returns -/
def step (cfg : Cfg) (c : Coll) : Op → Except Err (Coll × Option Int)
  | .seen x =>
    let sd := c.sd.getD SetData.new
    if sd.fully ∧ x ∉ sd.items then .error .phantom
    else .ok ({ c with sd := some { sd with items := ins x sd.items } }, none)
  | .revAdd x =>
    match revAdd (c.sd.getD SetData.new) x with
    | .ok sd => .ok ({ c with sd := some sd }, none)
    | .error e => .error e
  | .revRemove x =>
    match c.sd with
    | none => .error .assertion
    | some sd0 =>
      match revRemove sd0 x with
      | .ok sd => .ok ({ c with sd := some sd }, none)
      | .error e => .error e
  | .add x =>
    match c.sd with
    | some sd0 =>
      if x ∈ sd0.items then .ok (c, none)                                   -- new_items -= setdata: nothing left to add
      else
        let sd := partialLoad c x
        if x ∈ sd.items then .ok ({ c with sd := some sd }, none)
        else .ok ({ c with sd := some (addTail sd x) }, none)
    | none =>
      let sd := partialLoad c x
      if x ∈ sd.items then .ok ({ c with sd := some sd }, none)
      else .ok ({ c with sd := some (addTail sd x) }, none)
  | .remove x =>
    if (match c.sd with | some sd0 => decide (x ∈ sd0.removed) | none => false) then .ok (c, none)   -- items -= removed; if not items: return
    else
      let sd := partialLoad c x
      if x ∉ sd.items then .ok ({ c with sd := some sd }, none)              -- items &= setdata
      else if cfg.m2m then .ok ({ c with sd := some (removeTail sd x) }, none)
      else
        match revRemove sd x with                                           -- reverse.__set__(item, None) / item._delete_()
        | .error e => .error e
        | .ok sd1 => .ok ({ c with sd := some (if cfg.fixRemove then sd1 else removeTail sd1 x) }, none)
  | .loadAll =>
    let sd := c.sd.getD SetData.new
    if sd.fully then .ok ({ c with sd := some sd }, none)
    else
      let new := c.db.filter fun y => y ∉ sd.items ∧ y ∉ sd.removed
      let items := sd.items ++ new
      .ok ({ c with sd := some { sd with items := items, fully := true, count := some items.length } }, some items.length)
  | .count =>
    let sd := c.sd.getD SetData.new
    match sd.count with
    | some n => .ok ({ c with sd := some sd }, some n)
    | none =>
      let n : Int := (c.db.length : Int) + sd.added.length - sd.removed.length
      .ok ({ c with sd := some { sd with count := some n } }, some n)
  | .flush =>
    let db' := (c.db.filter fun y => match c.sd with | some sd => decide (y ∉ sd.removed) | none => true)
               ++ (match c.sd with | some sd => sd.added | none => [])
    let reset := !cfg.m2m || cfg.owning || cfg.fixFlush
    .ok ({ sd := c.sd.map fun sd => if reset then { sd with added := [], removed := [] } else sd, db := db' }, none)

/-! ### the reference: what the program has in the collection -/

def specStep (l : List Item) : Op → List Item
  | .revAdd x | .add x => ins x l
  | .revRemove x | .remove x => l.erase x
  | _ => l

/-- what the callers of the bookkeeping procedures guarantee (both ends agree, C12; single writer) -/
def OpValid (c : Coll) (l : List Item) : Op → Prop
  | .seen x => x ∈ l ∧ x ∈ c.db
  | .revAdd x => x ∉ l
  | .revRemove x => x ∈ l ∧ (match c.sd with | some sd => x ∈ sd.items | none => False)
  | _ => True

/-- the places where the code as found goes wrong are avoided, or repaired -/
def OpSafe (cfg : Cfg) : Op → Prop
  | .remove _ => cfg.m2m = true ∨ cfg.fixRemove = true
  | .flush => cfg.m2m = false ∨ cfg.owning = true ∨ cfg.fixFlush = true
  | _ => True

/-- run a history on both; `reads` collects (returned value, |contents|) of every read -/
def run (cfg : Cfg) : Coll → List Item → List Op → Except Err (Coll × List Item × List (Int × Int))
  | c, l, [] => .ok (c, l, [])
  | c, l, op :: ops =>
    match step cfg c op with
    | .error e => .error e
    | .ok (c', r) =>
      let l' := specStep l op
      match run cfg c' l' ops with
      | .error e => .error e
      | .ok (c'', l'', rs) => .ok (c'', l'', (match r with | some v => [(v, (l'.length : Int))] | none => []) ++ rs)

end PonyVerif.Model.SetCount
