/-
  Model/SetCount.lean — the bookkeeping of ONE collection `obj.attr` (property C10: `count ± added ∓ removed`).

  Mirrors, for one SetData object and the rows the database holds for it, pony/orm/core.py
    Set.db_reverse_add                         -> `seen`        (an item linked in the database is loaded)
    Set.reverse_add / Set.reverse_remove       -> `revAdd` / `revRemove`   (`item.ref = obj`, `item.ref = None/other`, the
                                                  other side of a many-to-many, `item.delete()`)
    SetInstance.add / SetInstance.remove       -> `add` / `remove`  (one item; a call with n items does the same bookkeeping
                                                  n times: `count ±= len(items)`, set unions / differences)
    Set.load(obj, items) inside add / remove   -> arrives as preceding `seen` / `loadAll` operations (observed on the real code)
    Set.load(obj) (copy, len, iteration)       -> `loadAll`
    SetInstance.count                          -> `count`  (cached `setdata.count`, else database count + len(added) − len(removed))
    SetInstance.__contains__ (many-to-many)    -> `contains`  (item in setdata → True; fully loaded → False; the negative cache
                                                  `setdata.absent` → False; else Set.load(obj, {item}) and, when the item is not
                                                  linked, `absent.add(item)`), `containsRev` (no SetData yet, the other side is
                                                  fully loaded and answers)
    SetInstance.is_empty                       -> `isEmpty`   (fully loaded → `not setdata`; non-empty → False; cached count → `not count`;
                                                  else `SELECT .. LIMIT 1`: the row it returns — an observation — is put into the
                                                  SetData, no row makes the collection fully loaded with count 0)
    SetInstance.__nonzero__                    -> `nonzero`   (non-empty → True, else Set.load(obj) and `bool(setdata)`)
    SetInstance.select / filter / order_by ..  -> `select`    (a query over the items: the implicit flush, then the database rows)
    SessionCache.flush / _calc_modified_m2m    -> `flush`  (the pending changes reach the database; `added = removed = None`)
  `None` and the empty set are not distinguished for `added` / `removed`: the code only ever truth-tests them.

  Two places of the code as found did the bookkeeping wrongly; the model has both behaviours, selected by `Cfg`:
    `fixRemove = false`: `SetInstance.remove` on a one-to-many collection repeats, after `reverse.__set__(item, None)` has
       already run `reverse_remove` on this very SetData, part of the removal bookkeeping: `removed |= items` also for an
       item that was only pending in `added` (the count is no longer touched twice: commit 69b7a62);
    `fixFlush = false`:  `_calc_modified_m2m` resets `added` / `removed` only on the side of a many-to-many relationship from
       which it collects the pairs (`if reverse in modified_m2m: continue`).
  Core Lean only.
-/
namespace PonyVerif.Model.SetCount

abbrev Item := Nat

structure Cfg where
  m2m : Bool            -- `reverse.is_collection`
  owning : Bool         -- many-to-many: the flush collects the pairs from this side
  fixRemove : Bool
  fixFlush : Bool
deriving Repr, DecidableEq

structure SetData where
  items : List Item
  fully : Bool
  count : Option Int
  added : List Item
  removed : List Item
  absent : List Item := []       -- the negative cache of `__contains__`: items a membership test did not find
  dirty : Bool := false          -- `obj in cache.modified_collections[attr]`: the next flush forgets added / removed / absent
deriving Repr, DecidableEq

def SetData.new : SetData := ⟨[], false, none, [], [], [], false⟩

structure Coll where
  sd : SetData              -- `obj._vals_.get(attr)` (`None` = a fresh SetData: every reader creates it on demand)
  db : List Item            -- items the transaction view links to `obj`
deriving Repr, DecidableEq

inductive Op where
  | seen (x : Item)         -- db_reverse_add / Set.load(obj, {x}): an item that is in the collection gets loaded
  | revAdd (x : Item)
  | revRemove (x : Item)
  | add (x : Item)
  | remove (x : Item)
  | loadAll
  | count
  | flush
  | contains (x : Item)     -- `item in obj.coll` on a many-to-many collection
  | containsRev (x : Item)  -- the same, answered by the fully loaded collection of the item (obj has no SetData yet)
  | isEmpty (probe : Option Item)   -- `obj.coll.is_empty()`; `probe` = the row `SELECT .. LIMIT 1` returned, if the query ran
  | nonzero                 -- `bool(obj.coll)`
  | select                  -- `obj.coll.select()[:]` (length of the result)
deriving Repr, DecidableEq

inductive Err where
  | assertion       -- an `assert` of reverse_add / reverse_remove
  | phantom         -- UnrepeatableReadError
deriving Repr, DecidableEq

def ins (x : Item) (l : List Item) : List Item := if x ∈ l then l else l ++ [x]

def bump (c : Option Int) (d : Int) : Option Int := c.map (· + d)

/-- `reverse_add` on this SetData -/
def revAdd (sd : SetData) (x : Item) : Except Err SetData :=
  if x ∈ sd.items ∨ x ∈ sd.added then .error .assertion
  else if x ∈ sd.removed then .ok { sd with items := sd.items ++ [x], count := bump sd.count 1, removed := sd.removed.erase x, dirty := true }
  else .ok { sd with items := sd.items ++ [x], count := bump sd.count 1, added := sd.added ++ [x], dirty := true }

/-- `reverse_remove` on this SetData -/
def revRemove (sd : SetData) (x : Item) : Except Err SetData :=
  if x ∉ sd.items ∨ x ∈ sd.removed then .error .assertion
  else if x ∈ sd.added then .ok { sd with items := sd.items.erase x, count := bump sd.count (-1), added := sd.added.erase x, dirty := true }
  else .ok { sd with items := sd.items.erase x, count := bump sd.count (-1), removed := sd.removed ++ [x], dirty := true }

/-- the tail of `SetInstance.remove` for one item: `setdata -= items; count -= len(items);
    if added: (items, added) = (items - added, added - items); removed |= items` -/
def removeTail (sd : SetData) (x : Item) : SetData :=
  if x ∈ sd.added then { sd with items := sd.items.erase x, count := bump sd.count (-1), added := sd.added.erase x, dirty := true }
  else { sd with items := sd.items.erase x, count := bump sd.count (-1), removed := ins x sd.removed, dirty := true }

/-- the same tail as the code runs it NOW after the reverse call of a one-to-many collection has already taken the item out of
    the SetData: `count -= len(items & setdata)` and `setdata -= items` do nothing, the item is no longer in `added`,
    `removed |= items` still happens -/
def removeTailNow (sd : SetData) (x : Item) : SetData := { sd with removed := ins x sd.removed, dirty := true }

/-- the tail of `SetInstance.add` for one item: `setdata |= new_items; count += len(new_items);
    if removed: (new_items, removed) = (new_items - removed, removed - new_items); added |= new_items` -/
def addTail (sd : SetData) (x : Item) : SetData :=
  if x ∈ sd.removed then { sd with items := ins x sd.items, count := bump sd.count 1, removed := sd.removed.erase x, dirty := true }
  else { sd with items := ins x sd.items, count := bump sd.count 1, added := ins x sd.added, dirty := true }

/-- `Set.load(obj)`: everything the database links, except what the session removed -/
def loadAll (c : Coll) : SetData :=
  if c.sd.fully then c.sd
  else
    let items := c.sd.items ++ c.db.filter fun y => decide (y ∉ c.sd.items) && decide (y ∉ c.sd.removed)
    { c.sd with items := items, fully := true, count := some items.length, absent := [] }

def b2i (b : Bool) : Int := if b then 1 else 0

/-- `SetInstance.__contains__` for a many-to-many collection that has a SetData: the new SetData and the answer.
    `Set.load(obj, {x})` is inside: nothing is asked for an item the session removed; a single-item query when the SetData is
    empty, else the whole collection is loaded (`if items and (attr.lazy or not setdata)`). -/
def containsSd (c : Coll) (x : Item) : SetData × Bool :=
  let sd := c.sd
  if x ∈ sd.items then (sd, true)
  else if sd.fully then (sd, false)
  else if x ∈ sd.absent then (sd, false)
  else
    let sd1 : SetData :=
      if x ∈ sd.removed then sd
      else if sd.items.isEmpty then (if x ∈ c.db then { sd with items := [x] } else sd)
      else loadAll c
    if x ∈ sd1.items then (sd1, true) else ({ sd1 with absent := ins x sd1.absent }, false)

/-- what a flush does to the collection: the pending changes reach the database; `_calc_modified_m2m` visits only collections
    registered in `cache.modified_collections` (for the others added / removed are empty anyway) -/
def flushColl (cfg : Cfg) (c : Coll) : Coll :=
  let db' := (c.db.filter fun y => decide (y ∉ c.sd.removed)) ++ c.sd.added
  let reset := !cfg.m2m || cfg.owning || cfg.fixFlush
  { sd := if reset then { c.sd with added := [], removed := [], absent := if c.sd.dirty then [] else c.sd.absent, dirty := false }
          else { c.sd with dirty := false }, db := db' }

/-- `is_empty()` has to ask the database -/
def askEmpty (sd : SetData) : Bool := !sd.fully && sd.items.isEmpty && sd.count.isNone

/-- one call; the `Option Int` is the value a read returns.  Loads done by `add` / `remove` (`Set.load(obj, items)`)
    arrive as preceding `seen` / `loadAll` operations. -/
def step (cfg : Cfg) (c : Coll) : Op → Except Err (Coll × Option Int)
  | .seen x =>
    if c.sd.fully ∧ x ∉ c.sd.items then .error .phantom
    else .ok ({ c with sd := { c.sd with items := ins x c.sd.items } }, none)
  | .revAdd x =>
    match revAdd c.sd x with
    | .ok sd => .ok ({ c with sd := sd }, none)
    | .error e => .error e
  | .revRemove x =>
    match revRemove c.sd x with
    | .ok sd => .ok ({ c with sd := sd }, none)
    | .error e => .error e
  | .add x =>
    if x ∈ c.sd.items then .ok ({ c with sd := { c.sd with dirty := true } }, none)   -- new_items -= setdata: nothing left to add, the collection is still registered as modified
    else .ok ({ c with sd := addTail c.sd x }, none)
  | .remove x =>
    if x ∈ c.sd.removed then .ok (c, none)                                   -- items -= removed; if not items: return
    else if x ∉ c.sd.items then .ok ({ c with sd := { c.sd with dirty := true } }, none)   -- items &= setdata: nothing left, still registered as modified
    else if cfg.m2m then .ok ({ c with sd := removeTail c.sd x }, none)      -- the other side's reverse_remove, then the tail
    else
      match revRemove c.sd x with                                            -- reverse.__set__(item, None) / item._delete_()
      | .error e => .error e
      | .ok sd1 => .ok ({ c with sd := if cfg.fixRemove then sd1 else removeTailNow sd1 x }, none)
  | .loadAll => .ok ({ c with sd := loadAll c }, some (loadAll c).items.length)     -- len(obj.coll)
  | .count =>
    match c.sd.count with
    | some n => .ok (c, some n)
    | none =>
      let n : Int := (c.db.length : Int) + c.sd.added.length - c.sd.removed.length
      .ok ({ c with sd := { c.sd with count := some n } }, some n)
  | .flush => .ok (flushColl cfg c, none)
  | .contains x => .ok ({ c with sd := (containsSd c x).1 }, some (b2i (containsSd c x).2))
  | .isEmpty probe =>
    if c.sd.fully then .ok (c, some (b2i c.sd.items.isEmpty))
    else if !c.sd.items.isEmpty then .ok (c, some 0)
    else match c.sd.count with
      | some n => .ok (c, some (b2i (n == 0)))
      | none =>
        match probe with
        | some x => .ok ({ c with sd := { c.sd with items := ins x c.sd.items } }, some 0)       -- setdata.add(loaded_item): `if setdata: return False`
        | none => .ok ({ c with sd := { c.sd with fully := true, absent := [], count := some 0 } }, some 1)
  | .nonzero =>
    if !c.sd.items.isEmpty then .ok (c, some 1)
    else .ok ({ c with sd := loadAll c }, some (b2i (!(loadAll c).items.isEmpty)))
  | .select => .ok (flushColl cfg c, some (flushColl cfg c).db.length)
  | .containsRev x =>
    .ok (c, some (b2i ((decide (x ∈ c.db) && !decide (x ∈ c.sd.removed)) || decide (x ∈ c.sd.added))))

/-! ### the reference: what the program has in the collection -/

/-- what a read must return, given what the program has -/
def specRead (l : List Item) : Op → Int
  | .contains x | .containsRev x => b2i (decide (x ∈ l))
  | .isEmpty _ => b2i l.isEmpty
  | .nonzero => b2i (!l.isEmpty)
  | _ => l.length

def specStep (l : List Item) : Op → List Item
  | .revAdd x | .add x => ins x l
  | .revRemove x | .remove x => l.erase x
  | _ => l

/-- the row `SELECT .. LIMIT 1` returns: one of the linked items, none only when there is none -/
def probeOk (db : List Item) : Option Item → Prop
  | some x => x ∈ db
  | none => db = []

instance (db : List Item) (p : Option Item) : Decidable (probeOk db p) := by
  cases p <;> simp only [probeOk] <;> infer_instance

/-- what the callers of the bookkeeping procedures guarantee: both ends of the relationship agree (C12), an item is only
    handled after it was loaded, `Set.load(obj, items)` has resolved the operands of add / remove against the database -/
def OpValid (c : Coll) (l : List Item) : Op → Prop
  | .seen x => x ∈ l
  | .revAdd x => x ∉ l
  | .revRemove x => x ∈ l ∧ x ∈ c.sd.items
  | .add x => x ∈ l → x ∈ c.sd.items
  | .remove x => x ∈ l → x ∈ c.sd.items
  | .isEmpty probe =>       -- the query runs after the implicit flush, and `probe` is what it returned
    askEmpty c.sd = true → c.sd.removed = [] ∧ probeOk c.db probe
  | _ => True

/-- the two places where the code as found goes wrong are avoided, or repaired -/
def OpSafe (cfg : Cfg) : Op → Prop
  | .remove _ => cfg.m2m = true ∨ cfg.fixRemove = true
  | .flush | .select => cfg.m2m = false ∨ cfg.owning = true ∨ cfg.fixFlush = true
  | _ => True

instance (cfg : Cfg) (op : Op) : Decidable (OpSafe cfg op) := by
  cases op <;> simp only [OpSafe] <;> infer_instance

instance (c : Coll) (l : List Item) (op : Op) : Decidable (OpValid c l op) := by
  cases op <;> simp only [OpValid] <;> infer_instance

/-- a history on both machines; `reads` collects (returned value, what the program's state says) of every read:
    count() and len() against the number of items, membership tests (1 / 0) against membership -/
def run (cfg : Cfg) : Coll → List Item → List Op → Except Err (Coll × List Item × List (Int × Int))
  | c, l, [] => .ok (c, l, [])
  | c, l, op :: ops =>
    match step cfg c op with
    | .error e => .error e
    | .ok (c', r) =>
      let l' := specStep l op
      match run cfg c' l' ops with
      | .error e => .error e
      | .ok (c'', l'', rs) => .ok (c'', l'', (match r with | some v => [(v, specRead l' op)] | none => []) ++ rs)

/-- every call of the history is made in a state where its caller's guarantees hold -/
def ValidFrom (cfg : Cfg) : Coll → List Item → List Op → Prop
  | _, _, [] => True
  | c, l, op :: ops =>
    OpValid c l op ∧ OpSafe cfg op ∧
      match step cfg c op with
      | .error _ => True
      | .ok (c', _) => ValidFrom cfg c' (specStep l op) ops

/-- the same without `OpSafe`: only the callers' guarantees -/
def CallersOk (cfg : Cfg) : Coll → List Item → List Op → Prop
  | _, _, [] => True
  | c, l, op :: ops =>
    OpValid c l op ∧
      match step cfg c op with
      | .error _ => True
      | .ok (c', _) => CallersOk cfg c' (specStep l op) ops

instance decValidFrom (cfg : Cfg) : (c : Coll) → (l : List Item) → (ops : List Op) → Decidable (ValidFrom cfg c l ops)
  | _, _, [] => isTrue trivial
  | c, l, op :: ops => by
    unfold ValidFrom
    cases h : step cfg c op with
    | error e => exact inferInstance
    | ok r => exact @instDecidableAnd _ _ _ (@instDecidableAnd _ _ _ (decValidFrom cfg r.1 (specStep l op) ops))

instance decCallersOk (cfg : Cfg) : (c : Coll) → (l : List Item) → (ops : List Op) → Decidable (CallersOk cfg c l ops)
  | _, _, [] => isTrue trivial
  | c, l, op :: ops => by
    unfold CallersOk
    cases h : step cfg c op with
    | error e => exact inferInstance
    | ok r => exact @instDecidableAnd _ _ _ (decCallersOk cfg r.1 (specStep l op) ops)

end PonyVerif.Model.SetCount
