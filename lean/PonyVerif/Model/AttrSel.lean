/-
  C31 — hand model of `pony/orm/core.py: EntityMeta._get_attrs_` (the attribute selection of `to_dict` / `Bag.config`,
  with its per-entity cache `_attrnames_cache_`), as written:

      if only and not isinstance(only, str): only = tuple(only)
      if exclude and not isinstance(exclude, str): exclude = tuple(exclude)
      key = (only, exclude, with_collections, with_lazy)
      attrs = entity._attrnames_cache_.get(key)
      if not attrs:                                   # miss — or a cached EMPTY selection: recomputed every time
          attrs = []
          if only:
              if isinstance(only, str): only = only.replace(',', ' ').split()
              for attrname in only:                   # `only` wins over with_collections / with_lazy; order and repetitions kept
                  attr = entity._adict_.get(attrname)
                  if attr is None: throw(AttributeError, ...)
                  else: append(attr)
          else:
              for attr in entity._attrs_:
                  if attr.is_collection:
                      if with_collections: append(attr)
                  elif attr.lazy:
                      if with_lazy: append(attr)
                  else: append(attr)
          if exclude:
              if isinstance(exclude, str): exclude = exclude.replace(',', ' ').split()
              for attrname in exclude:
                  if attrname not in entity._adict_: throw(AttributeError, ...)
              attrs = (attr for attr in attrs if attr.name not in exclude)
          attrs = tuple(attrs)
          entity._attrnames_cache_[key] = attrs       # an exception leaves the cache untouched
      return attrs

  Attributes are identified by their names (unique per entity).  A selector keeps the FORM in which it was passed
  (None / a string / a tuple), because the cache key does; `split` (the tokenizer `s.replace(',', ' ').split()`) is a
  parameter of the model: the theorems hold for every tokenizer.  Core Lean only.
-/
namespace PonyVerif.Model.AttrSel

structure Attr where
  name : String
  isCollection : Bool
  isLazy : Bool
  deriving DecidableEq, Repr

inductive Sel where
  | none
  | str (raw : String)
  | tup (l : List String)
  deriving DecidableEq, Repr

def Sel.truthy : Sel → Bool
  | .none => false
  | .str s => s != ""
  | .tup l => !l.isEmpty

def Sel.toks (split : String → List String) : Sel → List String
  | .none => []
  | .str s => split s
  | .tup l => l

structure Query where
  only : Sel
  exclude : Sel
  withCollections : Bool
  withLazy : Bool
  deriving DecidableEq, Repr

def known (attrs : List Attr) (n : String) : Bool := attrs.any (fun a => a.name == n)

def visible (q : Query) (a : Attr) : Bool :=
  if a.isCollection then q.withCollections else if a.isLazy then q.withLazy else true

/-- first name of `ns` that is not an attribute of the entity (the `AttributeError`) -/
def firstUnknown (attrs : List Attr) (ns : List String) : Option String := ns.find? (fun n => !known attrs n)

/-- the selection computed on a cache miss: names of the selected attributes, or the unknown name of the AttributeError -/
def compute (split : String → List String) (attrs : List Attr) (q : Query) : Except String (List String) :=
  let base : Except String (List String) :=
    if q.only.truthy then
      match firstUnknown attrs (q.only.toks split) with
      | some n => .error n
      | none => .ok (q.only.toks split)
    else .ok ((attrs.filter (visible q)).map (·.name))
  match base with
  | .error n => .error n
  | .ok b =>
    if q.exclude.truthy then
      match firstUnknown attrs (q.exclude.toks split) with
      | some n => .error n
      | none => .ok (b.filter (fun n => !(q.exclude.toks split).contains n))
    else .ok b

abbrev Cache := List (Query × List String)

/-- `_get_attrs_` with the cache (`List.lookup` = `dict.get(key)`; a store puts the entry in front) -/
def cached (split : String → List String) (attrs : List Attr) (c : Cache) (q : Query) : Except String (List String) × Cache :=
  match c.lookup q with
  | some (x :: xs) => (.ok (x :: xs), c)
  | _ =>
    match compute split attrs q with
    | .ok r => (.ok r, (q, r) :: c)
    | .error n => (.error n, c)

/-- a history of calls on one entity, starting from the empty cache of a freshly initialised entity -/
def runHist (split : String → List String) (attrs : List Attr) : Cache → List Query → List (Except String (List String))
  | _, [] => []
  | c, q :: qs => (cached split attrs c q).1 :: runHist split attrs (cached split attrs c q).2 qs

/-- the tokenizer used by the driver: `s.replace(',', ' ').split()` for texts whose only white space is the blank -/
def splitGo : List Char → List Char → List String
  | cur, [] => if cur.isEmpty then [] else [String.ofList cur.reverse]
  | cur, c :: r =>
    if c = ' ' ∨ c = ',' then (if cur.isEmpty then splitGo [] r else String.ofList cur.reverse :: splitGo [] r)
    else splitGo (c :: cur) r

def splitBlank (s : String) : List String := splitGo [] s.toList

end PonyVerif.Model.AttrSel
