/-
  Model/KeyLookup.lean — lookups by a unique key (property C10: the unique-key and composite-key shortcuts of `_find_in_cache_`).

  One entity with an integer primary key and ONE secondary key: a unique attribute (`Optional(int, unique=True)`, key value `[v]`) or a
  composite key (`composite_key(c0, c1)`, key value `[v0, v1]`); a key with a `None` component is not indexed (`kv = none`).
  Mirrors pony/orm/core.py
    Entity.__init__ (pk index / `_simple_keys_` / `_composite_keys_` checks, `indexes_update`)        -> `create`
    Attribute.__set__ + SessionCache.update_simple_index / update_composite_index                      -> `setKey`
    Entity._delete_ (`cache_index.pop(val)`, cancelled / marked_to_delete)                             -> `delete`
    SessionCache.flush (INSERT / UPDATE of the written key / DELETE) under the database's UNIQUE constraint -> `flush`
    Entity._db_set_ + db_update_simple_index / db_update_composite_index (a fetched row enters the cache) -> `fetch`
    EntityMeta._find_one_ / _find_in_cache_ (pk path, unique-key path, composite-key path) / _find_in_db_
      with the implicit flush of `_exec_sql`                                                             -> `loadPk`, `getBy`
  Abstractions: objects are fully loaded; the other attributes are not there; the UNIQUE constraint is checked on the state after the
  flush (SQLite checks after every statement: the model accepts every flush the database accepts); one session at a time
  (`newSession` = commit + a fresh cache).  Tied to the real code by harness/engines/c10.py (part C).  Core Lean only.
-/
namespace PonyVerif.Model.KeyLookup

abbrev Id := Nat
abbrev KV := List Int

inductive St where
  | created | loaded | modified | saved | marked | gone     -- saved = inserted / updated; gone = deleted / cancelled
deriving DecidableEq, Repr, Inhabited

def St.alive : St → Bool
  | .marked | .gone => false
  | _ => true

def St.pending : St → Bool
  | .created | .modified | .marked => true
  | _ => false

structure Obj where
  st : St
  kv : Option KV          -- the key value in `_vals_` (none: a component is None)
  written : Bool          -- the key attribute's bit in `_wbits_`
deriving DecidableEq, Repr

structure World where
  ids : List Id                      -- every primary key mentioned so far (the finite universe of the executable model)
  objs : Id → Option Obj             -- the identity map
  idx : KV → Option Id               -- `cache.indexes[attr]` / `cache.indexes[attrs]`
  rows : Id → Option (Option KV)     -- the table as the session's connection sees it: primary key ↦ key value
  modified : Bool

inductive Err where
  | pkClash (i : Id)          -- INSERT of an existing primary key
  | uniqueViolation           -- the UNIQUE constraint of the key refuses the flush
  | indexClash (i : Id)       -- db_update_*_index: TransactionIntegrityError
  | multiple                  -- MultipleObjectsFoundError
deriving DecidableEq, Repr

inductive Outcome where
  | ok
  | found (i : Id)
  | notFound
  | refused                   -- CacheIndexError / object deleted / unknown object: nothing changed
  | error (e : Err)           -- the session is over
deriving DecidableEq, Repr

inductive Op where
  | create (i : Id) (kv : Option KV)
  | setKey (i : Id) (kv : Option KV)
  | delete (i : Id)
  | flush
  | loadPk (i : Id)           -- E[pk]
  | getBy (v : KV)            -- E.get(u=v) / E.get(c0=v0, c1=v1)
  | newSession                -- commit, then a new db_session
deriving DecidableEq, Repr

def setObj (w : World) (i : Id) (o : Obj) : World := { w with objs := fun j => if j = i then some o else w.objs j }
def setIdx (w : World) (v : KV) (r : Option Id) : World := { w with idx := fun u => if u = v then r else w.idx u }
def addId (w : World) (i : Id) : World := { w with ids := if i ∈ w.ids then w.ids else i :: w.ids }

/-- drop the object's key from the index (`del cache_index[old]` / `cache_index.pop(val)`) -/
def unindex (w : World) (kv : Option KV) : World :=
  match kv with
  | some v => setIdx w v none
  | none => w

/-- `Entity.__init__` -/
def create (w : World) (i : Id) (kv : Option KV) : World × Outcome :=
  match w.objs i with
  | some o => if o.st ≠ .gone then (w, .refused)                       -- instance with primary key already exists
              else createNew
  | none => createNew
where createNew : World × Outcome :=
  match kv with
  | some v =>
    if (w.idx v).isSome then (w, .refused)                              -- value for key already exists
    else ({ setIdx (setObj (addId w i) i ⟨.created, kv, false⟩) v (some i) with modified := true }, .ok)
  | none => ({ setObj (addId w i) i ⟨.created, kv, false⟩ with modified := true }, .ok)

/-- `Attribute.__set__` of (a component of) the key -/
def setKey (w : World) (i : Id) (kv : Option KV) : World × Outcome :=
  match w.objs i with
  | none => (w, .refused)
  | some o =>
    if !o.st.alive then (w, .refused)
    else
      let o' : Obj := ⟨if o.st = .created then .created else .modified, kv, o.st ≠ .created⟩
      let m := w.modified || o.st ≠ .created
      if o.kv = kv then ({ setObj w i o' with modified := m }, .ok)     -- the write bit is set before the values are compared
      else
        match kv with
        | some v =>
          match w.idx v with
          | some j => if j = i then ({ setObj (unindex w o.kv) i o' with modified := m }, .ok) else (w, .refused)
          | none => ({ setObj (setIdx (unindex w o.kv) v (some i)) i o' with modified := m }, .ok)
        | none => ({ setObj (unindex w o.kv) i o' with modified := m }, .ok)

/-- `Entity._delete_` -/
def delete (w : World) (i : Id) : World × Outcome :=
  match w.objs i with
  | none => (w, .refused)
  | some o =>
    if !o.st.alive then (w, .ok)
    else if o.st = .created then (setObj (unindex w o.kv) i { o with st := .gone }, .ok)
    else ({ setObj (unindex w o.kv) i { o with st := .marked } with modified := true }, .ok)

/-- the row of `i` after the flush -/
def rowAfter (w : World) (i : Id) : Option (Option KV) :=
  match w.objs i with
  | none => w.rows i
  | some o =>
    match o.st with
    | .created => some o.kv
    | .modified => if o.written then some o.kv else w.rows i
    | .marked => none
    | _ => w.rows i

def objAfter (o : Obj) : Obj :=
  match o.st with
  | .created | .modified => { o with st := .saved, written := false }
  | .marked => { o with st := .gone, written := false }
  | _ => o

/-- the UNIQUE constraint on the key column(s): no two rows hold the same non-NULL key -/
def uniqueOn (ids : List Id) (rows : Id → Option (Option KV)) : Bool :=
  ids.all fun i => ids.all fun j =>
    match rows i, rows j with
    | some (some u), some (some v) => i = j || u ≠ v
    | _, _ => true

/-- `SessionCache.flush` -/
def flush (w : World) : Except Err World :=
  if !w.modified then .ok w
  else
    match w.ids.find? (fun i => match w.objs i with | some o => o.st = .created && (w.rows i).isSome | none => false) with
    | some i => .error (.pkClash i)
    | none =>
      let rows' := rowAfter w
      if uniqueOn w.ids rows' then .ok { w with rows := rows', objs := fun i => (w.objs i).map objAfter, modified := false }
      else .error .uniqueViolation

/-- a fetched row enters the cache (`_get_from_identity_map_` + `_db_set_` + `db_update_*_index`) -/
def fetch (w : World) (i : Id) : World × Outcome :=
  match w.rows i with
  | none => (w, .notFound)
  | some kv =>
    match w.objs i with
    | some o => if o.st ≠ .gone then (w, .found i) else enter kv
    | none => enter kv
where enter (kv : Option KV) : World × Outcome :=
  match kv with
  | some v =>
    match w.idx v with
    | some j => if j = i then (setObj w i ⟨.loaded, kv, false⟩, .found i) else (w, .error (.indexClash i))
    | none => (setIdx (setObj w i ⟨.loaded, kv, false⟩) v (some i), .found i)
  | none => (setObj w i ⟨.loaded, kv, false⟩, .found i)

/-- `E[pk]`: pk index first (`marked_to_delete` → ObjectNotFound), else implicit flush + SELECT -/
def loadPk (w : World) (i : Id) : World × Outcome :=
  match w.objs i with
  | some o =>
    if o.st = .gone then viaDb
    else if o.st = .marked then (w, .notFound) else (w, .found i)
  | none => viaDb
where viaDb : World × Outcome :=
  match flush w with
  | .error e => (w, .error e)
  | .ok w' => fetch w' i

/-- the rows a `SELECT .. WHERE key = v` returns -/
def queryKey (w : World) (v : KV) : List Id := w.ids.filter fun i => w.rows i = some (some v)

/-- `E.get(key = v)`: the key index first, else implicit flush + SELECT by key -/
def getBy (w : World) (v : KV) : World × Outcome :=
  match w.idx v with
  | some i => (w, .found i)                     -- the object's value is compared with `v` again: equal by the index invariant
  | none =>
    match flush w with
    | .error e => (w, .error e)
    | .ok w' =>
      match queryKey w' v with
      | [] => (w', .notFound)
      | [i] => fetch w' i
      | _ => (w', .error .multiple)

def step (w : World) : Op → World × Outcome
  | .create i kv => create w i kv
  | .setKey i kv => setKey w i kv
  | .delete i => delete w i
  | .flush => match flush w with | .ok w' => (w', .ok) | .error e => (w, .error e)
  | .loadPk i => loadPk w i
  | .getBy v => getBy w v
  | .newSession =>
    match flush w with
    | .ok w' => ({ w' with objs := fun _ => none, idx := fun _ => none }, .ok)
    | .error e => (w, .error e)

/-- what the program has: primary key ↦ key value (cache over table) -/
def view (w : World) (i : Id) : Option (Option KV) :=
  match w.objs i with
  | some o => if o.st.alive then some o.kv else (if o.st = .marked then none else w.rows i)
  | none => w.rows i

/-- a well-formed program does not construct an object under a primary key that is in use in its own view -/
def OpOk (w : World) : Op → Prop
  | .create i _ => view w i = none ∧ w.rows i = none
  | _ => True

instance (w : World) (op : Op) : Decidable (OpOk w op) := by
  cases op <;> simp only [OpOk] <;> infer_instance

/-- a history, stopped at the first failed flush (the session is over then) -/
def run : World → List Op → World × List Outcome
  | w, [] => (w, [])
  | w, op :: ops =>
    let r := step w op
    match r.2 with
    | .error _ => (r.1, [r.2])
    | _ => let rest := run r.1 ops; (rest.1, r.2 :: rest.2)

def World.init (ids : List Id) (rows : Id → Option (Option KV)) : World := ⟨ids, fun _ => none, fun _ => none, rows, false⟩

end PonyVerif.Model.KeyLookup
