/-
  Model/Cascade.lean — deletion (property C15): the in-memory cascade of `Entity._delete_`, the ON DELETE clauses chosen by
  `Database.generate_mapping`, the database-side effect of a bulk `DELETE`, and the projection "session -> rows" of a commit.

  Mirrors, for fully loaded objects, pony/orm/core.py as it is now:
    Attribute.linked (cascade_delete default and checks)         -> linkedCheck / effCascade
    Entity._delete_                                               -> delete (collStep, refStep, final status block)
      Set.__get__ / SetInstance.__nonzero__ (deleted-object check) -> first test of collStep
      Set.__set__(obj, (), undo_funcs)                             -> setCollEmpty
      Attribute.__set__(val, None, undo_funcs)  (reverse call)     -> clearRef
      Set.reverse_remove((x,), item, undo_funcs)                   -> reverseRemove1
      `if obj._status_ in del_statuses: return` after the loops    -> a nested frame of the same object (cascade cycle) already finished
    Entity.delete / `except: for undo_func in reversed(undo_funcs): undo_func(); raise` -> deleteTop (a failing call restores the store)
    Database.generate_mapping (on_delete of FK columns / link tables) -> onDelete / linkOnDelete
    Query.delete(bulk=True) under the generated ON DELETE clauses  -> dbDelete
  The model is focused (DESIGN 8b): the relationship part of the session only.  Statuses are abstracted to `alive`
  (`_status_ not in del_statuses`); `objects_to_save`, key indexes, SetData bookkeeping, lazy loading are not modelled.
  Python `set` iteration order is replaced by ascending object id.  `fuel` stands for Python's recursion limit.
  Core Lean only (linked into the driver).
-/
namespace PonyVerif.Model.Cascade

/-! ## 1. Schema -/

abbrev ObjId := Nat
abbrev EntId := Nat

/-- one END of a relationship after `Attribute.linked` -/
structure Side where
  ent : EntId          -- entity the attribute is declared on
  isColl : Bool        -- `Set(...)`
  required : Bool      -- `Required(...)`
  cascade : Bool       -- effective `cascade_delete`
  hasCol : Bool        -- `bool(attr.columns)`: this side holds the foreign-key column (never for a collection)
deriving DecidableEq, Repr, Inhabited

/-- a pair of reverse attributes; `sym` = symmetric attribute (its own reverse, `b` unused) -/
structure RelDecl where
  a : Side
  b : Side
  sym : Bool
deriving DecidableEq, Repr, Inhabited

abbrev Schema := List RelDecl

/-- attribute id: relationship index + side (`false` = side a) -/
structure Attr where
  rel : Nat
  side : Bool
deriving DecidableEq, Repr, Inhabited

namespace Schema

def side (sch : Schema) (a : Attr) : Option Side :=
  match sch[a.rel]? with
  | none => none
  | some r => if r.sym then (if a.side then none else some r.a) else some (if a.side then r.b else r.a)

/-- `attr.reverse` -/
def rev (sch : Schema) (a : Attr) : Attr :=
  match sch[a.rel]? with
  | none => a
  | some r => if r.sym then a else ⟨a.rel, !a.side⟩

/-- all attribute ids in declaration order (rel 0 side a, rel 0 side b, rel 1 side a, ...) -/
def allAttrs (sch : Schema) : List Attr :=
  (List.range sch.length).flatMap fun i => [⟨i, false⟩, ⟨i, true⟩]

/-- `entity._attrs_` restricted to relationship attributes, in declaration order -/
def attrsOf (sch : Schema) (e : EntId) : List Attr :=
  sch.allAttrs.filter fun a => match sch.side a with
    | some d => d.ent == e
    | none => false

/-- class table: for every class (entity or subclass) its `_attrs_` restricted to relationship attributes, inherited ones
    included, in the order Pony iterates them (attributes of the base class first) -/
abbrev _root_.PonyVerif.Model.Cascade.ClassTable := EntId → List Attr

/-- the class table of a schema without inheritance -/
def classTable (sch : Schema) : PonyVerif.Model.Cascade.ClassTable := fun e => sch.attrsOf e

def isCascade (sch : Schema) (a : Attr) : Bool :=
  match sch.side a with
  | some d => d.cascade
  | none => false

end Schema

/-! ### `Attribute.linked`: the default and the checks of `cascade_delete` -/

/-- an attribute as DECLARED: kind and the `cascade_delete=` option (`none` = not given) -/
structure Decl where
  isColl : Bool
  required : Bool
  optCascade : Option Bool
deriving DecidableEq, Repr

/-- `attr.cascade_delete` after `linked()`:  `attr.is_collection and reverse.is_required` when the option is not given -/
def effCascade (d rd : Decl) : Bool :=
  match d.optCascade with
  | none => d.isColl && rd.required
  | some b => b

/-- the two `TypeError`s of `linked()` for the pair (both orders of linking give the same verdict) -/
def linkedCheck (d rd : Decl) : Bool :=
  !(d.optCascade == some true && (effCascade rd d || rd.isColl)) &&
  !(rd.optCascade == some true && (effCascade d rd || d.isColl))

/-! ## 2. Object store -/

structure Store where
  n : Nat
  ent : ObjId → EntId
  alive : ObjId → Bool                      -- `_status_ not in del_statuses`
  ref : ObjId → Attr → Option ObjId         -- `obj._vals_[attr]` of a reference attribute
  mem : ObjId → Attr → ObjId → Bool         -- `item in obj._vals_[attr]`

namespace Store

def empty : Store := ⟨0, fun _ => 0, fun _ => false, fun _ _ => none, fun _ _ _ => false⟩

def setRef (s : Store) (o : ObjId) (a : Attr) (v : Option ObjId) : Store :=
  { s with ref := fun o' a' => if o' = o ∧ a' = a then v else s.ref o' a' }

def setMem (s : Store) (o : ObjId) (a : Attr) (x : ObjId) (b : Bool) : Store :=
  { s with mem := fun o' a' x' => if o' = o ∧ a' = a ∧ x' = x then b else s.mem o' a' x' }

/-- `setdata.clear()` -/
def clearRow (s : Store) (o : ObjId) (a : Attr) : Store :=
  { s with mem := fun o' a' x' => if o' = o ∧ a' = a then false else s.mem o' a' x' }

def setAlive (s : Store) (o : ObjId) (b : Bool) : Store :=
  { s with alive := fun o' => if o' = o then b else s.alive o' }

/-- contents of a collection in ascending id order (stands for iterating a copy of the Python `set`) -/
def members (s : Store) (o : ObjId) (a : Attr) : List ObjId :=
  (List.range s.n).filter fun x => s.mem o a x

end Store

/-- does object `p` hold `q` under attribute `b` (reference equal / collection member) -/
def hasB (sch : Schema) (s : Store) (p : ObjId) (b : Attr) (q : ObjId) : Bool :=
  match sch.side b with
  | none => false
  | some d => if d.isColl then s.mem p b q else s.ref p b == some q

/-! ## 3. `Entity._delete_` -/

inductive Err
  | constraintError    -- ConstraintError: required dependent without cascade
  | recursionError     -- RecursionError: cascade cycle through collections
  | assertionError     -- AssertionError: internal asserts of reverse_remove
  | objectDeleted      -- OperationWithDeletedObjectError
  | valueError         -- ValueError (Required attribute set to None)
  | noSuchAttr         -- not expressible in Python
  | noSuchObject       -- not expressible in Python
deriving DecidableEq, Repr

abbrev R := Except Err Store

def iterE {α : Type} (f : α → Store → R) : List α → Store → R
  | [], s => .ok s
  | x :: xs, s =>
    match f x s with
    | .ok s' => iterE f xs s'
    | .error e => .error e

/-- one iteration of `Set.reverse_remove(attr=c, objects=(obj,), item, undo_funcs)` -/
def reverseRemove1 (c : Attr) (obj item : ObjId) (s : Store) : R :=
  if s.mem obj c item then .ok (s.setMem obj c item false)
  else .error .assertionError                                                -- assert item in setdata

/-- `Attribute.__set__(obj=x, new_val=None, undo_funcs)` as a reverse call (`a` is a reference attribute of `x`) -/
def clearRef (sch : Schema) (x : ObjId) (a : Attr) (s : Store) : R :=
  if !s.alive x then .error .objectDeleted else                              -- throw_object_was_deleted
  match sch.side a, sch.side (sch.rev a) with
  | some d, some rd =>
    if d.required then .error .valueError else                               -- Required.validate(None)
    match s.ref x a with
    | none => .ok s                                                          -- old_val == new_val: return
    | some u =>
      let s := s.setRef x a none
      if rd.isColl then reverseRemove1 (sch.rev a) u x s                     -- reverse.reverse_remove((old_val,), obj, ..)
      else .ok s                                                             -- reverse is a reference and new_val is None
  | _, _ => .error .noSuchAttr

/-- `Set.__set__(attr=c, obj=o, (), undo_funcs)` as `_delete_` calls it (the attribute has no cascade_delete) -/
def setCollEmpty (sch : Schema) (o : ObjId) (c : Attr) (s : Store) : R :=
  if !s.alive o then .error .objectDeleted else
  match sch.side (sch.rev c) with
  | some rd =>
    let items := s.members o c
    if items.isEmpty then .ok s else                                         -- new_items == setdata: return
    let r := if !rd.isColl then iterE (fun item => clearRef sch item (sch.rev c)) items s      -- reverse.__set__(item, None, ..)
             else iterE (fun x => reverseRemove1 (sch.rev c) x o) items s                       -- reverse.reverse_remove(to_remove, obj, ..)
    match r with
    | .ok s => .ok (s.clearRow o c)                                          -- setdata.clear(); setdata |= ()
    | .error e => .error e
  | none => .error .noSuchAttr

/-- the body of the first loop of `_delete_` for attribute `c` of object `o`; `del` = the recursive `_delete_` -/
def collStep (sch : Schema) (del : ObjId → Store → R) (o : ObjId) (c : Attr) (s : Store) : R :=
  match sch.side c, sch.side (sch.rev c) with
  | some d, some rd =>
    if !d.isColl then .ok s
    else if !s.alive o then .error .objectDeleted                            -- attr.__get__(obj): a nested frame deleted obj
    else if (s.members o c).isEmpty then .ok s                               -- not set_wrapper.__nonzero__()
    else if d.cascade then iterE del (s.members o c) s                       -- for robj in set_wrapper: robj._delete_(undo_funcs)
    else if !rd.required then setCollEmpty sch o c s                         -- attr.__set__(obj, (), undo_funcs)
    else .error .constraintError                                             -- Cannot delete: non-empty set
  | _, _ => .error .noSuchAttr

/-- the body of the second loop of `_delete_` for attribute `a` of object `o`.
    `guard` = the tree has the re-entrancy guard of fixes/C15-cascade-cycle-recursion.diff (then a partner that a cascade
    cycle already deleted is skipped instead of being written to) -/
def refStep (sch : Schema) (guard : Bool) (del : ObjId → Store → R) (o : ObjId) (a : Attr) (s : Store) : R :=
  match sch.side a, sch.side (sch.rev a) with
  | some d, some rd =>
    if d.isColl then .ok s else
    match s.ref o a with
    | none => .ok s
    | some x =>
      if !rd.isColl then
        if d.cascade then del x s                                            -- val._delete_(undo_funcs)
        else if !rd.required then
          if guard && !s.alive x then .ok s                                  -- (guarded tree) if val._status_ in del_statuses: pass
          else if s.ref x (sch.rev a) = some o then clearRef sch x (sch.rev a) s  -- if val._vals_.get(reverse, obj) is obj: reverse.__set__(val, None, ..)
          else .ok s
        else .error .constraintError                                         -- Cannot delete: has associated
      else reverseRemove1 (sch.rev a) x o s                                  -- reverse.reverse_remove((val,), obj, undo_funcs)
  | _, _ => .error .noSuchAttr

/-- `Entity._delete_(obj=o, undo_funcs)`.  `P` = the objects whose `_delete_` is in progress further up the call stack
    (`cache.objects_being_deleted` of the guarded tree; carried along but not consulted when `guard = false`). -/
def delete (sch : Schema) (ct : ClassTable) (guard : Bool) : Nat → List ObjId → ObjId → Store → R
  | 0, _, _, _ => .error .recursionError
  | fuel + 1, P, o, s =>
    if guard && P.contains o then .ok s else                                 -- (guarded tree) if obj in objects_being_deleted: return
    if !s.alive o then .ok s else                                            -- status in del_statuses: return
    let attrs := ct (s.ent o)                                                -- obj._attrs_ of the object's real class
    match iterE (collStep sch (fun x s => delete sch ct guard fuel (o :: P) x s) o) attrs s with
    | .error e => .error e
    | .ok s1 =>
      match iterE (refStep sch guard (fun x s => delete sch ct guard fuel (o :: P) x s) o) attrs s1 with
      | .error e => .error e
      | .ok s2 =>
        if !s2.alive o then .ok s2                                           -- a nested _delete_ of this object (cascade cycle) already finished
        else .ok (s2.setAlive o false)                                       -- 'cancelled' / 'marked_to_delete'

/-- deep enough for every terminating run the tie has produced; Python's own limit is about 250 nested frames -/
def fuelOf (sch : Schema) (s : Store) : Nat := (2 * sch.length + 2) * (s.n + 1)

/-- `Entity.delete()`: a failing call runs the undo list, i.e. the store is what it was -/
def deleteTop (sch : Schema) (ct : ClassTable) (guard : Bool) (s : Store) (o : ObjId) : Store × Option Err :=
  if o < s.n then
    match delete sch ct guard (fuelOf sch s) [] o s with
    | .ok s' => (s', none)
    | .error e => (s, some e)
  else (s, some .noSuchObject)

/-! ## 3b. The same procedures with the undo list (`undo_funcs`)

Every mutation for which the code registers an undo closure pushes its inverse on the trail (newest first); a failing
top-level call runs `for undo_func in reversed(undo_funcs): undo_func()`.  `deleteT` is `delete` instrumented with the trail
(`deleteT_erase`: same outcome and store); `deleteT_undo`: running the trail restores the store the call started from. -/

inductive Undo
  | ref (o : ObjId) (a : Attr) (old : Option ObjId)     -- Attribute.__set__: `obj._vals_[attr] = old_val`
  | memAdd (o : ObjId) (c : Attr) (x : ObjId)            -- Set.reverse_remove: `setdata.add(item)`
  | row (o : ObjId) (c : Attr) (old : ObjId → Bool)      -- Set.__set__ (reverse call): `setdata.clear(); setdata.update(old_items)`
  | alive (o : ObjId)                                      -- Entity._delete_: `obj._status_ = cur_status`

def Store.setRow (s : Store) (o : ObjId) (a : Attr) (f : ObjId → Bool) : Store :=
  { s with mem := fun o' a' x' => if o' = o ∧ a' = a then f x' else s.mem o' a' x' }

def undo1 (s : Store) : Undo → Store
  | .ref o a old => s.setRef o a old
  | .memAdd o c x => s.setMem o c x true
  | .row o c old => s.setRow o c old
  | .alive o => s.setAlive o true

/-- `for undo_func in reversed(undo_funcs): undo_func()` (the trail is kept newest first) -/
def undoAll : List Undo → Store → Store
  | [], s => s
  | u :: us, s => undoAll us (undo1 s u)

structure T where
  store : Store
  trail : List Undo

/-- outcome with the state at the point of failure -/
abbrev RT := Except (Err × T) T

def iterET {α : Type} (f : α → T → RT) : List α → T → RT
  | [], t => .ok t
  | x :: xs, t =>
    match f x t with
    | .ok t' => iterET f xs t'
    | .error e => .error e

def reverseRemove1T (c : Attr) (obj item : ObjId) (t : T) : RT :=
  if t.store.mem obj c item then .ok ⟨t.store.setMem obj c item false, .memAdd obj c item :: t.trail⟩
  else .error (.assertionError, t)

def clearRefT (sch : Schema) (x : ObjId) (a : Attr) (t : T) : RT :=
  if !t.store.alive x then .error (.objectDeleted, t) else
  match sch.side a, sch.side (sch.rev a) with
  | some d, some rd =>
    if d.required then .error (.valueError, t) else
    match t.store.ref x a with
    | none => .ok t
    | some u =>
      let t1 : T := ⟨t.store.setRef x a none, .ref x a (some u) :: t.trail⟩       -- undo_funcs.append(undo_func) before the reverse call
      if rd.isColl then reverseRemove1T (sch.rev a) u x t1
      else .ok t1
  | _, _ => .error (.noSuchAttr, t)

def setCollEmptyT (sch : Schema) (o : ObjId) (c : Attr) (t : T) : RT :=
  if !t.store.alive o then .error (.objectDeleted, t) else
  match sch.side (sch.rev c) with
  | some rd =>
    let items := t.store.members o c
    if items.isEmpty then .ok t else
    let r := if !rd.isColl then iterET (fun item => clearRefT sch item (sch.rev c)) items t
             else iterET (fun x => reverseRemove1T (sch.rev c) x o) items t
    match r with
    | .ok t1 => .ok ⟨t1.store.clearRow o c, .row o c (t1.store.mem o c) :: t1.trail⟩   -- old_items captured after the loops
    | .error e => .error e
  | none => .error (.noSuchAttr, t)

def collStepT (sch : Schema) (del : ObjId → T → RT) (o : ObjId) (c : Attr) (t : T) : RT :=
  match sch.side c, sch.side (sch.rev c) with
  | some d, some rd =>
    if !d.isColl then .ok t
    else if !t.store.alive o then .error (.objectDeleted, t)
    else if (t.store.members o c).isEmpty then .ok t
    else if d.cascade then iterET del (t.store.members o c) t
    else if !rd.required then setCollEmptyT sch o c t
    else .error (.constraintError, t)
  | _, _ => .error (.noSuchAttr, t)

def refStepT (sch : Schema) (guard : Bool) (del : ObjId → T → RT) (o : ObjId) (a : Attr) (t : T) : RT :=
  match sch.side a, sch.side (sch.rev a) with
  | some d, some rd =>
    if d.isColl then .ok t else
    match t.store.ref o a with
    | none => .ok t
    | some x =>
      if !rd.isColl then
        if d.cascade then del x t
        else if !rd.required then
          if guard && !t.store.alive x then .ok t
          else if t.store.ref x (sch.rev a) = some o then clearRefT sch x (sch.rev a) t
          else .ok t
        else .error (.constraintError, t)
      else reverseRemove1T (sch.rev a) x o t
  | _, _ => .error (.noSuchAttr, t)

def deleteT (sch : Schema) (ct : ClassTable) (guard : Bool) : Nat → List ObjId → ObjId → T → RT
  | 0, _, _, t => .error (.recursionError, t)
  | fuel + 1, P, o, t =>
    if guard && P.contains o then .ok t else
    if !t.store.alive o then .ok t else
    let attrs := ct (t.store.ent o)
    match iterET (collStepT sch (fun x t => deleteT sch ct guard fuel (o :: P) x t) o) attrs t with
    | .error e => .error e
    | .ok t1 =>
      match iterET (refStepT sch guard (fun x t => deleteT sch ct guard fuel (o :: P) x t) o) attrs t1 with
      | .error e => .error e
      | .ok t2 =>
        if !t2.store.alive o then .ok t2
        else .ok ⟨t2.store.setAlive o false, .alive o :: t2.trail⟩             -- undo_funcs.append(undo_func) right before the bookkeeping

/-- forget the trail -/
def RT.erase : RT → R
  | .ok t => .ok t.store
  | .error (e, _) => .error e

/-- `Entity.delete()` as the code does it: on failure run the undo list on the store as it is at that point -/
def deleteTopT (sch : Schema) (ct : ClassTable) (guard : Bool) (s : Store) (o : ObjId) : Store × Option Err :=
  if o < s.n then
    match deleteT sch ct guard (fuelOf sch s) [] o ⟨s, []⟩ with
    | .ok t => (t.store, none)
    | .error (e, t) => (undoAll t.trail t.store, some e)
  else (s, some .noSuchObject)

/-! ## 4. Database side: ON DELETE clauses, bulk delete, commit -/

inductive OnDelete
  | cascade | setNull | noAction
deriving DecidableEq, Repr

/-- `generate_mapping`, FK of a reference attribute with columns (`d`) towards the entity of its reverse (`rd`):
    `if attr.reverse.cascade_delete: CASCADE  elif isinstance(attr, Optional) and attr.nullable: SET NULL  else: None` -/
def onDelete (d rd : Side) : OnDelete :=
  if rd.cascade then .cascade else if !d.required then .setNull else .noAction

/-- both foreign keys of a many-to-many link table: `on_delete = 'CASCADE'` -/
def linkOnDelete : OnDelete := .cascade

/-- committed rows: one row per object id, FK columns for the attributes that hold a column, link-table rows per relationship -/
structure Db where
  n : Nat
  ent : ObjId → EntId
  row : ObjId → Bool
  col : ObjId → Attr → Option ObjId
  link : Attr → ObjId → ObjId → Bool          -- link rows of the many-to-many attribute `c` (side a of its relationship): (owner, item)

def holdsCol (sch : Schema) (a : Attr) : Bool :=
  match sch.side a with
  | some d => !d.isColl && d.hasCol
  | none => false

/-- is `c` the attribute under which the link rows of a many-to-many relationship are kept (side a) -/
def isLinkAttr (sch : Schema) (c : Attr) : Bool :=
  match sch.side c, sch.side (sch.rev c) with
  | some d, some rd => d.isColl && rd.isColl && !c.side
  | _, _ => false

/-- what a successful commit leaves in the database for a session that holds everything loaded -/
def commit (sch : Schema) (s : Store) : Db where
  n := s.n
  ent := s.ent
  row o := decide (o < s.n) && s.alive o
  col o a := if o < s.n ∧ s.alive o = true ∧ holdsCol sch a = true then s.ref o a else none
  link c p q := decide (p < s.n) && s.alive p && isLinkAttr sch c && s.mem p c q

def onDeleteOf (sch : Schema) (a : Attr) : OnDelete :=
  match sch.side a, sch.side (sch.rev a) with
  | some d, some rd => onDelete d rd
  | _, _ => .noAction

/-- one round of ON DELETE CASCADE: rows whose cascading FK points to a row of `D` join `D` -/
def cascadeRound (sch : Schema) (db : Db) (D : List ObjId) : List ObjId :=
  (List.range db.n).filter fun c => D.contains c || (db.row c && sch.allAttrs.any fun a =>
    holdsCol sch a && onDeleteOf sch a == .cascade && match db.col c a with
      | some p => D.contains p
      | none => false)

def cascadeClosure (sch : Schema) (db : Db) : Nat → List ObjId → List ObjId
  | 0, D => D
  | k + 1, D => cascadeClosure sch db k (cascadeRound sch db D)

/-- `DELETE FROM t WHERE ...` hitting the rows `rows`, under the generated ON DELETE clauses with immediate foreign keys:
    `none` = the statement is refused (a key without SET NULL still points to a deleted row at the end of the statement) -/
def dbDelete (sch : Schema) (db : Db) (rows : List ObjId) : Option Db :=
  let D := cascadeClosure sch db db.n ((List.range db.n).filter fun o => db.row o && rows.contains o)
  let col := fun o a => match db.col o a with
    | some p => if D.contains p && onDeleteOf sch a == .setNull then none else some p
    | none => none
  let bad := (List.range db.n).any fun c => db.row c && !D.contains c && sch.allAttrs.any fun a =>
    match col c a with
    | some p => D.contains p
    | none => false
  if bad then none
  else some { db with row := fun o => db.row o && !D.contains o,
                      col := fun o a => if D.contains o then none else col o a,
                      link := fun c p q => db.link c p q && !D.contains p && !D.contains q }

/-! ### an executable ranking of the cascade graph (longest cascade path, cut at `n`) -/

/-- `p` holds `q` under an attribute with cascade_delete -/
def edgeB (sch : Schema) (s : Store) (p q : ObjId) : Bool :=
  sch.allAttrs.any fun b => sch.isCascade b && hasB sch s p b q

def maxL : List Nat → Nat
  | [] => 0
  | x :: xs => max x (maxL xs)

/-- length of the longest cascade path from `p`, cut at `k` steps -/
def depth (sch : Schema) (s : Store) : Nat → ObjId → Nat
  | 0, _ => 0
  | k + 1, p => maxL (((List.range s.n).filter (edgeB sch s p)).map fun q => depth sch s k q + 1)

/-- does `depth n` strictly decrease along every cascade edge between existing objects (true iff the cascade graph has no cycle) -/
def isRankedB (sch : Schema) (s : Store) : Bool :=
  (List.range s.n).all fun p => (List.range s.n).all fun q => !edgeB sch s p q || decide (depth sch s s.n q < depth sch s s.n p)

/-! ### executable observations (driver, `example`s) -/

def refsOf (sch : Schema) (ct : ClassTable) (s : Store) (o : ObjId) : List (Attr × Option ObjId) :=
  ((ct (s.ent o)).filter fun a => match sch.side a with
    | some d => !d.isColl
    | none => false).map fun a => (a, s.ref o a)

def collsOf (sch : Schema) (ct : ClassTable) (s : Store) (o : ObjId) : List (Attr × List ObjId) :=
  ((ct (s.ent o)).filter fun a => match sch.side a with
    | some d => d.isColl
    | none => false).map fun a => (a, s.members o a)

/-- executable forms of the session invariants: both ends agree for live objects; no live object holds a dead one -/
def checkAgree (sch : Schema) (s : Store) : Bool :=
  (List.range s.n).all fun p => sch.allAttrs.all fun b => (List.range s.n).all fun q =>
    !(s.alive p && hasB sch s p b q) || hasB sch s q (sch.rev b) p

def checkNoDangling (sch : Schema) (s : Store) : Bool :=
  (List.range s.n).all fun p => sch.allAttrs.all fun b => (List.range s.n).all fun q =>
    !(s.alive p && hasB sch s p b q) || s.alive q

def checkFk (sch : Schema) (db : Db) : Bool :=
  ((List.range db.n).all fun o => sch.allAttrs.all fun a => match db.col o a with
    | some p => db.row o && db.row p
    | none => true) &&
  (sch.allAttrs.all fun c => (List.range db.n).all fun p => (List.range db.n).all fun q =>
    !db.link c p q || (db.row p && db.row q))

end PonyVerif.Model.Cascade
