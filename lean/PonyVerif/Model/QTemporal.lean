/-
  Engine Q, part 8 (C02): date / time values on SQLite — the text an INLINE constant gets (`SQLiteValue.__str__`, modelled by the C06
  owner's `temporalStr` in Model/SqlText.lean, imported read-only) and the text a bound parameter / stored value gets
  (`SQLiteDatetimeConverter.py2sql` = `datetime2timestamp`, `SQLiteDateConverter.py2sql` / `SQLiteTimeConverter.py2sql` = `isoformat()`).
  SQLite compares these columns as TEXT, so a query with an inline constant and the same query with a parameter agree iff the two
  texts are the same.   Core Lean only.
-/
import PonyVerif.Model.SqlText
namespace PonyVerif.Model.Q
open PonyVerif.Model.SqlText

/-- the text of a bound parameter / a stored value on SQLite (`none`: timedelta is stored as a float number of days) -/
def sqliteParamText : TVal → Option Str
  | .datetime x t => some (timestampStr x t)
  | .date x => some (dateStr x)
  | .time t => some (isoTime t)
  | .delta _ => none

end PonyVerif.Model.Q
