/-
  C22 — the memo protocol of Pony's process-wide caches (`string2ast_cache`, `ast_cache`, `extractors_cache`,
  `adapted_sql_cache`, `Database._constructed_sql_cache`, the entity-level SQL caches) under concurrent THREADS.

  `PonyVerif/Model/Memo.lean` (C05) describes one call through such a cache as ONE atomic step; here the call of a thread is
  split at the operations on the shared dict, as the code executes them:
        v = cache.get(key(i))            -- atomic
        [accepted hit: return v]         -- thread-local
        [rejected hit: cache.pop(key(i), None)]   -- atomic (translator cache only)
        v = compute(i)                   -- thread-local
        [cacheable:] cache[skey(i)] = v  -- atomic
  `early = true` is the variant in which the miss branch publishes its object BEFORE it has finished building it
  (`cache[skey(i)] = unfinished(i)`, then the object is completed in place -- visible to every thread that looked it up in
  between); `early = false` is a miss branch whose store is the last thing it does to the object.  Which of the two the
  code is, is read off the source on every run (harness/gen_c22.py -> Gen/StoreLast.lean).
  Any number of threads, any schedule.  The `Memo` record (key, skey, compute, accept, cacheable, popOnReject) and the
  table operations are those of the C05 model.  Core Lean only (linked into the driver).
-/
import PonyVerif.Model.Memo
namespace PonyVerif.Model.SharedMemo
open PonyVerif.Model.Memo

inductive Phase (V : Type)
  | idle                      -- before `cache.get`
  | needPop                   -- a rejected hit, before `cache.pop(key, None)`
  | needStore (v : V) (fill : Option V)   -- before `cache[skey] = v`; `fill = some w`: `v` is unfinished, `w` the finished value
  | needFill (w : V)          -- published unfinished: before the in-place completion becomes visible

structure Thread (I V : Type) where
  todo : List I
  phase : Phase V
  /-- the values the calls of this thread returned -/
  results : List (I × V)

inductive Ev | none | hit | miss | reject | popped (found : Bool) | stored | filled
  deriving DecidableEq, Repr

def finish {I V : Type} (th : Thread I V) (i : I) (rest : List I) (v : V) : Thread I V :=
  ⟨rest, .idle, th.results ++ [(i, v)]⟩

/-- after the miss / the pop: compute, then publish or return -/
def afterMiss {I K V : Type} (m : Memo I K V) (early : Bool) (part : I → V) (th : Thread I V) (i : I) (rest : List I) : Thread I V :=
  if m.cacheable i then
    (if early then { th with phase := .needStore (part i) (some (m.compute i)) }
     else { th with phase := .needStore (m.compute i) none })
  else finish th i rest (m.compute i)

/-- one atomic step of one thread on the shared table -/
def tstepG {I K V : Type} [DecidableEq K] (m : Memo I K V) (early : Bool) (part : I → V) (t : Table K V) (th : Thread I V) :
    Table K V × Thread I V × Ev :=
  match th.todo with
  | [] => (t, th, .none)
  | i :: rest =>
    match th.phase with
    | .idle =>
      match tget (m.key i) t with
      | none => (t, afterMiss m early part th i rest, .miss)
      | some v =>
        if m.accept i v then (t, finish th i rest v, .hit)
        else if m.popOnReject i v then (t, { th with phase := .needPop }, .reject)
        else (t, afterMiss m early part th i rest, .reject)
    | .needPop => (tdel (m.key i) t, afterMiss m early part th i rest, .popped (tget (m.key i) t).isSome)
    | .needStore v none => (tset (m.skey i) v t, finish th i rest v, .stored)
    | .needStore v (some w) => (tset (m.skey i) v t, { th with phase := .needFill w }, .stored)
    | .needFill w => (tset (m.skey i) w t, finish th i rest w, .filled)

structure State (I K V : Type) where
  table : Table K V
  th : Nat → Thread I V

/-- the code with a miss branch that stores last -/
def tstep {I K V : Type} [DecidableEq K] (m : Memo I K V) (t : Table K V) (th : Thread I V) : Table K V × Thread I V × Ev :=
  tstepG m false m.compute t th

def stepG {I K V : Type} [DecidableEq K] (m : Memo I K V) (early : Bool) (part : I → V) (s : State I K V) (t : Nat) :
    State I K V × Ev :=
  let r := tstepG m early part s.table (s.th t)
  (⟨r.1, fun x => if x = t then r.2.1 else s.th x⟩, r.2.2)

def runG {I K V : Type} [DecidableEq K] (m : Memo I K V) (early : Bool) (part : I → V) : State I K V → List Nat → State I K V × List Ev
  | s, [] => (s, [])
  | s, t :: sched =>
    let r := stepG m early part s t
    let r2 := runG m early part r.1 sched
    (r2.1, r.2 :: r2.2)

def step {I K V : Type} [DecidableEq K] (m : Memo I K V) (s : State I K V) (t : Nat) : State I K V × Ev :=
  let r := tstep m s.table (s.th t)
  (⟨r.1, fun x => if x = t then r.2.1 else s.th x⟩, r.2.2)

def run {I K V : Type} [DecidableEq K] (m : Memo I K V) : State I K V → List Nat → State I K V × List Ev
  | s, [] => (s, [])
  | s, t :: sched =>
    let r := step m s t
    let r2 := run m r.1 sched
    (r2.1, r.2 :: r2.2)

def State.init {I K V : Type} (progs : List (List I)) : State I K V :=
  ⟨[], fun t => ⟨progs.getD t [], .idle, []⟩⟩

end PonyVerif.Model.SharedMemo
