/-
  C34 — hand model of the permission machinery of `pony/orm/core.py`:
  `Database.set_perms_for`, `perm`, `AccessRule.__init__/exclude`, `has_perm`, `can_view/can_edit/can_create/can_delete`,
  `get_user_groups/get_user_roles/get_object_labels`, the object filter of `Database.to_json` and the entity/attribute
  filter of `Database._get_schema_dict`.

  What is mirrored as written:
  * `set_perms_for(*entities)`: `entity_set = set(entities); entity_set.update(entity._subclasses_)`.
  * `AccessRule.__init__`: `'anybody'` is added to `rule.groups`; the rule is registered in `entity._access_rules_[perm]`
    for every entity of the context and every permission (here: `accessRules` filters the global rule list — the set
    `entity._access_rules_[perm]` is exactly `{r | entity ∈ r.entities ∧ perm ∈ r.permissions}`; rules are shared mutable
    objects, so a later `exclude` is seen through every registration — the model takes the rules in their final state).
  * `AccessRule.exclude`: an entity argument excludes the entity and `entity._subclasses_`; an attribute argument is
    refused for primary-key attributes.
  * `has_perm`: hidden attributes, the early `return False` when the entity has no rule for the permission, the
    per-session `perm_cache` READ with key `x` and WRITTEN with key `perm` (as coded), and the three loops with their
    `break`/`continue` structure (the reverse-side lookup sits inside the loop over the forward rules).
  * `get_user_groups` / `get_user_roles` with the per-THREAD dicts `local.user_groups_cache` / `local.user_roles_cache`, and
    `DBSessionContextManager._commit_or_rollback`, which clears both in its `finally:` on every kind of exit (`hasPermS`,
    `exitSession`, `runThread`: histories of db_sessions with the world changing between sessions).
  * the iteration order of `entity._access_rules_[perm]` (a Python `set`) is arbitrary: the model iterates a list, and
    `Props/C34.lean` proves the answer invariant under permutation.
  Core Lean only.
-/
namespace PonyVerif.Model.Perm

/-- an entity instance: its class and an identity (primary key) -/
structure Obj where
  entity : Nat
  key : Nat
  deriving DecidableEq, Repr

/-- an `Attribute` as `has_perm` sees it: `attr.entity` (the DECLARING entity, also when reached through a subclass),
    `attr.hidden`, `attr.pk_offset is not None`, and `attr.reverse` resolved to (reverse attribute id, `reverse.entity`) -/
structure AttrRef where
  id : Nat
  entity : Nat
  hidden : Bool
  pk : Bool
  reverse : Option (Nat × Nat)
  deriving DecidableEq, Repr

/-- the third argument of `has_perm` -/
inductive Target where
  | entity (e : Nat)
  | attr (a : AttrRef)
  | obj (o : Obj)
  deriving DecidableEq, Repr

structure Rule where
  entities : List Nat          -- `rule.entities` (the `set_perms_for` context, closed under subclasses)
  perms : List String          -- `rule.permissions`
  groups : List String         -- `rule.groups` (contains 'anybody')
  roles : List String
  labels : List String
  exclE : List Nat             -- `rule.entities_to_exclude`
  exclA : List Nat             -- `rule.attrs_to_exclude` (attribute ids)
  deriving DecidableEq, Repr

/-- `entity_set` of `Database.set_perms_for(*entities)`; `sub e` = `e._subclasses_` (all descendants) -/
def setPermsFor (sub : Nat → List Nat) (ents : List Nat) : List Nat :=
  ents ++ ents.flatMap sub

/-- `perm(*perms, group=…, role=…, label=…)` → `AccessRule.__init__` -/
def mkRule (entitySet : List Nat) (perms groups roles labels : List String) : Except String Rule :=
  if perms.isEmpty then .error "TypeError"
  else .ok { entities := entitySet, perms := perms, groups := "anybody" :: groups, roles := roles, labels := labels,
             exclE := [], exclA := [] }

inductive ExclArg where
  | entity (e : Nat)
  | attr (a : AttrRef)

/-- `AccessRule.exclude(arg)` (one argument) -/
def Rule.exclude (sub : Nat → List Nat) (r : Rule) : ExclArg → Except String Rule
  | .entity e => .ok { r with exclE := e :: (sub e ++ r.exclE) }
  | .attr a => if a.pk then .error "TypeError" else .ok { r with exclA := a.id :: r.exclA }

/-- `entity._access_rules_.get(perm)` as a list (the Python value is a set; `[]` stands for `None`/empty) -/
def accessRules (rules : List Rule) (e : Nat) (perm : String) : List Rule :=
  rules.filter (fun r => r.entities.contains e && r.perms.contains perm)

/-- `b.issuperset(a)` -/
def subset (a b : List String) : Bool := a.all (fun x => b.contains x)

/-- the provider functions registered with `user_groups_getter / user_roles_getter / obj_labels_getter` (inputs) and
    which entity instance a user IS (for the role `'self'`) -/
structure Env where
  rules : List Rule
  groupsOf : Nat → List String
  rolesOf : Nat → Obj → List String
  labelsOf : Obj → List String
  userObj : Nat → Option Obj

/-- users: `none` = `None` (anonymous) -/
abbrev User := Option Nat

/-- `get_user_groups(user)` -/
def getUserGroups (env : Env) : User → List String
  | none => ["anybody"]
  | some u => "anybody" :: env.groupsOf u

/-- `get_user_roles(user, obj)` -/
def getUserRoles (env : Env) (user : User) (o : Obj) : List String :=
  match user with
  | none => []
  | some u => (if env.userObj u = some o then ["self"] else []) ++ env.rolesOf u o

/-- `get_object_labels(obj)` -/
def getObjectLabels (env : Env) (o : Obj) : List String := env.labelsOf o

/-! ### the getter registries: `usergroup_functions` and how an answer is folded into the result

`for cls, func in usergroup_functions: if cls is None or isinstance(user, cls): groups = func(user); …` — a getter may
answer a single name (a `str`, added as ONE name, never split), `None` (nothing) or an iterable (all its names). -/

inductive Answer where
  | single (s : String)
  | nothing
  | many (l : List String)
  deriving DecidableEq, Repr

/-- `result.add(groups)` / nothing / `result.update(groups)` -/
def collect (acc : List String) : Answer → List String
  | .single s => acc ++ [s]
  | .nothing => acc
  | .many l => acc ++ l

/-- the loop over the registered getters, in registration order: `(cls is None or isinstance(user, cls), func(user))` -/
def foldGetters (gs : List (Bool × Answer)) : List String :=
  gs.foldl (fun acc g => if g.1 then collect acc g.2 else acc) []

/-- `get_user_groups` for a user that is not None and not cached: `{'anybody'}` plus what the applicable getters answer -/
def groupsFromGetters (gs : List (Bool × Answer)) : List String := "anybody" :: foldGetters gs

/-- `get_user_roles(user, obj)` for a user that is not None and not cached: `'self'` when the user IS the object, plus what
    the applicable getters of `userrole_functions` answer; a getter applies when
    `(user_cls is None or isinstance(user, user_cls)) and (obj_cls is None or isinstance(obj, obj_cls))` -/
def rolesFromGetters (isSelf : Bool) (gs : List (Bool × Answer)) : List String :=
  (if isSelf then ["self"] else []) ++ foldGetters gs

/-- `get_object_labels(obj)` (not cached): what the applicable getters of `objlabel_functions` answer -/
def labelsFromGetters (gs : List (Bool × Answer)) : List String := foldGetters gs

/-! ### the three loops of `has_perm` -/

/-- `for rule in access_rules: if user_groups.issuperset(rule.groups) and entity not in rule.entities_to_exclude: result = True; break` -/
def entityLoop (ug : List String) (e : Nat) : List Rule → Bool
  | [] => false
  | r :: rs => if subset r.groups ug && !r.exclE.contains e then true else entityLoop ug e rs

/-- the inner `for reverse_rule in reverse_rules` -/
def reverseLoop (ug : List String) (re ra : Nat) : List Rule → Bool
  | [] => false
  | r :: rs =>
    if subset r.groups ug && !r.exclE.contains re && !r.exclA.contains ra then true else reverseLoop ug re ra rs

/-- the attribute branch: `revRules` = `reverse.entity._access_rules_.get(perm)` (looked up anew in every iteration) -/
def attrLoop (ug : List String) (e a : Nat) (reverse : Option (Nat × Nat)) (revRules : List Rule) : List Rule → Bool
  | [] => false
  | r :: rs =>
    if subset r.groups ug && !r.exclE.contains e && !r.exclA.contains a then true      -- result = True; break
    else match reverse with
      | none => attrLoop ug e a reverse revRules rs
      | some (ra, re) =>
        if revRules.isEmpty then attrLoop ug e a reverse revRules rs                   -- `continue`
        else if reverseLoop ug re ra revRules then true                               -- `if result: break`
        else attrLoop ug e a reverse revRules rs

/-- the object branch -/
def objLoop (ug ur ol : List String) (e : Nat) : List Rule → Bool
  | [] => false
  | r :: rs =>
    if r.exclE.contains e then objLoop ug ur ol e rs                                  -- `continue`
    else if !subset r.groups ug then objLoop ug ur ol e rs                            -- `pass`
    else if !subset r.roles ur then objLoop ug ur ol e rs
    else if !subset r.labels ol then objLoop ug ur ol e rs
    else true

/-! ### the per-session cache `cache.perm_cache[user][perm]` -/

/-- keys of the innermost dict: it is read with `x` and written with `perm` -/
inductive CKey where
  | x (t : Target)
  | perm (p : String)
  deriving DecidableEq, Repr

/-- `cache.perm_cache` flattened: (user, perm, key) ↦ result; newest binding first -/
abbrev Cache := List ((User × String × CKey) × Bool)

def Cache.get (c : Cache) (k : User × String × CKey) : Option Bool := c.lookup k
def Cache.set (c : Cache) (k : User × String × CKey) (v : Bool) : Cache := (k, v) :: c

def Target.entityOf : Target → Nat
  | .entity e => e
  | .attr a => a.entity
  | .obj o => o.entity

/-- `isinstance(x, Attribute) and x.hidden` -/
def Target.hidden : Target → Bool
  | .attr a => a.hidden
  | _ => false

/-- the part of `has_perm` after the cache miss -/
def evalRules (env : Env) (user : User) (perm : String) (x : Target) (ar : List Rule) : Bool :=
  let ug := getUserGroups env user
  match x with
  | .entity e => entityLoop ug e ar
  | .attr a =>
    attrLoop ug a.entity a.id a.reverse
      (match a.reverse with | some (_, re) => accessRules env.rules re perm | none => []) ar
  | .obj o => objLoop ug (getUserRoles env user o) (getObjectLabels env o) o.entity ar

/-- `has_perm(user, perm, x)` with the session's `perm_cache` threaded through -/
def hasPermC (env : Env) (c : Cache) (user : User) (perm : String) (x : Target) : Bool × Cache :=
  if x.hidden then (false, c)                                           -- `if x.hidden: return False`
  else
    let ar := accessRules env.rules x.entityOf perm
    if ar.isEmpty then (false, c)                                       -- `if not access_rules: return False`
    else match c.get (user, perm, .x x) with                            -- `result = perm_cache.get(x)`
      | some r => (r, c)
      | none =>
        let result := evalRules env user perm x ar
        (result, c.set (user, perm, .perm perm) result)                 -- `perm_cache[perm] = result`

/-- `has_perm` in a fresh session -/
def hasPerm (env : Env) (user : User) (perm : String) (x : Target) : Bool := (hasPermC env [] user perm x).1

/-- `can_view`: `has_perm(user, 'view', x) or has_perm(user, 'edit', x)` (short-circuit) -/
def canViewC (env : Env) (c : Cache) (user : User) (x : Target) : Bool × Cache :=
  let (r, c1) := hasPermC env c user "view" x
  if r then (true, c1) else hasPermC env c1 user "edit" x
def canEditC (env : Env) (c : Cache) (user : User) (x : Target) := hasPermC env c user "edit" x
def canCreateC (env : Env) (c : Cache) (user : User) (x : Target) := hasPermC env c user "create" x
def canDeleteC (env : Env) (c : Cache) (user : User) (x : Target) := hasPermC env c user "delete" x

def canView (env : Env) (user : User) (x : Target) : Bool := (canViewC env [] user x).1
def canEdit (env : Env) (user : User) (x : Target) : Bool := (canEditC env [] user x).1
def canCreate (env : Env) (user : User) (x : Target) : Bool := (canCreateC env [] user x).1
def canDelete (env : Env) (user : User) (x : Target) : Bool := (canDeleteC env [] user x).1

/-- a whole session: a sequence of `has_perm` calls on one cache; returns the answers -/
def runCalls (env : Env) : Cache → List (User × String × Target) → List Bool
  | _, [] => []
  | c, (u, p, x) :: rest =>
    let (r, c1) := hasPermC env c u p x
    r :: runCalls env c1 rest

/-! ### the per-THREAD caches `local.user_groups_cache` / `local.user_roles_cache` and the life of a db_session

`get_user_groups` and `get_user_roles` as coded: they answer from thread-local dicts that outlive the session cache
(`cache.perm_cache` dies with the SessionCache); `DBSessionContextManager._commit_or_rollback` clears both dicts in its
`finally:` — on every exit, whether the session commits, rolls back, or its commit fails. -/

structure Local where
  groups : List (Nat × List String)             -- `local.user_groups_cache`: user ↦ frozenset (None is never stored)
  roles : List ((Nat × Obj) × List String)      -- `local.user_roles_cache[user][obj]`
  deriving Repr

/-- `get_user_groups(user)` with `local.user_groups_cache` -/
def getUserGroupsL (env : Env) (l : Local) : User → List String × Local
  | none => (["anybody"], l)                    -- `cache.get(None)` misses, then `return anybody_frozenset`
  | some u =>
    match l.groups.lookup u with
    | some r => (r, l)                          -- `if result is not None: return result`
    | none =>
      let r := "anybody" :: env.groupsOf u
      (r, { l with groups := (u, r) :: l.groups })

/-- `get_user_roles(user, obj)` with `local.user_roles_cache[user]` -/
def getUserRolesL (env : Env) (l : Local) (user : User) (o : Obj) : List String × Local :=
  match user with
  | none => ([], l)
  | some u =>
    match l.roles.lookup (u, o) with
    | some r => (r, l)
    | none =>
      let r := (if env.userObj u = some o then ["self"] else []) ++ env.rolesOf u o
      (r, { l with roles := ((u, o), r) :: l.roles })

/-- the state a `has_perm` call sees: the session's `perm_cache` and the thread's caches -/
structure Sess where
  perm : Cache
  loc : Local
  labels : List (Obj × List String)           -- `cache.obj_labels_cache` (lives and dies with the SessionCache)

/-- `get_object_labels(obj)` with the session's `obj_labels_cache` -/
def getObjectLabelsL (env : Env) (lc : List (Obj × List String)) (o : Obj) : List String × List (Obj × List String) :=
  match lc.lookup o with
  | some r => (r, lc)                           -- `if result is None:` … else the cached set
  | none =>
    let r := env.labelsOf o
    (r, (o, r) :: lc)

/-- `has_perm(user, perm, x)` with all three caches threaded through -/
def hasPermS (env : Env) (s : Sess) (user : User) (perm : String) (x : Target) : Bool × Sess :=
  if x.hidden then (false, s)
  else
    let ar := accessRules env.rules x.entityOf perm
    if ar.isEmpty then (false, s)
    else match s.perm.get (user, perm, .x x) with
      | some r => (r, s)
      | none =>
        let (ug, l1) := getUserGroupsL env s.loc user                       -- `user_groups = get_user_groups(user)`
        let (result, l2, lab2) : Bool × Local × List (Obj × List String) := match x with
          | .entity e => (entityLoop ug e ar, l1, s.labels)
          | .attr a =>
            (attrLoop ug a.entity a.id a.reverse
              (match a.reverse with | some (_, re) => accessRules env.rules re perm | none => []) ar, l1, s.labels)
          | .obj o =>
            let (ur, l2) := getUserRolesL env l1 user o                     -- `user_roles = get_user_roles(user, obj)`
            let (ol, lab2) := getObjectLabelsL env s.labels o               -- `obj_labels = get_object_labels(obj)`
            (objLoop ug ur ol o.entity ar, l2, lab2)
        (result, { perm := s.perm.set (user, perm, .perm perm) result, loc := l2, labels := lab2 })

/-- how a db_session ends -/
inductive ExitKind where
  | commit            -- normal exit or an allowed exception: `commit()` succeeds
  | rollback          -- a non-allowed exception: `rollback()`
  | commitFails       -- `commit()` raises
  deriving DecidableEq, Repr

/-- `_commit_or_rollback`: whatever branch of the `try:` ran, the `finally:` clears both thread-local dicts -/
def exitSession (k : ExitKind) (l : Local) : Local :=
  let l1 := match k with
    | .commit => l            -- `commit(); cache.release()`
    | .rollback => l          -- `rollback()`
    | .commitFails => l       -- `commit()` raised; control goes to `finally:`
  { l1 with groups := [], roles := [] }          -- `local.user_groups_cache.clear(); local.user_roles_cache.clear()`

/-- the variant that clears only after a successful commit (NOT the code; used to show the theorem is sensitive) -/
def exitSessionCommitOnly (k : ExitKind) (l : Local) : Local :=
  match k with
  | .commit => { l with groups := [], roles := [] }
  | _ => l

/-- the calls of one session, on the thread's caches; a new SessionCache (empty `perm_cache`) per session -/
def runSessionCalls (env : Env) : Sess → List (User × String × Target) → List Bool × Sess
  | s, [] => ([], s)
  | s, (u, p, x) :: rest =>
    let (r, s1) := hasPermS env s u p x
    let (rs, s2) := runSessionCalls env s1 rest
    (r :: rs, s2)

/-- a thread's life: a sequence of db_sessions; between two sessions the world (what the getters answer, even the
    rules) may change — `env` is per session -/
def runThreadWith (exit : ExitKind → Local → Local) :
    Local → List (Env × List (User × String × Target) × ExitKind) → List (List Bool)
  | _, [] => []
  | l, (env, calls, k) :: rest =>
    let (rs, s) := runSessionCalls env { perm := [], loc := l, labels := [] } calls
    rs :: runThreadWith exit (exit k s.loc) rest

def runThread := runThreadWith exitSession

/-! ### `Database.to_json`: which objects reach the output -/

inductive JErr where
  | permission (o : Obj)       -- `user_has_no_rights_to_see(obj)` → PermissionError
  | fuel
  deriving DecidableEq, Repr

/-- `obj_converter` over the entity instances met by `json.dumps(data, default=obj_converter)`, in order:
    each must pass `can_view`, then joins `object_set` -/
def convertData (env : Env) (user : User) : Cache → List Obj → List Obj → Except JErr (List Obj × Cache)
  | c, [], set => .ok (set, c)
  | c, o :: rest, set =>
    let (ok, c1) := canViewC env c user (.obj o)
    if !ok then .error (.permission o)
    else convertData env user c1 rest (if set.contains o then set else set ++ [o])

/-- `for obj in object_list:` (the list grows while it is iterated): `can_view` is asked again for every object,
    then the objects reached through included collection / relation attributes (`related obj`, in attribute order)
    that are not yet in `object_set` are appended.  `fuel` bounds the iteration (the real loop ends because the
    session holds finitely many objects). -/
def walk (env : Env) (user : User) (related : Obj → List Obj) :
    Nat → Cache → (pending seen out : List Obj) → Except JErr (List Obj)
  | _, _, [], _, out => .ok out.reverse
  | 0, _, _ :: _, _, _ => .error .fuel
  | fuel + 1, c, o :: rest, seen, out =>
    let (ok, c1) := canViewC env c user (.obj o)
    if !ok then .error (.permission o)
    else
      let new := (related o).eraseDups.filter (fun i => !seen.contains i)
      walk env user related fuel c1 (rest ++ new) (seen ++ new) (o :: out)

/-- the objects of the `"objects"` part of `to_json(data, include=…)`, or the PermissionError -/
def toJsonObjects (env : Env) (user : User) (related : Obj → List Obj) (fuel : Nat) (data : List Obj) :
    Except JErr (List Obj) :=
  match convertData env user [] data [] with
  | .error e => .error e
  | .ok (set, c) => walk env user related fuel c set set []

/-! ### `Database._get_schema_dict`: which entities / attributes are listed -/

/-- an attribute is listed iff it is viewable and, for a relationship, the reverse entity and reverse attribute are -/
def schemaAttrListed (env : Env) (user : User) (a : AttrRef) (reverseRef : Option AttrRef) : Bool :=
  if !canView env user (.attr a) then false
  else match reverseRef with
    | none => true
    | some r => if !canView env user (.entity r.entity) then false else canView env user (.attr r)

def schemaEntities (env : Env) (user : User) (ents : List Nat) : List Nat :=
  ents.filter (fun e => canView env user (.entity e))

end PonyVerif.Model.Perm
