/-
  SQL aggregates over a column of nullable integers as Pony uses them (Query.count/sum/min/max, `distinct=` flag,
  NULL rules: aggregates skip NULL; SUM of nothing is NULL which Pony turns into 0; COUNT of a scalar projection
  defaults to DISTINCT), DISTINCT as order-preserving de-duplication, bulk delete as a filter, and ORDER BY + LIMIT 1.
  Core Lean only.  Tied to the real code by the differential run of engines/c24.py (ops `aggr`).
-/
namespace PonyVerif.Model.Aggr

/-- order-preserving de-duplication (SELECT DISTINCT keeps one copy of each value) -/
def dedup [DecidableEq α] : List α → List α
  | [] => []
  | x :: xs => if x ∈ dedup xs then dedup xs else x :: dedup xs

/-- the non-NULL values an aggregate looks at -/
def nonNull (col : List (Option Int)) : List Int := col.filterMap id

/-- the operand list of an aggregate: NULLs skipped, de-duplicated when DISTINCT -/
def operand (col : List (Option Int)) (distinct : Bool) : List Int :=
  if distinct then dedup (nonNull col) else nonNull col

/-- `COUNT([DISTINCT] col)` -/
def sqlCount (col : List (Option Int)) (distinct : Bool) : Nat := (operand col distinct).length

/-- `SUM([DISTINCT] col)`: NULL for no operand -/
def sqlSum (col : List (Option Int)) (distinct : Bool) : Option Int :=
  match operand col distinct with
  | [] => none
  | l => some l.sum

/-- Pony's `q.sum()`: a NULL result becomes 0 (core.py `_aggregate`) -/
def ponySum (col : List (Option Int)) (distinct : Bool) : Int := (sqlSum col distinct).getD 0

def sqlMin (col : List (Option Int)) : Option Int := (nonNull col).min?
def sqlMax (col : List (Option Int)) : Option Int := (nonNull col).max?

/-- `q.count()` on a scalar projection: `distinct=None` means DISTINCT (sqltranslation.construct_sql_ast) -/
def ponyCount (col : List (Option Int)) (distinct : Option Bool) : Nat := sqlCount col (distinct.getD true)

/-- bulk delete: the rows the query selects are removed, the others stay in order -/
def bulkDelete (rows : List α) (selected : α → Bool) : List α × Nat :=
  (rows.filter (fun r => !selected r), (rows.filter selected).length)

/-- `q.first()` = ORDER BY + LIMIT 1 -/
def firstOrdered (rows : List α) (le : α → α → Bool) : Option α := ((rows.mergeSort le).take 1).head?

/-- `AVG([DISTINCT] col)` kept exact as (sum, number of operands); NULL (Python `None`) for no operand.
    Pony returns the float `sum / n`. -/
def sqlAvg (col : List (Option Int)) (distinct : Bool) : Option (Int × Nat) :=
  match operand col distinct with
  | [] => none
  | l => some (l.sum, l.length)

/-- `GROUP_CONCAT(col, sep)` over a nullable string column: the non-NULL values joined by `sep`, NULL for none
    (Python: `sep.join(x for x in R if x is not None)`, `None` for an empty result). -/
def groupConcat (col : List (Option String)) (sep : String) : Option String :=
  match col.filterMap id with
  | [] => none
  | l => some (sep.intercalate l)

/-- multiset inclusion of `res` in `R` -/
def subBag : List Int → List Int → Bool
  | [], _ => true
  | x :: xs, R => R.contains x && subBag xs (R.erase x)

/-- the acceptable outcomes of `q.random(n)` on a query whose full result is `R`:
    `min n |R|` rows, each row of `R` used at most as often as it occurs -/
def isSample (R res : List Int) (n : Nat) : Bool := res.length == min n R.length && subBag res R

/-- comparison by an integer key (ORDER BY key ASC) -/
def byKey (k : α → Int) : α → α → Bool := fun x y => decide (k x ≤ k y)

/-- `q.order_by(a).order_by(b)`: Pony PREPENDS the newer criterion (`order[:0] = new_order`), i.e. ORDER BY b, a;
    on lists: stable sort by `a`, then stable sort by `b` (Python `sorted(sorted(R, key=a), key=b)`) -/
def orderChain (R : List α) (a b : α → Int) : List α := (R.mergeSort (byKey a)).mergeSort (byKey b)

/-- the SQL meaning of `ORDER BY b, a` -/
def LexSorted (a b : α → Int) (S : List α) : Prop :=
  S.Pairwise (fun x y => b x < b y ∨ (b x = b y ∧ a x ≤ a y))

end PonyVerif.Model.Aggr
