/-
  SQL aggregates over a column of nullable integers as Pony uses them (Query.count/sum/min/max, `distinct=` flag,
  NULL rules: aggregates skip NULL; SUM of nothing is NULL which Pony turns into 0; COUNT of a scalar projection
  defaults to DISTINCT), DISTINCT as order-preserving de-duplication, bulk delete as a filter, and ORDER BY + LIMIT 1.
  Core Lean only.  Tied to the real code by the differential run of engines/c24.py (ops `aggr`).
-/
namespace PonyVerif.Model.Aggr

/-- order-preserving de-duplication (SELECT DISTINCT keeps one copy of each value) -/
def dedup : List Int → List Int
  | [] => []
  | x :: xs => if x ∈ dedup xs then dedup xs else x :: dedup xs

/-- the non-NULL values an aggregate looks at -/
def nonNull (col : List (Option Int)) : List Int := col.filterMap id

/-- the operand list of an aggregate: NULLs skipped, de-duplicated when DISTINCT -/
def operand (col : List (Option Int)) (distinct : Bool) : List Int :=
  if distinct then dedup (nonNull col) else nonNull col

/-- `COUNT([DISTINCT] col)` -/
def sqlCount (col : List (Option Int)) (distinct : Bool) : Nat := (operand col distinct).length

/-- `SUM([DISTINCT] col)`: NULL for no operand -/
def sqlSum (col : List (Option Int)) (distinct : Bool) : Option Int :=
  match operand col distinct with
  | [] => none
  | l => some l.sum

/-- Pony's `q.sum()`: a NULL result becomes 0 (core.py `_aggregate`) -/
def ponySum (col : List (Option Int)) (distinct : Bool) : Int := (sqlSum col distinct).getD 0

def sqlMin (col : List (Option Int)) : Option Int := (nonNull col).min?
def sqlMax (col : List (Option Int)) : Option Int := (nonNull col).max?

/-- `q.count()` on a scalar projection: `distinct=None` means DISTINCT (sqltranslation.construct_sql_ast) -/
def ponyCount (col : List (Option Int)) (distinct : Option Bool) : Nat := sqlCount col (distinct.getD true)

/-- bulk delete: the rows the query selects are removed, the others stay in order -/
def bulkDelete (rows : List α) (selected : α → Bool) : List α × Nat :=
  (rows.filter (fun r => !selected r), (rows.filter selected).length)

/-- `q.first()` = ORDER BY + LIMIT 1 -/
def firstOrdered (rows : List α) (le : α → α → Bool) : Option α := ((rows.mergeSort le).take 1).head?

end PonyVerif.Model.Aggr
