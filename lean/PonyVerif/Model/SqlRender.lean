/-
  Engine Q, part 3 (C02): the SQL TEXT `SQLBuilder` / `SQLiteBuilder` / `PGSQLBuilder` / `MySQLBuilder` / `OraBuilder` emit for the
  node kinds of the fragment (pony/orm/sqlbuilding.py and dbproviders/*.py), as a pretty-printer over `Model.Q.Sql`.
  Differential only: the engine compares it with the real builders' text for every AST the real translators produce.
  Core Lean only.
-/
import PonyVerif.Model.SqlEval
namespace PonyVerif.Model.Q

inductive RDialect | sqlite | pg | mysql | oracle
  deriving DecidableEq, Repr, Inhabited

def RDialect.ofString? : String → Option RDialect
  | "sqlite" => some .sqlite | "postgres" => some .pg | "mysql" => some .mysql | "oracle" => some .oracle
  | _ => none

/-- `provider.paramstyle` doubles `%` inside literals for format / pyformat -/
def RDialect.percent : RDialect → Bool
  | .pg => true | .mysql => true | _ => false

def RDialect.quote : RDialect → String
  | .mysql => "`"
  | _ => "\""

/-- text fragments; parameters are numbered after flattening (`SQLBuilder.__init__`) -/
inductive Tok
  | s (t : String)
  | p (key : String)
  deriving Repr, Inhabited

def replaceAll (c : Char) (r : String) (s : String) : String :=
  String.join (s.toList.map (fun x => if x = c then r else String.singleton x))

/-- `Value.quote_str` -/
def quoteStr (d : RDialect) (s : String) : String :=
  let s := if d.percent then replaceAll '%' "%%" s else s
  "'" ++ replaceAll '\'' "''" s ++ "'"

def quoteName (d : RDialect) (n : String) : String :=
  d.quote ++ replaceAll (d.quote.toList.headD '"') (d.quote ++ d.quote) n ++ d.quote

/-- `Value.__str__` / `PGValue.__str__` -/
def renderLit (d : RDialect) : Lit → String
  | .null => "null"
  | .bool b => if d == .pg then (if b then "true" else "false") else (if b then "1" else "0")
  | .int i => toString i
  | .str s => quoteStr d s

def cmpSym : CmpOp → String
  | .eq => " = " | .ne => " <> " | .lt => " < " | .le => " <= " | .gt => " > " | .ge => " >= "

def arSym : ArOp → String
  | .add => " + " | .sub => " - " | .mul => " * "

/-- `condition_nodes` of `make_binary_op`: operands that are themselves conditions keep their grouping -/
def isConditionNode : Sql → Bool
  | .cmp _ _ _ => true | .and _ => true | .not _ => true | .isNull _ => true | .isNotNull _ => true
  | .like _ _ _ _ => true | .inList _ _ _ => true
  | _ => false

def joinToks (sep : String) : List (List Tok) → List Tok
  | [] => []
  | [x] => x
  | x :: rest => x ++ [.s sep] ++ joinToks sep rest

mutual
partial def render (d : RDialect) : Sql → List Tok
  | .column n => [.s (quoteName d "e" ++ "." ++ quoteName d n)]
  | .value v => [.s (renderLit d v)]
  | .param n => [.p n]
  | .cmp op a b =>
      (if isConditionNode a then [.s "("] ++ render d a ++ [.s ")"] else render d a) ++ [.s (cmpSym op)] ++
      (if isConditionNode b then [.s "("] ++ render d b ++ [.s ")"] else render d b)
  | .ar op a b => [.s "("] ++ render d a ++ [.s (arSym op)] ++ render d b ++ [.s ")"]
  | .neg a => [.s "-("] ++ render d a ++ [.s ")"]
  | .abs a => [.s "abs("] ++ render d a ++ [.s ")"]
  | .length a => [.s "length("] ++ render d a ++ [.s ")"]
  | .toInt a =>
      match d with
      | .pg => [.s "("] ++ render d a ++ [.s ")::int"]
      | .mysql => [.s "CAST("] ++ render d a ++ [.s " AS SIGNED)"]
      | _ => [.s "CAST("] ++ render d a ++ [.s " AS integer)"]
  | .concat a b =>
      match d with
      | .mysql => [.s "concat("] ++ render d a ++ [.s ", "] ++ render d b ++ [.s ")"]
      | _ => [.s "("] ++ render d a ++ [.s " || "] ++ render d b ++ [.s ")"]
  | .isNull a => render d a ++ [.s " IS NULL"]
  | .isNotNull a => render d a ++ [.s " IS NOT NULL"]
  | .coalesce a b => [.s "coalesce("] ++ render d a ++ [.s ", "] ++ render d b ++ [.s ")"]
  | .not a => [.s "NOT ("] ++ render d a ++ [.s ")"]
  | .and items => joinToks " AND " (renderList d items)
  | .or items => [.s "("] ++ joinToks " OR " (renderList d items) ++ [.s ")"]
  | .inList ng a items =>
      match items with
      | .nil => [.s (if ng then "1 = 1" else "0 = 1")]
      | _ => render d a ++ [.s (if ng then " NOT IN (" else " IN (")] ++ joinToks ", " (renderList d items) ++ [.s ")"]
  | .like ng a pat esc =>
      render d a ++ [.s (if ng then " NOT LIKE " else " LIKE "), .s (quoteStr d pat)] ++ (if esc then [.s " ESCAPE ", .s (quoteStr d "!")] else [])
  | .case c t e => [.s "case"] ++ renderCase d (.case c t e) ++ [.s " end"]
/-- `SQLBuilder.CASE` merges a CASE in the else branch into the outer one -/
partial def renderCase (d : RDialect) : Sql → List Tok
  | .case c t e => [.s " when "] ++ render d c ++ [.s " then "] ++ render d t ++ renderCase d e
  | x => [.s " else "] ++ render d x
partial def renderList (d : RDialect) : SqlList → List (List Tok)
  | .nil => []
  | .cons h t => render d h :: renderList d t
end

/-- number the parameters: the id of a key is the 1-based position of its first occurrence among all occurrences -/
def paramIds (toks : List Tok) : List (String × Nat) :=
  let keys := toks.filterMap (fun t => match t with | .p k => some k | _ => none)
  (keys.zipIdx.foldl (fun acc (k, i) => if (acc.lookup k).isSome then acc else acc ++ [(k, i + 1)]) [])

def renderText (d : RDialect) (s : Sql) : String :=
  let toks := render d s
  let ids := paramIds toks
  String.join (toks.map (fun t => match t with
    | .s x => x
    | .p k =>
      let i := (ids.lookup k).getD 0
      match d with
      | .sqlite => "?"
      | .mysql => "%s"
      | .pg => "%(p" ++ toString i ++ ")s"
      | .oracle => ":p" ++ toString i))

end PonyVerif.Model.Q
