/-
  C23 — executable model of LOADING in a session over an unchanged committed database.

  The committed database: the rows (`objs`), the value of every column attribute (scalars and references, a reference is the
  primary key of its target, `none` = NULL) and the contents of every collection (one-to-many: the rows whose reference
  points here; many-to-many: the link table).
  The session (the part of `SessionCache` that loading touches): `obj._vals_[attr]` for column attributes — loaded or not —
  and `SetData` for collections: `items` (a PARTIAL set until `is_fully_loaded`), `count`, `absent`.

  Loading actions only COPY from the database into the session.  What Pony's loaders do is a sequence of these primitives:
    `loadVals targets`   `Attribute.load` of a lazy attribute (one target), `Entity._load_` / `_load_many_` / `_prefetch_load_all_`
                         (all non-lazy attributes of an object and of the other seeds of its entity), `_fetch_objects` of any
                         query result, `Entity.load(*attrs)`;  an attribute that is already loaded keeps its value (`_db_set_`)
    `addItems o c is`    `db_reverse_add`: the reverse side of a loaded reference, the one row of the `is_empty` probe, the
                         rows found by `Set.load(obj, items)` (`__contains__`, lazy collections); only true members can be added
    `loadColl o c`       `Set.load` / `prefetch_load_all` / nplus1 batch for one owner: `setdata |= items; is_fully_loaded = True;
                         absent = None; count = len(setdata)`
    `setCount o c`       `SetInstance.count()`: `SELECT COUNT(*)`
    `addAbsent o c i`    `__contains__` after a miss: `setdata.absent.add(item)`

  READS are defined THROUGH loading, with the shortcuts of the code: `Attribute.get` (`vals[attr] if attr in vals else load`),
  `SetInstance.is_empty` (fully loaded → `not setdata`; a loaded item → False; known count → `not count`; else probe `LIMIT 1`),
  `count` (cached `setdata.count`, else COUNT), `__contains__` (`item in setdata` → True; fully loaded → False; `item in absent`
  → False; else load), iteration / `copy` / `__len__` (load unless fully loaded).
  Core Lean only (linked into the driver).
-/
namespace PonyVerif.Model.Loading

abbrev Oid := Nat
abbrev Attr := Nat

structure Db where
  objs : List Oid
  val : Oid → Attr → Option Int
  coll : Oid → Attr → List Oid

structure SetData where
  items : List Oid
  full : Bool
  count : Option Nat
  absent : List Oid
  deriving Repr, DecidableEq

def SetData.empty : SetData := ⟨[], false, none, []⟩

structure Sess where
  /-- `none` = not loaded; `some v` = `obj._vals_[attr] = v` -/
  vals : Oid → Attr → Option (Option Int)
  /-- `none` = no `SetData` object yet -/
  sets : Oid → Attr → Option SetData

def Sess.init : Sess := ⟨fun _ _ => none, fun _ _ => none⟩

/-- a set of rows in canonical form: the rows of the database that belong to it, in database order -/
def canon (db : Db) (l : List Oid) : List Oid := db.objs.filter (fun i => decide (i ∈ l))

/-- `setdata |= items` -/
def union (db : Db) (a b : List Oid) : List Oid := db.objs.filter (fun i => decide (i ∈ a) || decide (i ∈ b))

def setVal (s : Sess) (o : Oid) (a : Attr) (v : Option Int) : Sess :=
  { s with vals := fun o' a' => if o' = o ∧ a' = a then some v else s.vals o' a' }

def setSet (s : Sess) (o : Oid) (c : Attr) (sd : SetData) : Sess :=
  { s with sets := fun o' c' => if o' = o ∧ c' = c then some sd else s.sets o' c' }

def getSet (s : Sess) (o : Oid) (c : Attr) : SetData := (s.sets o c).getD SetData.empty

/-! ### loading primitives -/

/-- copy one column value unless it is loaded already -/
def loadVal (db : Db) (s : Sess) (o : Oid) (a : Attr) : Sess :=
  match s.vals o a with
  | some _ => s
  | none => setVal s o a (db.val o a)

def loadVals (db : Db) (s : Sess) : List (Oid × Attr) → Sess
  | [] => s
  | (o, a) :: rest => loadVals db (loadVal db s o a) rest

/-- add the members of `is` (those that really are in the collection) to the partial set -/
def addItems (db : Db) (s : Sess) (o : Oid) (c : Attr) (is : List Oid) : Sess :=
  let sd := getSet s o c
  setSet s o c { sd with items := union db sd.items (is.filter (fun i => decide (i ∈ db.coll o c))) }

/-- the whole collection -/
def loadColl (db : Db) (s : Sess) (o : Oid) (c : Attr) : Sess :=
  let sd := getSet s o c
  let items := union db sd.items (db.coll o c)
  setSet s o c { items := items, full := true, count := some items.length, absent := [] }

def setCount (db : Db) (s : Sess) (o : Oid) (c : Attr) : Sess :=
  let sd := getSet s o c
  setSet s o c { sd with count := some (canon db (db.coll o c)).length }

def addAbsent (db : Db) (s : Sess) (o : Oid) (c : Attr) (i : Oid) : Sess :=
  let sd := getSet s o c
  if i ∈ db.coll o c then s else setSet s o c { sd with absent := i :: sd.absent }

inductive Load where
  | vals (targets : List (Oid × Attr))
  | items (o : Oid) (c : Attr) (is : List Oid)
  | coll (o : Oid) (c : Attr)
  | count (o : Oid) (c : Attr)
  | absent (o : Oid) (c : Attr) (i : Oid)
  deriving Repr

def applyLoad (db : Db) (s : Sess) : Load → Sess
  | .vals t => loadVals db s t
  | .items o c is => addItems db s o c is
  | .coll o c => loadColl db s o c
  | .count o c => setCount db s o c
  | .absent o c i => addAbsent db s o c i

/-! ### reads (through loading) -/

inductive Read where
  | attr (o : Oid) (a : Attr)
  | isEmpty (o : Oid) (c : Attr)
  | count (o : Oid) (c : Attr)
  | contains (o : Oid) (c : Attr) (i : Oid)
  | items (o : Oid) (c : Attr)
  | len (o : Oid) (c : Attr)
  deriving Repr

inductive Ans where
  | val (v : Option Int)
  | bool (b : Bool)
  | nat (n : Nat)
  | rows (l : List Oid)
  deriving Repr, DecidableEq

/-- how the read was answered (for the correspondence with the real code) -/
inductive How where
  | cached | loaded
  deriving Repr, DecidableEq

def read (db : Db) (s : Sess) : Read → Sess × Ans × How
  | .attr o a =>
    match s.vals o a with
    | some v => (s, .val v, .cached)
    | none => (loadVal db s o a, .val (db.val o a), .loaded)
  | .isEmpty o c =>
    match s.sets o c with
    | some sd =>
      if sd.full then (s, .bool sd.items.isEmpty, .cached)
      else if !sd.items.isEmpty then (s, .bool false, .cached)
      else match sd.count with
        | some n => (s, .bool (n == 0), .cached)
        | none =>
          match canon db (db.coll o c) with
          | i :: _ => (addItems db s o c [i], .bool false, .loaded)
          | [] => (setSet s o c { sd with full := true, count := some 0, absent := [] }, .bool true, .loaded)
    | none =>
      match canon db (db.coll o c) with
      | i :: _ => (addItems db s o c [i], .bool false, .loaded)
      | [] => (setSet s o c { SetData.empty with full := true, count := some 0, absent := [] }, .bool true, .loaded)
  | .count o c =>
    match (s.sets o c).bind (·.count) with
    | some n => (s, .nat n, .cached)
    | none => (setCount db s o c, .nat (canon db (db.coll o c)).length, .loaded)
  | .contains o c i =>
    let sd := getSet s o c
    if i ∈ sd.items then (s, .bool true, .cached)
    else if sd.full then (s, .bool false, .cached)
    else if i ∈ sd.absent then (s, .bool false, .cached)
    else if i ∈ db.coll o c ∧ i ∈ db.objs then (addItems db s o c [i], .bool true, .loaded)
    else (addAbsent db (setSet s o c sd) o c i, .bool false, .loaded)
  | .items o c =>
    match s.sets o c with
    | some sd =>
      if sd.full then (s, .rows (canon db sd.items), .cached)
      else (loadColl db s o c, .rows (canon db (union db sd.items (db.coll o c))), .loaded)
    | none => (loadColl db s o c, .rows (canon db (union db [] (db.coll o c))), .loaded)
  | .len o c =>
    match s.sets o c with
    | some sd =>
      if sd.full then (s, .nat (canon db sd.items).length, .cached)
      else (loadColl db s o c, .nat (canon db (union db sd.items (db.coll o c))).length, .loaded)
    | none => (loadColl db s o c, .nat (canon db (union db [] (db.coll o c))).length, .loaded)

/-- what the database says -/
def dbAnswer (db : Db) : Read → Ans
  | .attr o a => .val (db.val o a)
  | .isEmpty o c => .bool (canon db (db.coll o c)).isEmpty
  | .count o c => .nat (canon db (db.coll o c)).length
  | .contains o c i => .bool (decide (i ∈ canon db (db.coll o c)))
  | .items o c => .rows (canon db (db.coll o c))
  | .len o c => .nat (canon db (db.coll o c)).length

inductive Step where
  | read (r : Read)
  | load (l : Load)
  deriving Repr

/-- a program: reads with loading actions anywhere in between; the answers of the reads -/
def run (db : Db) : Sess → List Step → List Ans
  | _, [] => []
  | s, .read r :: rest => let x := read db s r; x.2.1 :: run db x.1 rest
  | s, .load l :: rest => run db (applyLoad db s l) rest

def reads : List Step → List Read
  | [] => []
  | .read r :: rest => r :: reads rest
  | .load _ :: rest => reads rest

/-! ### Pony's concrete loaders, as compositions of the primitives -/

/-- the part of the mapping the loaders consult -/
structure Schema where
  /-- the column attributes a full row fetch of this object brings (all non-lazy attributes of its entity: `_construct_select_clause_`) -/
  rowAttrs : Oid → List Attr
  /-- for a reference attribute whose reverse is a collection: that collection attribute (`attr.reverse`, `reverse.is_collection`) -/
  revColl : Attr → Option Attr
  /-- for a reference attribute whose reverse is a single reference (one-to-one): that attribute (`db_update_reverse` → `reverse.db_set(target, obj)`) -/
  revOne : Attr → Option Attr
  /-- for a many-to-many collection attribute: the collection attribute on the other side -/
  revM2M : Attr → Attr

/-- `Entity._db_set_` of one fetched row restricted to `attrs`: every attribute not loaded yet is set, and for a reference whose
    reverse is a collection `db_update_reverse` → `reverse.db_reverse_add((target,), obj)` puts the object into the target's partial set -/
def rowLoads (db : Db) (sch : Schema) (o : Oid) (attrs : List Attr) : List Load :=
  Load.vals (attrs.map (fun a => (o, a))) ::
  attrs.filterMap (fun a => match sch.revColl a, db.val o a with
    | some r, some t => some (Load.items t.toNat r [o])
    | _, _ => none) ++
  attrs.filterMap (fun a => match sch.revOne a, db.val o a with
    | some r, some t => some (Load.vals [(t.toNat, r)])
    | _, _ => none)

inductive Loader where
  /-- `Entity._load_` / `_load_many_` / `_prefetch_load_all_` / `_fetch_objects` of a query: full rows of these objects (the object and the
      other seeds of its entity, a batch, a query result) -/
  | rows (os : List Oid)
  /-- `Attribute.load` of a lazy attribute, `Entity.load(attr)` -/
  | lazyAttr (o : Oid) (a : Attr)
  /-- `Set.load` / `prefetch_load_all` of a one-to-many collection for a batch of owners (one owner, or the nplus1 batch): the member rows
      are fetched in full — each links itself to its owner through the reverse reference — then every owner's set is marked fully loaded -/
  | collRows (owners : List Oid) (c : Attr)
  /-- the same for a many-to-many collection: the link rows yield the members as seeds; `reverse.db_reverse_add(items, owner)` -/
  | collLinks (owners : List Oid) (c : Attr)
  deriving Repr

/-- the primitives a loader performs, in order -/
def expand (db : Db) (sch : Schema) : Loader → List Load
  | .rows os => (os.map (fun o => rowLoads db sch o (sch.rowAttrs o))).flatten
  | .lazyAttr o a => rowLoads db sch o [a]
  | .collRows owners c =>
    (owners.map (fun w => ((canon db (db.coll w c)).map (fun i => rowLoads db sch i (sch.rowAttrs i))).flatten)).flatten ++
      owners.map (fun w => Load.coll w c)
  | .collLinks owners c =>
    (owners.map (fun w => Load.coll w c :: (canon db (db.coll w c)).map (fun i => Load.items i (sch.revM2M c) [w]))).flatten

def applyLoader (db : Db) (sch : Schema) (s : Sess) (l : Loader) : Sess := (expand db sch l).foldl (applyLoad db) s

/-! ### loaded container values are bound to their object -/

/-- how a column value got into `obj._vals_`: every loading path converts the database value with `dbval2val(dbval, obj)`, which wraps a
    Json / array value into a tracked container bound to `(obj, attr)`; `bound = false` models a path that forgets `obj` -/
inductive LoadPath where
  | eagerRow      -- `_db_set_` of a fetched row (`Entity._load_`, `_fetch_objects`, prefetch, a query naming the attribute)
  | lazyAccess    -- `Attribute.load` → `Attribute.db_set` (the attribute access itself fetches a lazy attribute)
  deriving DecidableEq, Repr

/-- a loaded container value: its content and whether it is a tracked wrapper bound to the object -/
structure Loaded where
  content : List Int
  bound : Bool
  deriving DecidableEq, Repr

/-- `boundOn p` = does path `p` pass `obj` to `dbval2val` (regenerated from the source: `Gen.LoadDecisions.dbSetBindsObj`, `rowSetBindsObj`) -/
def loadVia (boundOn : LoadPath → Bool) (p : LoadPath) (dbContent : List Int) : Loaded := ⟨dbContent, boundOn p⟩

/-- an in-place change (`obj.j['k'] = v`, `obj.arr.append(x)`): the new content, and whether the object is marked modified
    (`TrackedValue._changed_` → `obj._attr_changed_(attr)`) — only a bound container notifies -/
def mutate (v : Loaded) (f : List Int → List Int) : Loaded × Bool := (⟨f v.content, v.bound⟩, v.bound)

/-- what the commit writes for the attribute: the changed content if the object was marked modified, else nothing (the database keeps its value) -/
def committed (dbContent : List Int) (r : Loaded × Bool) : List Int := if r.2 then r.1.content else dbContent

/-! ### merging link rows into a collection that has PENDING changes (a modifying session) -/

/-- what the session holds for one member of a many-to-many batch load: the items known so far and the member's own unflushed
    additions and removals (`SetData`, `setdata.added`, `setdata.removed`) -/
structure Pending where
  items : List Oid
  added : List Oid
  removed : List Oid
  deriving Repr, DecidableEq

/-- `Set.load`, many-to-many branch, for ONE member `obj2` of the batch with link rows `rows`:
      phantoms = setdata2 - items;  if setdata2.added: phantoms -= setdata2.added;  phantoms → UnrepeatableReadError
      items -= setdata2;  if setdata2.removed: items -= setdata2.removed;  setdata2 |= items
    `whoseAdded` is the `added` set the phantom check subtracts: the member's OWN (`p.added`) in the code as it is -/
def mergeLinks (rows : List Oid) (p : Pending) (whoseAdded : List Oid) : Except Oid (List Oid) :=
  match (p.items.filter (fun i => decide (i ∉ rows) && decide (i ∉ whoseAdded))) with
  | ph :: _ => .error ph
  | [] => .ok (p.items ++ rows.filter (fun i => decide (i ∉ p.items) && decide (i ∉ p.removed)))

/-- what the member's collection is for the program: the database rows with the member's own pending changes applied -/
def expectedItems (rows : List Oid) (p : Pending) : List Oid := rows.filter (fun i => decide (i ∉ p.removed)) ++ p.added.filter (fun i => decide (i ∉ rows))

inductive LStep where
  | read (r : Read)
  | load (l : Loader)
  deriving Repr

/-- a program: reads with CONCRETE loaders anywhere in between -/
def lrun (db : Db) (sch : Schema) : Sess → List LStep → List (Ans × How)
  | _, [] => []
  | s, .read r :: rest => let x := read db s r; (x.2.1, x.2.2) :: lrun db sch x.1 rest
  | s, .load l :: rest => lrun db sch (applyLoader db sch s l) rest

def lreads : List LStep → List Read
  | [] => []
  | .read r :: rest => r :: lreads rest
  | .load _ :: rest => lreads rest

end PonyVerif.Model.Loading
