/-
  Engine Q, part 7 (C02 / C01): ordering comparison of tuples, `(a1, …, an) < <= > >= (b1, …, bn)`.
  `CmpMonad.getsql` as written: dialects with row-value syntax (PostgreSQL, MySQL) emit `[op, ROW a…, ROW b…]`; the others (SQLite,
  Oracle) expand it to    a1 OP' b1  OR  (a1 = b1 AND a2 OP' b2)  OR … OR (a1 = b1 AND … AND a(n-1) = b(n-1) AND an OP bn)
  with OP' the strict version of OP on every component but the last (686de98).  Python / row values: lexicographic order.
  Core Lean only.
-/
import PonyVerif.Model.SqlEval
namespace PonyVerif.Model.Q

def CmpOp.strict : CmpOp → CmpOp
  | .le => .lt | .ge => .gt | o => o

def CmpOp.isOrdering : CmpOp → Bool
  | .lt => true | .le => true | .gt => true | .ge => true | _ => false

/-- `sqland(clause)`: a single item is returned as it is -/
def clauseOf (pre : SqlList) (c : Sql) : Sql :=
  match pre with
  | .nil => c
  | p => .and (p.append (.cons c .nil))

/-- the clauses for the remaining components, `pre` = the equalities of the components already passed -/
def expandFrom (pre : SqlList) (op : CmpOp) : List (Sql × Sql) → SqlList
  | [] => .nil
  | [(a, b)] => .cons (clauseOf pre (.cmp op a b)) .nil
  | (a, b) :: rest => .cons (clauseOf pre (.cmp op.strict a b)) (expandFrom (pre.append (.cons (.cmp .eq a b) .nil)) op rest)

/-- `sqlor(clauses)` for n >= 2 components -/
def expandTuple (op : CmpOp) (ps : List (Sql × Sql)) : Sql := .or (expandFrom .nil op ps)

/-- Python's comparison of two tuples of integers / the SQL row-value comparison: decided by the first differing component -/
def pyTupleCmp (op : CmpOp) : List (Int × Int) → Bool
  | [] => (match op with
    | .le => true | .ge => true | .eq => true | _ => false)
  | (x, y) :: rest => if x = y then pyTupleCmp op rest else cmpInt op x y

/-- the value the expansion computes (proved equal to `pyTupleCmp` for n >= 1) -/
def lexCmp (op : CmpOp) : List (Int × Int) → Bool
  | [] => false
  | [(x, y)] => cmpInt op x y
  | (x, y) :: rest => cmpInt op.strict x y || (x == y && lexCmp op rest)

end PonyVerif.Model.Q
