/-
  C19 — connections and the SQLite transaction lock are always released.

  Executable state machine that mirrors, as written, the connection/lock protocol of Pony on SQLite:

    pony/orm/dbapiprovider.py   wrap_dbapi_exceptions, Pool.connect/_connect/release/drop,
                                DBAPIProvider.connect/commit/rollback/release/drop/execute
    pony/orm/dbproviders/sqlite.py
                                SQLitePool._connect/drop/disconnect (file database), Database.disconnect,
                                SQLiteProvider.acquire_lock/release_lock/set_transaction_mode/commit/rollback/drop/release
    pony/orm/core.py            SessionCache.connect (with Database.call_on_connect)/reconnect/prepare_connection_for_query_execution/flush (the
                                `immediate` bookkeeping)/flush_and_commit/commit/rollback/release/close,
                                Database._get_cache/_exec_sql/get_connection, Query._actual_fetch (its two calls),
                                core.commit/rollback,
                                rollback_and_reraise, db_session.__exit__/_commit_or_rollback (one database)

  Every DB-API call (`connect`, `cursor`, `execute`, `executemany`, `commit`, `rollback`, `close`) asks the failure
  oracle `Cfg.fails : Nat → Bool` (argument = index of the call) whether it raises.  Exceptions are values; the state
  survives a raise, as in Python.  `try/except`, `try/finally` are the combinators `tryCatch`, `tryFinally`.
  Core Lean only (linked into the driver).
-/
namespace PonyVerif.Model.ConnLock

/-- the statements whose identity matters for the protocol -/
inductive Sql
  | pragmaFkOn      -- PRAGMA foreign_keys = true
  | pragmaLike      -- PRAGMA case_sensitive_like = true
  | pragmaFkQuery   -- PRAGMA foreign_keys
  | pragmaFkOff     -- PRAGMA foreign_keys = false
  | begin           -- BEGIN IMMEDIATE TRANSACTION
  | select          -- any statement run with start_transaction=False
  | write           -- any statement run with start_transaction=True
  deriving DecidableEq, Repr, Inhabited

inductive Call
  | connect | cursor | execute (q : Sql) | executemany | commit | rollback | close
  deriving DecidableEq, Repr, Inhabited

/-- what a session does that another thread can observe: DB-API calls and operations on the two provider locks -/
inductive Ev
  | call (c : Call) (con : Nat) (ok : Bool)
  | preAcquire      -- provider.pre_transaction_lock.acquire()
  | acquire         -- provider.transaction_lock.acquire()
  | preRelease      -- provider.pre_transaction_lock.release()
  | release         -- provider.transaction_lock.release()
  deriving DecidableEq, Repr, Inhabited

inductive Exc
  | raw           -- a sqlite3 exception that escapes unwrapped
  | wrapped       -- pony.orm.dbapiprovider.<Error> produced by wrap_dbapi_exceptions
  | connClosed    -- ConnectionClosedError
  | commitExc     -- CommitException (transact_reraise)
  | rollbackExc   -- RollbackException (transact_reraise)
  | body          -- an exception raised by the user's code inside the session
  | assertion     -- a failed `assert` of Pony
  | deadlock      -- acquire() of a lock this session already holds (blocks for ever in reality)
  | unlocked      -- RuntimeError: release unlocked lock
  | attrError     -- AttributeError: 'SQLitePool' object has no attribute 'pid'
  deriving DecidableEq, Repr, Inhabited

/-- the fields of `SessionCache` the protocol reads and writes -/
structure Cache where
  conn : Option Nat        -- cache.connection
  inTx : Bool              -- cache.in_transaction
  immediate : Bool         -- cache.immediate
  savedFk : Option Bool    -- cache.saved_fk_state (None / True / False)
  pending : List Bool      -- cache.modified ⇔ pending ≠ []: statements flush() will issue (true = executemany)
  deriving Repr, Inhabited

structure St where
  n : Nat                  -- number of DB-API calls made so far = index of the next one
  lock : Bool              -- provider.transaction_lock.locked(), as taken by THIS session's thread
  pre : Bool               -- provider.pre_transaction_lock.locked()
  bad : Bool               -- sticky: a self-deadlock, a release of an unheld lock or a failed assertion happened
  poolCon : Option Nat     -- pool.con (the pool is thread-local)
  poolPid : Bool           -- the attribute pool.pid exists (SQLitePool.__init__ does not create it; Pool.connect
                           -- assigns it after the first successful _connect; the process never forks in the model)
  nextCon : Nat            -- connections opened so far
  closed : List Nat        -- connection ids on which close() was called, with multiplicity
  fk : Bool                -- PRAGMA foreign_keys of pool.con
  dirty : Bool             -- pool.con may have an open database transaction (BEGIN issued, no commit/rollback since)
  hasCache : Bool          -- database in local.db2cache
  cache : Cache            -- the SessionCache object most recently created (mutated even after it left db2cache)
  trace : List Ev          -- newest first
  deriving Repr, Inhabited

structure Cfg where
  fails : Nat → Bool       -- the failure oracle
  immediate : Bool         -- db_session.immediate  (= immediate or ddl or serializable or not optimistic)
  ddl : Bool               -- db_session.ddl
  reconnect : Bool         -- provider.should_reconnect(exc)   (False for SQLite and for DBAPIProvider)
  initGuard : Bool := false
                           -- which `SQLitePool._connect` the tree has.  false: `pool.con = con = sqlite.connect(...)` and
                           -- then the initialisation (as released); true: the connection is initialised first, closed
                           -- if that fails, and only then assigned to `pool.con` (fixes/C19-sqlitepool-connect-init.diff)
  onConnect : Nat := 0     -- number of `@db.on_connect` hooks registered for this provider

/-! ### the exception/state monad -/

abbrev M (α : Type) := St → Except Exc α × St

@[inline] def ret (a : α) : M α := fun s => (.ok a, s)
@[inline] def bindM (m : M α) (f : α → M β) : M β := fun s =>
  match m s with
  | (.ok a, s') => f a s'
  | (.error e, s') => (.error e, s')
instance : Monad M where
  pure := ret
  bind := bindM

def raise (e : Exc) : M α := fun s => (.error e, s)
def getS : M St := fun s => (.ok s, s)
def modS (f : St → St) : M Unit := fun s => (.ok (), f s)
def modC (f : Cache → Cache) : M Unit := fun s => (.ok (), { s with cache := f s.cache })

/-- `try: m  except: h e` (the handler's own exception, if any, replaces the original) -/
def tryCatch (m : M α) (h : Exc → M α) : M α := fun s =>
  match m s with
  | (.ok a, s') => (.ok a, s')
  | (.error e, s') => h e s'

/-- `try: m  finally: fin` -/
def tryFinally (m : M α) (fin : M Unit) : M α := fun s =>
  match m s with
  | (r, s') => match fin s' with
    | (.ok _, s'') => (r, s'')
    | (.error e, s'') => (.error e, s'')

/-- `assert c` -/
def assertM (c : Bool) : M Unit := fun s =>
  if c then (.ok (), s) else (.error .assertion, { s with bad := true })

/-- `wrap_dbapi_exceptions`: a dbapi_module exception becomes Pony's; everything else passes through -/
def wrap (m : M α) : M α :=
  tryCatch m (fun e => match e with
    | .raw => raise .wrapped
    | e => raise e)

/-! ### DB-API calls -/

/-- one DB-API call: asks the oracle, records the event -/
def dbcall (cf : Cfg) (c : Call) (con : Nat) : M Unit := fun s =>
  let f := cf.fails s.n
  let s' := { s with n := s.n + 1, trace := Ev.call c con (!f) :: s.trace }
  if f then (.error .raw, s') else (.ok (), s')

def conCursor (cf : Cfg) (con : Nat) : M Unit := dbcall cf .cursor con

/-- `cursor.execute(sql)` / `con.execute(sql)`; a BEGIN marks the connection as possibly inside a transaction
    whether or not the call reports success (worst case for the file lock) -/
def conExecute (cf : Cfg) (con : Nat) (q : Sql) : M Unit := do
  if q = .begin then modS (fun s => { s with dirty := true })
  dbcall cf (.execute q) con
  match q with
  | .pragmaFkOn => modS (fun s => { s with fk := true })
  | .pragmaFkOff => modS (fun s => { s with fk := false })
  | _ => pure ()

def conExecuteMany (cf : Cfg) (con : Nat) : M Unit := dbcall cf .executemany con

/-- `con.commit()`; a failed commit leaves the transaction open (worst case) -/
def conCommit (cf : Cfg) (con : Nat) : M Unit := do
  dbcall cf .commit con
  modS (fun s => { s with dirty := false })

def conRollback (cf : Cfg) (con : Nat) : M Unit := do
  dbcall cf .rollback con
  modS (fun s => { s with dirty := false })

/-- `con.close()`: counted whether or not it raises -/
def conClose (cf : Cfg) (con : Nat) : M Unit := do
  modS (fun s => { s with closed := con :: s.closed })
  dbcall cf .close con

/-! ### Pool / SQLitePool (file database) -/

/-- `SQLitePool._connect`.  As released, `pool.con` is assigned BEFORE the two PRAGMAs run; with the proposed guard the
    PRAGMAs run first, a failure closes the new connection, and `pool.con` is assigned last. -/
def poolConnectNew (cf : Cfg) : M Unit := do
  let s ← getS
  let k := s.nextCon
  dbcall cf .connect k                                        -- sqlite.connect(filename, isolation_level=None, **kwargs)
  if cf.initGuard then
    modS (fun s => { s with nextCon := k + 1 })               -- con = ...
    tryCatch (do
        conExecute cf k .pragmaFkOn
        conExecute cf k .pragmaLike)
      (fun e => do
        conClose cf k                                         -- except: con.close(); raise
        raise e)
    modS (fun s => { s with poolCon := some k, fk := true, dirty := false })   -- pool.con = con
  else
    modS (fun s => { s with nextCon := k + 1, poolCon := some k, fk := false, dirty := false })   -- pool.con = con = ...
    conExecute cf k .pragmaFkOn                               -- con.execute('PRAGMA foreign_keys = true')
    conExecute cf k .pragmaLike                               -- con.execute('PRAGMA case_sensitive_like = true')

/-- `Pool.connect` -/
def poolConnect (cf : Cfg) : M (Nat × Bool) := do
  let s ← getS
  -- `if pool.con is not None and pool.pid != pid:` -- without a fork the pids are equal, but reading `pool.pid`
  -- raises AttributeError when no `_connect` of this thread has completed yet
  if s.poolCon.isSome && !s.poolPid then raise .attrError
  match s.poolCon with
  | none =>
      poolConnectNew cf
      modS (fun s => { s with poolPid := true })
      let s ← getS
      match s.poolCon with
      | some k => pure (k, true)
      | none => raise .assertion      -- unreachable: _connect assigned pool.con
  | some k => pure (k, false)

/-- `Pool.drop` (through `SQLitePool.drop` for a file database) -/
def poolDrop (cf : Cfg) (con : Nat) : M Unit := do
  let s ← getS
  assertM (s.poolCon = some con)            -- assert con is pool.con
  modS (fun s => { s with poolCon := none, dirty := false })
  conClose cf con

/-- `Pool.release` -/
def poolRelease (cf : Cfg) (con : Nat) : M Unit := do
  let s ← getS
  assertM (s.poolCon = some con)
  tryCatch (conRollback cf con) (fun e => do poolDrop cf con; raise e)

/-! ### DBAPIProvider -/

def baseConnect (cf : Cfg) : M (Nat × Bool) := wrap (poolConnect cf)

def baseCommit (cf : Cfg) (con : Nat) : M Unit := wrap do
  conCommit cf con
  modC (fun c => { c with inTx := false })

def baseRollback (cf : Cfg) (con : Nat) : M Unit := wrap do
  conRollback cf con
  modC (fun c => { c with inTx := false })

def baseDrop (cf : Cfg) (con : Nat) : M Unit := wrap do
  poolDrop cf con
  modC (fun c => { c with inTx := false })

/-- `DBAPIProvider.execute` -/
def provExecute (cf : Cfg) (con : Nat) (q : Sql) (many : Bool) : M Unit := wrap do
  if many then conExecuteMany cf con else conExecute cf con q

/-! ### SQLiteProvider -/

/-- `lock.acquire()` of a lock this thread already holds would block for ever (`deadlock`) -/
def preAcquire : M Unit := fun s =>
  if s.pre then (.error .deadlock, { s with bad := true })
  else (.ok (), { s with pre := true, trace := Ev.preAcquire :: s.trace })

def txAcquire : M Unit := fun s =>
  if s.lock then (.error .deadlock, { s with bad := true })
  else (.ok (), { s with lock := true, trace := Ev.acquire :: s.trace })

def preRelease : M Unit := fun s =>
  if s.pre then (.ok (), { s with pre := false, trace := Ev.preRelease :: s.trace })
  else (.error .unlocked, { s with bad := true })

/-- `acquire_lock`: pre_transaction_lock.acquire(); try: transaction_lock.acquire()  finally: pre_transaction_lock.release() -/
def acquireLock : M Unit := do
  preAcquire
  tryFinally txAcquire preRelease

/-- `release_lock` -/
def releaseLock : M Unit := fun s =>
  if s.lock then (.ok (), { s with lock := false, trace := Ev.release :: s.trace })
  else (.error .unlocked, { s with bad := true })

/-- `SQLiteProvider.set_transaction_mode` -/
def setTransactionMode (cf : Cfg) (con : Nat) : M Unit := wrap do
  let s ← getS
  assertM (!s.cache.inTx)
  if s.cache.immediate then acquireLock
  tryFinally (do
      conCursor cf con
      if cf.ddl then
        conExecute cf con .pragmaFkQuery
        let s ← getS
        let fk := s.fk
        if fk then conExecute cf con .pragmaFkOff
        -- if fk or cache.saved_fk_state is None: cache.saved_fk_state = bool(fk)      (a remembered True is not overwritten)
        if fk || s.cache.savedFk.isNone then modC (fun c => { c with savedFk := some fk })
        let s ← getS
        assertM s.cache.immediate
      let s ← getS
      if s.cache.immediate then
        conExecute cf con .begin
        modC (fun c => { c with inTx := true }))
    (do
      let s ← getS
      if s.cache.immediate && !s.cache.inTx then releaseLock)

/-- the common shape of `SQLiteProvider.commit/rollback/drop` -/
def withLockRelease (inner : M Unit) : M Unit := do
  let s ← getS
  let inTransaction := s.cache.inTx
  tryFinally inner (do
    if inTransaction then
      modC (fun c => { c with inTx := false })
      releaseLock)

def provCommit (cf : Cfg) (con : Nat) : M Unit := withLockRelease (baseCommit cf con)
def provRollback (cf : Cfg) (con : Nat) : M Unit := withLockRelease (baseRollback cf con)
def provDrop (cf : Cfg) (con : Nat) : M Unit := withLockRelease (baseDrop cf con)

/-- `DBAPIProvider.release` (the `provider.drop` inside dispatches to `SQLiteProvider.drop`) -/
def baseRelease (cf : Cfg) (con : Nat) : M Unit := wrap do
  if cf.ddl then provDrop cf con else poolRelease cf con

/-- `SQLiteProvider.release` -/
def provRelease (cf : Cfg) (con : Nat) : M Unit := wrap do
  let s ← getS
  if cf.ddl && s.cache.savedFk == some true then
    tryCatch (do
        conCursor cf con
        conExecute cf con .pragmaFkOn)
      (fun e => do
        poolDrop cf con
        raise e)
  baseRelease cf con

/-! ### SessionCache -/

/-- `SessionCache.__init__` through `Database._get_cache` -/
def getCache (cf : Cfg) : M Unit := do
  let s ← getS
  if !s.hasCache then
    modS (fun s => { s with hasCache := true,
                            cache := { conn := none, inTx := false, immediate := cf.immediate, savedFk := none, pending := [] } })

/-- `Database.call_on_connect(con)`: for each registered hook `func(database, con); con.commit()` (neither is wrapped;
    the hook's own statements are the user's business and not modelled) -/
def callOnConnect (cf : Cfg) (con : Nat) : Nat → M Unit
  | 0 => pure ()
  | n + 1 => do
      conCommit cf con
      callOnConnect cf con n

/-- the second half of `SessionCache.connect`: start the transaction mode, drop the connection if that fails -/
def cacheConnectTail (cf : Cfg) (con : Nat) : M Nat := do
  tryCatch (setTransactionMode cf con) (fun e => do
    provDrop cf con
    raise e)
  modC (fun c => { c with conn := some con })
  pure con

/-- `SessionCache.connect` -/
def cacheConnect (cf : Cfg) : M Nat := do
  let s ← getS
  assertM (s.cache.conn = none)
  if s.cache.inTx then raise .connClosed
  let (con, isNew) ← baseConnect cf
  if isNew then callOnConnect cf con cf.onConnect       -- if is_new_connection: database.call_on_connect(connection)
  cacheConnectTail cf con

/-- `SessionCache.reconnect(exc)` with `exc is not None`; `e` is the active exception -/
def cacheReconnect (cf : Cfg) (e : Exc) : M Nat := do
  if !cf.reconnect then raise e
  let s ← getS
  match s.cache.conn with
  | none => assertM false; raise .assertion
  | some con =>
    modC (fun c => { c with conn := none })
    provDrop cf con
    cacheConnect cf

/-- `prepare_connection_for_query_execution` up to, not including, its final `cache.flush()` -/
def prepareCore (cf : Cfg) : M Nat := do
  let s ← getS
  match s.cache.conn with
  | none => cacheConnect cf
  | some con =>
    if s.cache.immediate && !s.cache.inTx then
      tryCatch (do setTransactionMode cf con; pure con) (fun e => cacheReconnect cf e)
    else pure con

/-- the part of `Database._exec_sql` after `prepare_connection_for_query_execution` -/
def execTail (cf : Cfg) (con : Nat) (q : Sql) (many : Bool) : M Unit := do
  conCursor cf con                                  -- connection.cursor()   (not wrapped)
  tryCatch (provExecute cf con q many) (fun e => do
    let con ← cacheReconnect cf e
    conCursor cf con
    provExecute cf con q many)
  let s ← getS
  if s.cache.immediate then modC (fun c => { c with inTx := true })

/-- `Database._exec_sql` as called from `obj._save_()` inside `flush()` (noflush_counter > 0) -/
def execNoFlush (cf : Cfg) (many : Bool) : M Unit := do
  getCache cf
  modC (fun c => { c with immediate := true })       -- start_transaction=True
  let con ← prepareCore cf
  execTail cf con .write many

/-- the save loop of `flush()`: one statement per pending item, removed once it has been executed -/
def flushLoop (cf : Cfg) : List Bool → M Unit
  | [] => pure ()
  | w :: rest => do
      execNoFlush cf w
      modC (fun c => { c with pending := rest })
      flushLoop cf rest

/-- `SessionCache.flush` -/
def cacheFlush (cf : Cfg) : M Unit := do
  let s ← getS
  let prev := s.cache.immediate
  modC (fun c => { c with immediate := true })
  tryFinally (flushLoop cf s.cache.pending) (do
    let s ← getS
    if !s.cache.inTx then modC (fun c => { c with immediate := prev }))

/-- `prepare_connection_for_query_execution` -/
def prepare (cf : Cfg) : M Nat := do
  let con ← prepareCore cf
  let s ← getS
  if !s.cache.pending.isEmpty then cacheFlush cf
  pure con

/-- `Database._exec_sql(sql, start_transaction=start)` from user code -/
def execSql (cf : Cfg) (start many : Bool) : M Unit := do
  getCache cf
  if start then modC (fun c => { c with immediate := true })
  let con ← prepare cf
  execTail cf con (if start then .write else .select) many

/-- `SessionCache.close(rollback)` -/
def cacheClose (cf : Cfg) (rollback : Bool) : M Unit := do
  let s ← getS
  if !rollback then assertM (!s.cache.inTx)
  modS (fun s => { s with hasCache := false })      -- local.db2cache.pop(database)
  match s.cache.conn with
  | none => pure ()
  | some con =>
    modC (fun c => { c with conn := none })
    if rollback then
      tryCatch (provRollback cf con) (fun e => do
        provDrop cf con
        raise e)
    provRelease cf con

/-- `SessionCache.commit` -/
def cacheCommit (cf : Cfg) : M Unit :=
  tryCatch (do
      let s ← getS
      if !s.cache.pending.isEmpty then cacheFlush cf
      let s ← getS
      if s.cache.inTx then
        match s.cache.conn with
        | none => assertM false
        | some con => provCommit cf con
      modC (fun c => { c with immediate := true }))
    (fun e => do
      cacheClose cf true
      raise e)

/-! ### module-level commit()/rollback(), db_session exit (one database) -/

/-- `core.rollback()` -/
def coreRollback (cf : Cfg) : M Unit := do
  let s ← getS
  if s.hasCache then
    tryCatch (cacheClose cf true) (fun _ => raise .rollbackExc)

/-- `core.commit()` -/
def coreCommit (cf : Cfg) : M Unit := do
  let s ← getS
  if s.hasCache then
    -- try: cache.flush()  except: rollback_and_reraise(sys.exc_info())
    tryCatch (cacheFlush cf) (fun e => do
      tryCatch (coreRollback cf) (fun _ => pure ())    -- try: rollback() finally: reraise(original)
      raise e)
    tryCatch (cacheCommit cf) (fun _ => raise .commitExc)

/-- `Database.get_connection` -/
def getConnection (cf : Cfg) : M Unit := do
  getCache cf
  let s ← getS
  if !s.cache.inTx then
    modC (fun c => { c with immediate := true })
    let _ ← prepare cf
    modC (fun c => { c with inTx := true })
  let s ← getS
  assertM (s.cache.conn != none)

/-- what user code does inside a session -/
inductive Op
  | query                       -- an ORM query (Query._actual_fetch): prepare_connection_for_query_execution, then _exec_sql
  | select                      -- db.select / db.get / db.exists, lazy loads: _exec_sql(start_transaction=False) directly
  | write (many : Bool)         -- db.execute / db.insert: _exec_sql(start_transaction=True)
  | modify (ws : List Bool)     -- create / change objects: cache.modified, statements issued by the next flush
                                -- (ws = []: modified with nothing to write — create+delete, add+remove, value set back)
  | flush                       -- flush()
  | commit                      -- commit()
  | rollback                    -- rollback()
  | getConnection               -- db.get_connection()
  deriving Repr, Inhabited

def runOp (cf : Cfg) : Op → M Unit
  | .query => do
      getCache cf                 -- cache = database._get_cache()
      let _ ← prepare cf          -- cache.prepare_connection_for_query_execution()   (result not cached)
      execSql cf false false      -- database._exec_sql(sql, arguments)
  | .select => execSql cf false false
  | .write many => execSql cf true many
  | .modify ws => do
      getCache cf
      modC (fun c => { c with pending := c.pending ++ ws })
  | .flush => do
      let s ← getS
      if s.hasCache then cacheFlush cf
  | .commit => coreCommit cf
  | .rollback => coreRollback cf
  | .getConnection => getConnection cf

/-- the body of the session: each operation may be wrapped in the user's own `try/except` (`caught = true`) -/
def runBody (cf : Cfg) : List (Op × Bool) → M Unit
  | [] => pure ()
  | (op, caught) :: rest => do
      if caught then tryCatch (runOp cf op) (fun _ => pure ()) else runOp cf op
      runBody cf rest

/-- `db_session.__exit__` / `_commit_or_rollback` -/
def exitSession (cf : Cfg) (bodyResult : Except Exc Unit) : M Unit :=
  match bodyResult with
  | .ok _ =>
      tryCatch (do
          coreCommit cf
          let s ← getS
          if s.hasCache then cacheClose cf false        -- for cache in _get_caches(): cache.release()
        ) (fun e => do
          tryCatch (coreRollback cf) (fun _ => pure ())   -- except: rollback_and_reraise(sys.exc_info())
          raise e)
  | .error e => do
      tryCatch (coreRollback cf) (fun _ => pure ())   -- the rollback error is swallowed, the body's exception continues
      raise e

/-- `with db_session(...): body`; `bodyRaises`: the user's code ends with an exception of its own -/
def dbSession (cf : Cfg) (prog : List (Op × Bool)) (bodyRaises : Bool) : M Unit := fun s =>
  match (do runBody cf prog; if bodyRaises then raise .body : M Unit) s with
  | (r, s') => exitSession cf r s'

/-- a thread that has never touched the database -/
def St.init : St :=
  { n := 0, lock := false, pre := false, bad := false, poolCon := none, poolPid := false, nextCon := 0,
    closed := [], fk := false, dirty := false, hasCache := false,
    cache := { conn := none, inTx := false, immediate := false, savedFk := none, pending := [] }, trace := [] }

/-- several sessions one after the other in one thread; `cfs i` gives the options and the program of session i.
    The oracle indexes calls globally (`St.n` is not reset). -/
def runSessions : List (Cfg × List (Op × Bool) × Bool) → St → List (Except Exc Unit) × St
  | [], s => ([], s)
  | (cf, prog, br) :: rest, s =>
      match dbSession cf prog br s with
      | (r, s') => match runSessions rest s' with
        | (rs, s'') => (r :: rs, s'')

/-- `Pool.disconnect` (through `SQLitePool.disconnect` for a file database) -/
def poolDisconnect (cf : Cfg) : M Unit := do
  let s ← getS
  modS (fun s => { s with poolCon := none, dirty := false })     -- con = pool.con; pool.con = None
  match s.poolCon with
  | some con => conClose cf con                                  -- if con is not None: con.close()
  | none => pure ()

/-- `Database.disconnect()` outside a db_session: roll back a cache left over from interactive use, close the pooled connection -/
def dbDisconnect (cf : Cfg) : M Unit := do
  let s ← getS
  if s.hasCache then cacheClose cf true      -- cache.rollback()
  wrap (poolDisconnect cf)                   -- provider.disconnect()

/-- what a thread does between and around sessions -/
inductive Step
  | session (cf : Cfg) (prog : List (Op × Bool)) (bodyRaises : Bool)
  | disconnect (cf : Cfg)

def runStep : Step → St → Except Exc Unit × St
  | .session cf prog br, s => dbSession cf prog br s
  | .disconnect cf, s => dbDisconnect cf s

def runSteps : List Step → St → List (Except Exc Unit) × St
  | [], s => ([], s)
  | st :: rest, s =>
      match runStep st s with
      | (r, s') => match runSteps rest s' with
        | (rs, s'') => (r :: rs, s'')

/-! ### what other threads see: the lock events of a session -/

inductive LEv | preAcq | acq | preRel | rel
  deriving DecidableEq, Repr

def lockEvents : List Ev → List LEv
  | [] => []
  | .preAcquire :: t => .preAcq :: lockEvents t
  | .acquire :: t => .acq :: lockEvents t
  | .preRelease :: t => .preRel :: lockEvents t
  | .release :: t => .rel :: lockEvents t
  | .call .. :: t => lockEvents t

/-! ### the lock protocol and N threads sharing the two provider locks -/

/-- where a thread is in the lock protocol of `SQLiteProvider.acquire_lock` / `release_lock` -/
inductive Phase
  | idle      -- holds nothing
  | hasPre    -- holds pre_transaction_lock, is about to take transaction_lock
  | hasBoth   -- holds both, is about to release pre_transaction_lock
  | hasTx     -- holds transaction_lock
  deriving DecidableEq, Repr

def Phase.step : Phase → LEv → Option Phase
  | .idle, .preAcq => some .hasPre
  | .hasPre, .acq => some .hasBoth
  | .hasBoth, .preRel => some .hasTx
  | .hasTx, .rel => some .idle
  | _, _ => none

/-- the phase reached by a chronological list of lock events (`none`: the protocol was violated) -/
def Phase.run : Phase → List LEv → Option Phase
  | ph, [] => some ph
  | ph, e :: es => match ph.step e with
    | some ph' => Phase.run ph' es
    | none => none

namespace Interleave

/-- a thread: where it is in the lock protocol, and the lock events it will still perform (DB-API calls in between are
    always enabled and do not touch the locks, so they are left out) -/
structure Thread where
  phase : Phase
  rest : List LEv
  deriving Repr

/-- the two `threading.Lock`s and the threads -/
structure World where
  pre : Bool
  tx : Bool
  threads : List Thread
  deriving Repr

def Thread.WB (t : Thread) : Prop := Phase.run t.phase t.rest = some .idle
def Thread.holdsPre (t : Thread) : Bool := t.phase == .hasPre || t.phase == .hasBoth
def Thread.holdsTx (t : Thread) : Bool := t.phase == .hasBoth || t.phase == .hasTx

/-- thread `i` performs its next lock event.  `none`: the thread has finished, or blocks in `acquire()` (lock taken), or
    the step is an error (release of an unlocked lock / an event outside the protocol). -/
def step (w : World) (i : Nat) : Option World :=
  match w.threads[i]? with
  | none => none
  | some t =>
    match t.rest with
    | [] => none
    | e :: r =>
      match t.phase.step e with
      | none => none
      | some ph =>
        let ts := w.threads.set i ⟨ph, r⟩
        match e with
        | .preAcq => if w.pre then none else some { w with pre := true, threads := ts }
        | .acq => if w.tx then none else some { w with tx := true, threads := ts }
        | .preRel => if w.pre then some { w with pre := false, threads := ts } else none
        | .rel => if w.tx then some { w with tx := false, threads := ts } else none

/-- run a schedule (list of thread indices); steps that are not enabled are skipped (the thread keeps waiting) -/
def runSchedule (w : World) : List Nat → World
  | [] => w
  | i :: is => match step w i with
    | some w' => runSchedule w' is
    | none => runSchedule w is

/-- all threads idle with protocol-conforming futures, both locks free -/
def initial (sessions : List (List LEv)) : World :=
  { pre := false, tx := false, threads := sessions.map (fun evs => ⟨.idle, evs⟩) }

end Interleave

end PonyVerif.Model.ConnLock
