/-
  C32 — objects of a finished db_session.  Executable model (core Lean only).

  Mirrors, guard by guard and in the order of the code, what every public entry point of pony/orm/core.py does with an
  object whose session cache is gone (`obj._session_cache_ is None`) or dead (`not cache.is_alive`):
    SessionCache.close (the `connection is None` early return, the strict / non-strict detaching loops),
    Attribute.__get__/get/load/__set__, Entity.set/delete/flush/load/_load_/to_dict   (flush/count/is_empty as of the
    `fix:` commit made from fixes/C32-detached-guards.diff: liveness guard first),
    Set.__get__/__set__/copy/load, SetInstance.__len__/count/is_empty/__contains__/add/remove/clear/load/select,
    the `validate` check met by `E(ref=obj)`.
  When every guard passes with a LIVE cache the model stops with `Out.live` (the session code proper is the business of the
  other session properties); nothing about that path is claimed here.
-/
namespace PonyVerif.Model.Finished

inductive Status | created | cancelled | loaded | modified | inserted | updated | markedToDelete | deleted
  deriving DecidableEq, Repr, Inhabited

/-- `del_statuses` -/
def Status.isDel : Status → Bool
  | .markedToDelete | .deleted | .cancelled => true
  | _ => false
/-- the statuses tested by `Attribute.get`: `('deleted', 'cancelled')` -/
def Status.isGone : Status → Bool
  | .deleted | .cancelled => true
  | _ => false
/-- the statuses for which `Entity.flush` does something: `('created', 'modified', 'marked_to_delete')` -/
def Status.isPending : Status → Bool
  | .created | .modified | .markedToDelete => true
  | _ => false

/-- `SetData` (a set subclass with bookkeeping slots); objects are named by their index in the world -/
structure SetData where
  items : List Nat
  full : Bool                      -- is_fully_loaded
  count : Option Nat
  added : Option (List Nat)
  removed : Option (List Nat)
  absent : Option (List Nat)
  deriving DecidableEq, Repr, Inhabited

def SetData.empty : SetData := { items := [], full := false, count := none, added := none, removed := none, absent := none }

/-- `obj._vals_[attr]` when the key is present: `None`, a scalar / reference, or a `SetData` -/
inductive Slot
  | none
  | val (v : Int)
  | coll (sd : SetData)
  deriving DecidableEq, Repr, Inhabited

abbrev Vals := List (Nat × Slot)

structure Obj where
  ent : Nat
  status : Status
  hasCache : Bool                          -- `obj._session_cache_ is not None`
  vals : Option Vals                       -- `obj._vals_` (None after a strict session)
  dbvals : Option (List (Nat × Option Int))   -- `obj._dbvals_`
  rbits : Option Nat
  wbits : Option Nat
  savePos : Option Nat
  seed : Bool := false                     -- `obj in cache.seeds[pk_attrs]` (known by key only; its real subclass is not known yet)
  deriving DecidableEq, Repr, Inhabited

inductive Kind | scalar | ref | coll
  deriving DecidableEq, Repr, Inhabited

structure Attr where
  id : Nat
  ent : Nat
  kind : Kind
  isPk : Bool
  isLazy : Bool
  bit : Nat            -- `_bits_except_volatile_[attr]`
  rev : Nat            -- id of the reverse attribute (relations)
  revIsColl : Bool
  revIsPk : Bool
  revBit : Nat
  refSubclasses : Bool := false    -- reference attribute whose target entity has subclasses (`val._subclasses_`)
  deriving DecidableEq, Repr, Inhabited

structure World where
  alive : Bool          -- `cache.is_alive` of the session cache the objects belong(ed) to
  savedPending : Bool   -- `cache.saved_objects` non-empty (read by the assert in `Entity.flush` only)
  objs : List Obj
  deriving DecidableEq, Repr, Inhabited

inductive Action
  | loadAttribute | readValue | assign | loadCollection | changeCollection | loadObject | deleteObject | changeObject | flushObject
  deriving DecidableEq, Repr, Inhabited

inductive Rv
  | none | int (v : Int) | nat (n : Nat) | bool (b : Bool) | items (l : List Nat) | wrapper | query | dots
  deriving DecidableEq, Repr, Inhabited

inductive Out
  | value (v : Rv)
  | dict (l : List (Nat × Rv))
  | noop                          -- returns None, did nothing
  | sessionOver (a : Action)      -- DatabaseSessionIsOver('Cannot <action> …: the database session is over')
  | wasDeleted                    -- OperationWithDeletedObjectError
  | assertion                     -- AssertionError
  | mixed                         -- TransactionError('An attempt to mix objects belonging to different transactions')
  | dbRequired                    -- TransactionError('db_session is required when working with the database')
  | typeError                     -- TypeError / AttributeError on a malformed state (never produced from states left by `close`)
  | live                          -- all guards passed with a live cache: continues in the session code (not modelled here)
  deriving DecidableEq, Repr, Inhabited

def Out.isError : Out → Bool
  | .sessionOver _ | .wasDeleted | .assertion | .mixed | .dbRequired | .typeError => true
  | _ => false

inductive Stmt | select
  deriving DecidableEq, Repr, Inhabited

structure Res where
  world : World
  out : Out
  stmts : List Stmt
  deriving DecidableEq, Repr, Inhabited

inductive Op
  | getAttr (a : Attr)                         -- obj.a                      Attribute.__get__
  | attrLoad (a : Attr)                        -- attr.load(obj)
  | setAttr (a : Attr)                         -- obj.a = v                  Attribute.__set__
  | attrChanged (a : Attr)                     -- obj._attr_changed_(attr): in-place change of a Json / array value (TrackedValue)
  | setMany                                    -- obj.set(**kw)
  | delete                                     -- obj.delete()
  | flush                                      -- obj.flush()
  | load                                       -- obj.load()
  | loadInternal                               -- obj._load_()
  | toDict (attrs : List Attr)                 -- obj.to_dict(...): the attribute list `_get_attrs_` selected
  | collGet (a : Attr)                         -- obj.coll                   Set.__get__
  | collAssign (a : Attr) (same : Bool)        -- obj.coll = x  (same: x is the wrapper of the same obj/attr, as after `+=`)
  | collAdd (a : Attr) | collRemove (a : Attr) | collClear (a : Attr)
  | collCopy (a : Attr)                        -- wrapper.copy(), iteration, ==, +, -
  | collLen (a : Attr)                         -- len(wrapper), bool(wrapper)
  | collCount (a : Attr)
  | collIsEmpty (a : Attr)
  | collContains (a : Attr) (item : Nat)
  | collLoad (a : Attr)
  | collSelect (a : Attr)
  | collStr (a : Attr)                         -- str(wrapper): '…' instead of the items when the session is over
  | collCreate (a : Attr)                      -- wrapper.create(**kw): a new item referring to obj
  | useAsRef                                   -- E(ref=obj) for a new object of the current thread
  | staleArg                                   -- obj handed as an ARGUMENT to an operation on a LIVE object of the current session:
                                               -- live.coll.add/remove(obj | [obj] | {obj} | (obj,)), live.coll = …, live.ref = obj,
                                               -- live.set(ref=obj), E(ref=obj, coll=[obj]), live.coll.create(ref=obj)
  deriving DecidableEq, Repr, Inhabited

/-- is a db_session active in the calling thread (`local.db_context_counter`) -/
structure Env where
  ambient : Bool
  deriving DecidableEq, Repr, Inhabited

/-! ### SessionCache.close -/

/-- the non-strict loop: `if attr.is_collection: if not setdata.is_fully_loaded: obj._vals_[attr] = None` -/
def pruneSlot : Slot → Slot
  | .coll sd => if sd.full then .coll sd else .none
  | s => s

def detach (strict : Bool) (o : Obj) : Obj :=
  -- `cache.seeds = None` at the end of close: no object is a seed of a closed cache
  if strict then { o with vals := none, dbvals := none, hasCache := false, seed := false }
  else { o with dbvals := none, hasCache := false, seed := false, vals := o.vals.map (fun vs => vs.map (fun p => (p.1, pruneSlot p.2))) }

/-- `SessionCache.close`: `is_alive = False`; `if connection is None: return`; otherwise detach every object of the cache -/
def close (strict hadConnection : Bool) (w : World) : World :=
  let w := { w with alive := false }
  if !hadConnection then w else { w with objs := w.objs.map (detach strict) }

/-- how a db_session can end -/
inductive How
  | commit          -- normal exit: commit() succeeds, then `cache.release()`
  | rollback        -- rollback() in the body
  | error           -- an exception in the body: `rollback()` at the exit
  | commitFailed    -- the COMMIT sent by `provider.commit` at the exit raises (fault, 'database is locked')
  | flushFailed     -- the flush inside the exit's commit() (or an explicit one) raises: `rollback_and_reraise`
  deriving DecidableEq, Repr, Inhabited

/-- `SessionCache.commit`: `try: … if cache.in_transaction: provider.commit(connection, cache) … except: cache.rollback(); raise`.
    (`SQLiteProvider.commit` clears `cache.in_transaction` in its `finally` even when COMMIT raises, so the except path must not
    look at that flag.)  Returns the world and whether the exception propagates. -/
def cacheCommit (inTransaction commitRaises strict hadConnection : Bool) (w : World) : World × Bool :=
  if inTransaction && commitRaises then (close strict hadConnection w, true) else (w, false)

/-- the end of the outermost db_session, by the path taken -/
def endSession (how : How) (inTransaction strict hadConnection : Bool) (w : World) : World :=
  match how with
  | .commit => close strict hadConnection (cacheCommit inTransaction false strict hadConnection w).1          -- then `cache.release()`
  | .commitFailed =>
    let r := cacheCommit inTransaction true strict hadConnection w
    if r.2 then r.1 else close strict hadConnection r.1          -- nothing written: no COMMIT is sent, nothing fails, `release()`
  | .rollback | .error | .flushFailed => close strict hadConnection w

/-! ### guards and helpers -/

/-- `cache is None or not cache.is_alive` -/
def over (w : World) (o : Obj) : Bool := !(o.hasCache && w.alive)

def lookup (vs : Vals) (a : Nat) : Option Slot := (vs.find? (fun p => p.1 == a)).map (·.2)

/-- `d[a] = s` -/
def setSlot (vs : Vals) (a : Nat) (s : Slot) : Vals :=
  if vs.any (fun p => p.1 == a) then vs.map (fun p => if p.1 == a then (a, s) else p) else vs ++ [(a, s)]

def World.setObj (w : World) (i : Nat) (o : Obj) : World := { w with objs := w.objs.set i o }

/-- `if wbits is not None and not wbits & bit: obj._rbits_ |= bit` -/
def bump (o : Obj) (bit : Nat) : Obj :=
  match o.wbits with
  | some wb => if wb &&& bit == 0 then { o with rbits := o.rbits.map (· ||| bit) } else o
  | none => o

def mem? (l : Option (List Nat)) (x : Nat) : Bool :=
  match l with
  | some l => l.contains x
  | none => false

/-- `Attribute.load` up to the liveness guard -/
def attrLoadOut (w : World) (o : Obj) : Out := if over w o then .sessionOver .loadAttribute else .live
/-- `Set.load` up to the liveness guard -/
def setLoadOut (w : World) (o : Obj) : Out := if over w o then .sessionOver .loadCollection else .live

/-- `Attribute.get` (without the seeds/subclasses reload, which needs a live cache to do anything) -/
def attrGet (w : World) (o : Obj) (a : Attr) : Out :=
  if !a.isPk && o.status.isGone then .wasDeleted else
  match o.vals with
  | none => .sessionOver .readValue
  | some vs =>
    match lookup vs a.id with
    | some (.val v) =>
      -- `if val is not None and attr.reverse and val._subclasses_ and val._status_ not in ('deleted', 'cancelled'):
      --      cache = obj._session_cache_;  if cache is not None and val in cache.seeds[val._pk_attrs_]: val._load_()`
      if a.refSubclasses then
        match w.objs[v.toNat]? with
        | some t =>
          if !t.status.isGone && o.hasCache && t.seed then
            (if over w t then .sessionOver .loadObject else .live)
          else .value (.int v)
        | none => .value (.int v)
      else .value (.int v)
    | some .none => .value .none
    | some (.coll _) => .typeError
    | none => attrLoadOut w o

/-- `Attribute.__get__` -/
def attrGetDescr (w : World) (i : Nat) (o : Obj) (a : Attr) : Res :=
  if a.isPk then ⟨w, attrGet w o a, []⟩ else
  match attrGet w o a with
  | .value v => ⟨w.setObj i (bump o a.bit), .value v, []⟩
  | out => ⟨w, out, []⟩

/-- the loop at the end of `Set.copy`: read bits of the items' reverse attribute; `assert item._wbits_ is not None` -/
def copyBump (a : Attr) (added : Option (List Nat)) : List Nat → World → World × Bool
  | [], w => (w, true)
  | j :: rest, w =>
    if mem? added j then copyBump a added rest w else
    match w.objs[j]? with
    | none => (w, false)
    | some it =>
      match it.wbits with
      | none => (w, false)                                   -- the assert fails (earlier bumps stay)
      | some _ => copyBump a added rest (w.setObj j (bump it a.revBit))

/-- `Set.copy` -/
def collCopy (w : World) (o : Obj) (a : Attr) : Res :=
  if o.status.isDel then ⟨w, .wasDeleted, []⟩ else
  match o.vals with
  | none => ⟨w, .sessionOver .readValue, []⟩
  | some vs =>
    match lookup vs a.id with
    | some (.coll sd) =>
      if !sd.full then ⟨w, setLoadOut w o, []⟩ else
      if !a.revIsColl && !a.revIsPk then
        match copyBump a sd.added sd.items w with
        | (w', true) => ⟨w', .value (.items sd.items), []⟩
        | (w', false) => ⟨w', .assertion, []⟩
      else ⟨w, .value (.items sd.items), []⟩
    | _ => ⟨w, setLoadOut w o, []⟩

/-- `Set.__get__` -/
def collGet (w : World) (o : Obj) : Res :=
  if o.status.isDel then ⟨w, .wasDeleted, []⟩ else ⟨w, .value .wrapper, []⟩

/-- the body of `to_dict`'s loop for one attribute; `none` = continue -/
def toDictStep (w : World) (i : Nat) (a : Attr) : World × Except Out Rv :=
  match w.objs[i]? with
  | none => (w, .error .typeError)
  | some o =>
    match a.kind with
    | .coll =>
      match (collGet w o).out with
      | .value _ =>
        let r := collCopy w o a
        match r.out with
        | .value v => (r.world, .ok v)
        | out => (r.world, .error out)
      | out => (w, .error out)
    | _ =>
      let r := attrGetDescr w i o a
      match r.out with
      | .value v => (r.world, .ok v)
      | out => (r.world, .error out)

def toDictLoop (i : Nat) : List Attr → World → List (Nat × Rv) → Res
  | [], w, acc => ⟨w, .dict acc.reverse, []⟩
  | a :: rest, w, acc =>
    match toDictStep w i a with
    | (w', .ok v) => toDictLoop i rest w' ((a.id, v) :: acc)
    | (w', .error out) => ⟨w', out, []⟩

/-! ### the step function -/

def step (env : Env) (w : World) (i : Nat) (op : Op) : Res :=
  match w.objs[i]? with
  | none => ⟨w, .typeError, []⟩
  | some o =>
  match op with
  | .getAttr a => attrGetDescr w i o a
  | .attrLoad _ => ⟨w, attrLoadOut w o, []⟩
  | .setAttr _ =>
    if over w o then ⟨w, .sessionOver .assign, []⟩ else
    if o.status.isDel then ⟨w, .wasDeleted, []⟩ else ⟨w, .live, []⟩
  | .attrChanged _ =>
    if over w o then ⟨w, .sessionOver .assign, []⟩ else
    if o.status.isDel then ⟨w, .wasDeleted, []⟩ else ⟨w, .live, []⟩
  | .setMany =>
    if over w o then ⟨w, .sessionOver .changeObject, []⟩ else
    if o.status.isDel then ⟨w, .wasDeleted, []⟩ else ⟨w, .live, []⟩
  | .delete =>
    if over w o then ⟨w, .sessionOver .deleteObject, []⟩ else ⟨w, .live, []⟩
  | .flush =>
    -- `if status not in (...): return`; liveness guard; `assert save_pos is not None`; `assert not cache.saved_objects`
    if !o.status.isPending then ⟨w, .noop, []⟩ else
    if over w o then ⟨w, .sessionOver .flushObject, []⟩ else
    if o.savePos.isNone then ⟨w, .assertion, []⟩ else
    if w.savedPending then ⟨w, .assertion, []⟩ else ⟨w, .live, []⟩
  | .load =>
    if over w o then ⟨w, .sessionOver .loadObject, []⟩ else ⟨w, .live, []⟩
  | .loadInternal =>
    if over w o then ⟨w, .sessionOver .loadObject, []⟩ else ⟨w, .live, []⟩
  | .toDict attrs =>
    -- `if cache is not None and cache.is_alive and cache.modified: cache.flush()` is live-only
    if !(over w o) then ⟨w, .live, []⟩ else toDictLoop i attrs w []
  | .collGet _ => collGet w o
  | .collAssign _ same =>
    if same then ⟨w, .noop, []⟩ else
    if over w o then ⟨w, .sessionOver .changeCollection, []⟩ else
    if o.status.isDel then ⟨w, .wasDeleted, []⟩ else ⟨w, .live, []⟩
  | .collAdd _ | .collRemove _ | .collClear _ =>
    if over w o then ⟨w, .sessionOver .changeCollection, []⟩ else
    if o.status.isDel then ⟨w, .wasDeleted, []⟩ else ⟨w, .live, []⟩
  | .collCopy a => collCopy w o a
  | .collLen a =>
    if o.status.isDel then ⟨w, .wasDeleted, []⟩ else
    match o.vals with
    | none => ⟨w, .sessionOver .readValue, []⟩
    | some vs =>
      match lookup vs a.id with
      | some (.coll sd) => if sd.full then ⟨w, .value (.nat sd.items.length), []⟩ else ⟨w, setLoadOut w o, []⟩
      | _ => ⟨w, setLoadOut w o, []⟩
  | .collCount a =>
    if o.status.isDel then ⟨w, .wasDeleted, []⟩ else
    match o.vals with
    | none => ⟨w, .sessionOver .readValue, []⟩
    | some vs =>
      -- `if setdata is not None and setdata.count is not None: return setdata.count`; liveness guard; only then the slot is materialised
      let known : Option Nat := match lookup vs a.id with
        | some (.coll sd) => sd.count
        | _ => none
      match known with
      | some c => ⟨w, .value (.nat c), []⟩
      | none => if over w o then ⟨w, .sessionOver .readValue, []⟩ else ⟨w, .live, []⟩
  | .collIsEmpty a =>
    if o.status.isDel then ⟨w, .wasDeleted, []⟩ else
    match o.vals with
    | none => ⟨w, .sessionOver .readValue, []⟩
    | some vs =>
      -- answers from memory first; the liveness guard stands before the slot is materialised and before any SQL
      let guard : Res := if over w o then ⟨w, .sessionOver .readValue, []⟩ else ⟨w, .live, []⟩
      match lookup vs a.id with
      | some (.coll sd) =>
        if sd.full then ⟨w, .value (.bool sd.items.isEmpty), []⟩ else
        if !sd.items.isEmpty then ⟨w, .value (.bool false), []⟩ else
        match sd.count with
        | some c => ⟨w, .value (.bool (c == 0)), []⟩
        | none => guard
      | _ => guard
  | .collContains a j =>
    if o.status.isDel then ⟨w, .wasDeleted, []⟩ else
    match o.vals with
    | none => ⟨w, .sessionOver .readValue, []⟩
    | some vs =>
      match w.objs[j]? with
      | none => ⟨w, .typeError, []⟩
      | some it =>
        if it.hasCache != o.hasCache then ⟨w, .mixed, []⟩ else
        match it.vals with
        | none => ⟨w, .typeError, []⟩
        | some ivs =>
          if !a.revIsColl then
            match lookup ivs a.rev with
            | some s =>
              let w' := w.setObj j (bump it a.revBit)
              ⟨w', .value (.bool (s == .val (Int.ofNat i))), []⟩
            | none =>
              -- `reverse.load(item)`
              ⟨w, attrLoadOut w it, []⟩
          else
            match lookup vs a.id with
            | some (.coll sd) =>
              if sd.items.contains j then ⟨w, .value (.bool true), []⟩ else
              if sd.full then ⟨w, .value (.bool false), []⟩ else
              if mem? sd.absent j then ⟨w, .value (.bool false), []⟩ else ⟨w, setLoadOut w o, []⟩
            | _ =>
              match lookup ivs a.rev with
              | some (.coll rsd) => if rsd.full then ⟨w, .value (.bool (rsd.items.contains i)), []⟩ else ⟨w, setLoadOut w o, []⟩
              | _ => ⟨w, setLoadOut w o, []⟩
  | .collLoad _ => ⟨w, setLoadOut w o, []⟩
  | .collSelect _ =>
    if o.status.isDel then ⟨w, .wasDeleted, []⟩ else ⟨w, .value .query, []⟩
  | .collStr _ =>
    -- `if cache is None or not cache.is_alive: content = '...'`
    if over w o then ⟨w, .value .dots, []⟩ else ⟨w, .live, []⟩
  | .collCreate _ =>
    -- `item_type(**kwargs)` with `kwargs[reverse.name] = obj`: the same validate as `E(ref=obj)`
    if !env.ambient then ⟨w, .dbRequired, []⟩ else
    if over w o then ⟨w, .mixed, []⟩ else ⟨w, .live, []⟩
  | .staleArg =>
    -- Attribute.validate / Set.validate, for the bare instance as well as for every item of a list / set / tuple:
    -- `if item._session_cache_ is not cache: throw(TransactionError, 'An attempt to mix objects belonging to different transactions')`
    -- where `cache` is the live object's (or the current) session cache
    if !env.ambient then ⟨w, .dbRequired, []⟩ else
    if over w o then ⟨w, .mixed, []⟩ else ⟨w, .live, []⟩
  | .useAsRef =>
    -- Attribute.validate for the new object: `cache = entity._database_._get_cache()`; `if cache is not val._session_cache_`
    if !env.ambient then ⟨w, .dbRequired, []⟩ else
    if over w o then ⟨w, .mixed, []⟩ else ⟨w, .live, []⟩

/-! ### classification of the operations (used to state the theorems) -/

/-- assignments, collection changes, deletion -/
def Op.isMutator : Op → Bool
  | .setAttr _ | .attrChanged _ | .setMany | .delete | .collAdd _ | .collRemove _ | .collClear _ => true
  | .collAssign _ same => !same
  | _ => false

/-- explicit loads -/
def Op.isLoad : Op → Bool
  | .attrLoad _ | .load | .loadInternal | .collLoad _ => true
  | _ => false

def Op.action : Op → Action
  | .setAttr _ => .assign
  | .attrChanged _ => .assign
  | .setMany => .changeObject
  | .delete => .deleteObject
  | .collAssign _ _ | .collAdd _ | .collRemove _ | .collClear _ => .changeCollection
  | .attrLoad _ => .loadAttribute
  | .load | .loadInternal => .loadObject
  | .flush => .flushObject
  | .collLoad _ => .loadCollection
  | _ => .readValue

end PonyVerif.Model.Finished
