/-
  Model/Undo.lean — the DO/UNDO model of the in-memory session (property C13).

  Mirrors, for objects created in the session (fully loaded), these parts of pony/orm/core.py:
    Attribute.__set__ (top-level and reverse call)   -> attrSetTop / attrSetRev / attrClearRev (+ mark, moveSimple, moveComp)
    Attribute.update_reverse                          -> updateReverse
    Set.reverse_add / Set.reverse_remove              -> reverseAdd / reverseRemove
    Set.__set__ (top-level and reverse call)          -> setColl
    SetInstance.add / remove / clear                  -> collAdd / collRemove / setColl .. []
    Entity.__init__ + _get_from_identity_map_         -> create
    Entity.set(**kw)                                  -> setMany
    Entity._delete_ (cascade)                         -> delete
    SessionCache.flush (in-memory effects only)       -> flush
  State: per object status, primary key, `_save_pos_`, write bits, attribute values, SetData items/added/removed/count;
  per session `objects_to_save` (with None holes), the primary-key / unique / composite-key indexes,
  `modified_collections`, `cache.modified`.

  DO/UNDO structure: every mutation for which the code registers an undo closure pushes the inverse the CLOSURE
  performs on `St.trail`; mutations the code performs WITHOUT registering an inverse are performed without one here
  too (`cache.modified = True`, the direct `_vals_` writes of `Entity.__init__` to the object under construction, all
  the rewrites that follow the `try` block of a user call); a failing top-level call runs the trail newest-first exactly
  as `for undo_func in reversed(undo_funcs): undo_func()`.

  Conventions (stated in the evidence):
   * keys (unique / composite) are made of int attributes only; the primary key is a single int attribute `id`;
   * `None` and "not loaded" are the same value (objects are created in the session: the database holds NULL there);
     `added/removed = None` and the empty set are the same value (the code only tests truthiness);
   * Python `set` iteration order is replaced by ascending object id;
   * one closure that loops over several objects (reverse_add / reverse_remove) is one trail entry per object
     (the objects are distinct, the per-object inverses commute);
   * a closure whose captured list is filled after registration (index moves of Attribute.__set__ / Entity.set,
     `undo_list` of `_delete_`) is pushed when the list is complete; no other closure is registered in between;
   * internal `assert`s are assumed not to fail; where the model keeps one it is checked BEFORE the mutation it guards.
  Core Lean only (linked into the driver).
-/
namespace PonyVerif.Model.Undo

abbrev ObjId := Nat
abbrev EntId := Nat
abbrev AttrId := Nat
abbrev KeyId := Nat

/-! ## 1. Schema -/

inductive Kind | scalar | ref | coll
deriving DecidableEq, Repr, Inhabited

structure AttrDecl where
  ent : EntId
  kind : Kind
  required : Bool := false
  cascade : Bool := false      -- effective `cascade_delete`
  rev : AttrId := 0            -- `attr.reverse` (itself for a symmetric attribute); unused for scalars
  unique : Bool := false       -- `unique=True` (scalars only)
  bit : Bool := true           -- `obj._bits_[attr] != 0` (the attribute has a column)
deriving Repr, Inhabited

structure Schema where
  attrs : List AttrDecl            -- AttrId = position = declaration order
  ckeys : List (List AttrId)       -- composite keys in declaration order, KeyId = position
deriving Repr, Inhabited

namespace Schema

def decl (sch : Schema) (a : AttrId) : Option AttrDecl := sch.attrs[a]?

/-- `entity._attrs_` without the primary key, in declaration order -/
def attrsOf (sch : Schema) (e : EntId) : List AttrId :=
  (List.range sch.attrs.length).filter fun a => match sch.decl a with
    | some d => d.ent == e
    | none => false

def entOfKey (sch : Schema) (k : KeyId) : Option EntId :=
  match sch.ckeys[k]? with
  | some (a :: _) => (sch.decl a).map (·.ent)
  | _ => none

/-- `entity._composite_keys_` -/
def ckeysOf (sch : Schema) (e : EntId) : List KeyId :=
  (List.range sch.ckeys.length).filter fun k => sch.entOfKey k == some e

def keyAttrs (sch : Schema) (k : KeyId) : List AttrId := (sch.ckeys[k]?).getD []

/-- `attr.composite_keys` (the keys the attribute is part of) -/
def ckeysWith (sch : Schema) (a : AttrId) : List KeyId :=
  (List.range sch.ckeys.length).filter fun k => (sch.keyAttrs k).contains a

/-- the attribute is an int attribute (not a relationship) -/
def isScalar (sch : Schema) (a : AttrId) : Bool :=
  match sch.decl a with
  | some d => d.kind = .scalar
  | none => false

def isKeyPart (sch : Schema) (a : AttrId) : Bool :=
  (match sch.decl a with
   | some d => d.unique
   | none => false) || !(sch.ckeysWith a).isEmpty

end Schema

/-! ## 2. Store -/

inductive Status | created | inserted | updated | modified | marked | cancelled | deleted
deriving DecidableEq, Repr, Inhabited

/-- the statuses of objects that have a place in objects_to_save -/
def Status.queued : Status → Bool
  | .created | .modified | .marked => true
  | _ => false

def Status.isDel : Status → Bool
  | .marked | .cancelled | .deleted => true
  | _ => false

/-- one object -/
structure Row where
  ent : EntId := 0
  status : Status := .deleted
  pk : Option Nat := none
  savePos : Option Nat := none
  wbits : AttrId → Bool := fun _ => false
  val : AttrId → Option Nat := fun _ => none           -- scalar value / object id of a reference
  items : AttrId → ObjId → Bool := fun _ _ => false    -- SetData contents
  added : AttrId → ObjId → Bool := fun _ _ => false
  removed : AttrId → ObjId → Bool := fun _ _ => false
  count : AttrId → Int := fun _ => 0

instance : Inhabited Row := ⟨{}⟩

/-- a key of one of the session indexes (ghost bookkeeping for dumping only) -/
inductive IdxKey
  | pk (e : EntId) (p : Nat)
  | simple (a : AttrId) (v : Nat)
  | comp (k : KeyId) (vs : List Nat)
deriving DecidableEq, Repr

structure Store where
  n : Nat := 0                                             -- objects are `0 .. n-1`; rows `≥ n` are not part of the session
  row : ObjId → Row := fun _ => {}
  toSave : List (Option ObjId) := []                       -- cache.objects_to_save
  pkIdx : EntId → Nat → Option ObjId := fun _ _ => none    -- cache.indexes[pk_attrs]
  idx : AttrId → Nat → Option ObjId := fun _ _ => none     -- cache.indexes[attr]
  cidx : KeyId → List Nat → Option ObjId := fun _ _ => none  -- cache.indexes[attrs]
  modColl : AttrId → ObjId → Bool := fun _ _ => false      -- cache.modified_collections
  modified : Bool := false                                 -- cache.modified (never restored by the code; not observed)
  modKey : AttrId → Bool := fun _ => false                 -- the attribute is a KEY of the dict cache.modified_collections (never restored; not observed)
  seen : List IdxKey := []                                 -- ghost: every key ever inserted (for dumping the indexes)

instance : Inhabited Store := ⟨{}⟩

def set1 {β : Type} (f : Nat → β) (a : Nat) (b : β) : Nat → β := fun a' => if a' = a then b else f a'
def set2 {β : Type} (f : Nat → Nat → β) (a x : Nat) (b : β) : Nat → Nat → β := fun a' x' => if a' = a ∧ x' = x then b else f a' x'
def setK {β : Type} (f : Nat → List Nat → β) (k : Nat) (vs : List Nat) (b : β) : Nat → List Nat → β :=
  fun k' vs' => if k' = k ∧ vs' = vs then b else f k' vs'

namespace Store

def upd (s : Store) (o : ObjId) (f : Row → Row) : Store :=
  { s with row := fun p => if p = o then f (s.row p) else s.row p }

/-- members of a set in ascending id order (stands for iterating a Python `set`) -/
def elems (s : Store) (f : ObjId → Bool) : List ObjId := (List.range s.n).filter f

def nonEmpty (s : Store) (f : ObjId → Bool) : Bool := (List.range s.n).any f

end Store

namespace Row

/-- Set.reverse_add on one SetData: `setdata.add(item); count += 1; removed.remove(item) / added.add(item)` -/
def revAdd (r : Row) (c : AttrId) (item : ObjId) (inRemoved : Bool) : Row :=
  { r with items := set2 r.items c item true, count := set1 r.count c (r.count c + 1),
           removed := if inRemoved then set2 r.removed c item false else r.removed,
           added := if inRemoved then r.added else set2 r.added c item true }

/-- its undo closure: `setdata.remove(item); count -= 1; removed.add(item) / added.remove(item)` -/
def unRevAdd (r : Row) (c : AttrId) (item : ObjId) (inRemoved : Bool) : Row :=
  { r with items := set2 r.items c item false, count := set1 r.count c (r.count c - 1),
           removed := if inRemoved then set2 r.removed c item true else r.removed,
           added := if inRemoved then r.added else set2 r.added c item false }

/-- Set.reverse_remove on one SetData -/
def revRemove (r : Row) (c : AttrId) (item : ObjId) (inAdded : Bool) : Row :=
  { r with items := set2 r.items c item false, count := set1 r.count c (r.count c - 1),
           added := if inAdded then set2 r.added c item false else r.added,
           removed := if inAdded then r.removed else set2 r.removed c item true }

/-- its undo closure -/
def unRevRemove (r : Row) (c : AttrId) (item : ObjId) (inAdded : Bool) : Row :=
  { r with items := set2 r.items c item true, count := set1 r.count c (r.count c + 1),
           added := if inAdded then set2 r.added c item true else r.added,
           removed := if inAdded then r.removed else set2 r.removed c item false }

/-- write one whole SetData -/
def putColl (r : Row) (c : AttrId) (items added removed : ObjId → Bool) (count : Int) : Row :=
  { r with items := set1 r.items c items, added := set1 r.added c added, removed := set1 r.removed c removed, count := set1 r.count c count }

end Row

/-! ## 3. Undo trail -/

/-- one recorded index move `(cache_index, old_key, new_key)` -/
inductive IdxMove
  | simple (a : AttrId) (old new : Option Nat)
  | comp (k : KeyId) (old new : Option (List Nat))
deriving Repr

/-- one registered undo closure -/
inductive Undo
  /-- Attribute.__set__: status, wbits, save queue, value, index moves -/
  | attrSet (o : ObjId) (a : AttrId) (status : Status) (wbits : AttrId → Bool) (pop : Bool) (old : Option Nat) (moves : List IdxMove)
  /-- Entity.set: status, wbits, save queue, index moves -/
  | setMany (o : ObjId) (status : Status) (wbits : AttrId → Bool) (pop : Bool) (moves : List IdxMove)
  /-- Set.reverse_add, one object -/
  | revAdd (c : AttrId) (obj item : ObjId) (inRemoved wasMod : Bool)
  /-- Set.reverse_remove, one object -/
  | revRemove (c : AttrId) (obj item : ObjId) (inAdded wasMod : Bool)
  /-- Set.__set__ called with an undo list: the SetData rewrite -/
  | rewrite (o : ObjId) (c : AttrId) (items added removed : ObjId → Bool) (count : Int) (wasMod : Bool)
  /-- _get_from_identity_map_(status='created') -/
  | created (id : ObjId) (e : EntId) (pk : Option Nat)
  /-- Entity._delete_ -/
  | del (o : ObjId) (curStatus : Status) (curSavePos : Option Nat) (keys : List IdxKey)

def undoMove (o : ObjId) (s : Store) : IdxMove → Store
  | .simple a old new =>
    let i1 := match new with | some v => set2 s.idx a v none | none => s.idx       -- if new_key is not None: del cache_index[new_key]
    let i2 := match old with | some v => set2 i1 a v (some o) | none => i1         -- if old_key is not None: cache_index[old_key] = obj
    { s with idx := i2 }
  | .comp k old new =>
    let i1 := match new with | some v => setK s.cidx k v none | none => s.cidx
    let i2 := match old with | some v => setK i1 k v (some o) | none => i1
    { s with cidx := i2 }

def restoreKey (o : ObjId) (s : Store) : IdxKey → Store
  | .pk e p => { s with pkIdx := set2 s.pkIdx e p (some o) }
  | .simple a v => { s with idx := set2 s.idx a v (some o) }
  | .comp k vs => { s with cidx := setK s.cidx k vs (some o) }

/-- `obj2 = objects_to_save.pop(); obj._save_pos_ = None` -/
def popSave (o : ObjId) (s : Store) : Store :=
  { (s.upd o fun r => { r with savePos := none }) with toSave := s.toSave.dropLast }

def undo1 (s : Store) : Undo → Store
  | .attrSet o a status wbits pop old moves =>
    let s := s.upd o fun r => { r with status := status, wbits := wbits }
    let s := if pop then popSave o s else s
    let s := s.upd o fun r => { r with val := set1 r.val a old }
    moves.foldl (undoMove o) s
  | .setMany o status wbits pop moves =>
    let s := s.upd o fun r => { r with status := status, wbits := wbits }
    let s := if pop then popSave o s else s
    moves.foldl (undoMove o) s
  | .revAdd c obj item inRemoved wasMod =>
    let s := s.upd obj fun r => r.unRevAdd c item inRemoved
    if wasMod then s else { s with modColl := set2 s.modColl c obj false }
  | .revRemove c obj item inAdded wasMod =>
    let s := s.upd obj fun r => r.unRevRemove c item inAdded
    if wasMod then s else { s with modColl := set2 s.modColl c obj false }
  | .rewrite o c items added removed count wasMod =>
    let s := s.upd o fun r => r.putColl c items added removed count
    if wasMod then s else { s with modColl := set2 s.modColl c o false }
  | .created id e pk =>
    let s := { s with n := id }                                        -- cache.objects.discard(obj)
    match pk with
    | some p => if s.pkIdx e p = some id then { s with pkIdx := set2 s.pkIdx e p none } else s
    | none => s
  | .del o curStatus curSavePos keys =>
    let st := (s.row o).status
    let s :=
      if st = .marked then
        let s := { s with toSave := s.toSave.dropLast }                -- objects_to_save.pop()
        let s := match curSavePos with
          | some p => { s with toSave := s.toSave.set p (some o) }
          | none => s
        s.upd o fun r => { r with savePos := curSavePos }
      else if st = .cancelled then
        let s := match curSavePos with
          | some p => { s with toSave := s.toSave.set p (some o) }
          | none => s
        s.upd o fun r => { r with savePos := curSavePos }
      else s
    let s := s.upd o fun r => { r with status := curStatus }
    keys.foldl (restoreKey o) s

/-- `for undo_func in reversed(undo_funcs): undo_func()` (the trail is kept newest-first) -/
def undoAll : List Undo → Store → Store
  | [], s => s
  | u :: us, s => undoAll us (undo1 s u)

/-- execution state of one top-level call -/
structure St where
  store : Store
  trail : List Undo := []

/-! ## 4. Result monad -/

inductive Err
  | objectDeleted      -- OperationWithDeletedObjectError
  | valueError         -- ValueError (validation: required attribute set to None, wrong value type)
  | typeError          -- TypeError (object of another entity)
  | constraintError    -- ConstraintError
  | cacheIndexError    -- CacheIndexError (key conflicts)
  | keyError           -- KeyError (index entry missing)
  | assertionError     -- AssertionError (internal `assert`)
  | recursionError     -- RecursionError (cascade cycle)
  | noSuchObject       -- not expressible in Python (unknown id)
  | noSuchAttr         -- not expressible in Python (attribute of another entity / wrong kind)
deriving DecidableEq, Repr

inductive Res
  | ok (st : St)
  | err (e : Err) (st : St)

def Res.st : Res → St
  | .ok st => st
  | .err _ st => st

def Res.bind : Res → (St → Res) → Res
  | .ok st, f => f st
  | .err e st, _ => .err e st

def iter {α : Type} (f : α → St → Res) : List α → St → Res
  | [], st => .ok st
  | x :: xs, st => (f x st).bind (iter f xs)

def St.log (st : St) (u : Undo) : St := { st with trail := u :: st.trail }
def St.setStore (st : St) (s : Store) : St := { st with store := s }

/-! ## 5. Primitive mutations -/

/-- the start of Attribute.__set__ / Entity.set: write bits, status `modified`, place in the save queue.
    Returns the new store and `objects_to_save_needs_undo`. -/
def mark (o : ObjId) (bits : List AttrId) (force : Bool) (s : Store) : Store × Bool :=
  let r := s.row o
  if r.status = .created then (s, false)                                   -- wbits is None
  else if bits.isEmpty && !force then (s, false)                           -- `if wbits is not None and bit`
  else
    let s1 := s.upd o fun r => { r with wbits := fun a => r.wbits a || bits.contains a }
    if r.status = .inserted || r.status = .updated then                    -- assert status in ('loaded', 'inserted', 'updated')
      let s2 := s1.upd o fun r => { r with status := .modified, savePos := some s1.toSave.length }
      ({ s2 with toSave := s2.toSave ++ [some o], modified := true }, true)
    else (s1, false)                                                       -- status == 'modified'

/-- `cache.update_simple_index(obj, attr, old_val, new_val, undo)`: `none` = CacheIndexError, else new store, recorded move, KeyError flag -/
def moveSimple (o : ObjId) (a : AttrId) (old new : Option Nat) (s : Store) : Option (Store × List IdxMove × Bool) :=
  if old = new then some (s, [], false) else
  let r1 : Option Store := match new with
    | none => some s
    | some v => match s.idx a v with                                       -- obj2 = cache_index.setdefault(new_val, obj)
      | none => some { s with idx := set2 s.idx a v (some o), seen := .simple a v :: s.seen }
      | some o2 => if o2 = o then some s else none                         -- if obj2 is not obj: throw(CacheIndexError)
  match r1 with
  | none => none
  | some s1 =>
    match old with
    | none => some (s1, [.simple a old new], false)
    | some u =>
      if (s1.idx a u).isNone then some (s1, [], true)                      -- del cache_index[old_val] -> KeyError (nothing recorded)
      else some ({ s1 with idx := set2 s1.idx a u none }, [.simple a old new], false)

/-- a key tuple, `None` if a part is None -/
def tuple (vals : List (Option Nat)) : Option (List Nat) :=
  if vals.all Option.isSome && !vals.isEmpty then some (vals.map fun v => v.getD 0) else none

/-- `cache.update_composite_index(obj, attrs, prev_vals, new_vals, undo)` -/
def moveComp (o : ObjId) (k : KeyId) (prev new : Option (List Nat)) (s : Store) : Option (Store × List IdxMove × Bool) :=
  if prev = new then some (s, [], false) else
  let r1 : Option Store := match new with
    | none => some s
    | some v => match s.cidx k v with
      | none => some { s with cidx := setK s.cidx k v (some o), seen := .comp k v :: s.seen }
      | some o2 => if o2 = o then some s else none
  match r1 with
  | none => none
  | some s1 =>
    match prev with
    | none => some (s1, [.comp k prev new], false)
    | some u =>
      if (s1.cidx k u).isNone then some (s1, [], true)
      else some ({ s1 with cidx := setK s1.cidx k u none }, [.comp k prev new], false)

/-- outcome of a sequence of index moves -/
inductive Moves
  | done (s : Store) (moves : List IdxMove)
  | conflict (s : Store) (moves : List IdxMove)
  | missing (s : Store) (moves : List IdxMove)

/-- the composite-key part of `runMoves` -/
def movesC (sch : Schema) (o : ObjId) (cur newVal : AttrId → Option Nat) : List KeyId → Store → List IdxMove → Moves
  | [], s, acc => .done s acc
  | k :: ks, s, acc =>
    let attrs := sch.keyAttrs k
    match moveComp o k (tuple (attrs.map cur)) (tuple (attrs.map newVal)) s with
    | none => .conflict s acc
    | some (s1, m, true) => .missing s1 (acc ++ m)
    | some (s1, m, false) => movesC sch o cur newVal ks s1 (acc ++ m)

/-- the simple-key part of `runMoves`, followed by the composite keys -/
def movesS (sch : Schema) (o : ObjId) (comps : List KeyId) (cur newVal : AttrId → Option Nat) : List AttrId → Store → List IdxMove → Moves
  | [], s, acc => movesC sch o cur newVal comps s acc
  | a :: as, s, acc =>
    match moveSimple o a (cur a) (newVal a) s with
    | none => .conflict s acc
    | some (s1, m, true) => .missing s1 (acc ++ m)
    | some (s1, m, false) => movesS sch o comps cur newVal as s1 (acc ++ m)

/-- the index updates of one call for object `o` whose non-collection values change as in `newVal` -/
def runMoves (sch : Schema) (o : ObjId) (simple : List AttrId) (comps : List KeyId) (newVal : AttrId → Option Nat)
    (s : Store) : Moves :=
  movesS sch o comps (s.row o).val newVal simple s []

/-! ## 6. Collections: reverse calls -/

/-- one iteration of `Set.reverse_add(attr=c, objects, item, undo_funcs)` -/
def reverseAdd1 (c : AttrId) (item : ObjId) (obj : ObjId) (st : St) : Res :=
  let r := st.store.row obj
  if r.items c item || r.added c item then .err .assertionError st          -- assert item not in setdata / setdata.added
  else
    let inRemoved := r.removed c item
    let wasMod := st.store.modColl c obj
    let s1 := st.store.upd obj fun r => r.revAdd c item inRemoved
    let s2 := { s1 with modColl := set2 s1.modColl c obj true }
    .ok ((st.setStore s2).log (.revAdd c obj item inRemoved wasMod))

/-- `objects_with_modified_collections = cache.modified_collections[attr]` (a defaultdict: the key appears) -/
def touchKey (c : AttrId) (st : St) : St := st.setStore { st.store with modKey := set1 st.store.modKey c true }

def reverseAdd (c : AttrId) (objs : List ObjId) (item : ObjId) (st : St) : Res :=
  iter (reverseAdd1 c item) objs (touchKey c st)

/-- one iteration of `Set.reverse_remove(attr=c, objects, item, undo_funcs)` -/
def reverseRemove1 (c : AttrId) (item : ObjId) (obj : ObjId) (st : St) : Res :=
  let r := st.store.row obj
  if !r.items c item || r.removed c item then .err .assertionError st       -- assert item in setdata; assert item not in setdata.removed
  else
    let inAdded := r.added c item
    let wasMod := st.store.modColl c obj
    let s1 := st.store.upd obj fun r => r.revRemove c item inAdded
    let s2 := { s1 with modColl := set2 s1.modColl c obj true }
    .ok ((st.setStore s2).log (.revRemove c obj item inAdded wasMod))

def reverseRemove (c : AttrId) (objs : List ObjId) (item : ObjId) (st : St) : Res :=
  iter (reverseRemove1 c item) objs (touchKey c st)

/-! ## 7. Attribute.__set__ as a reverse call (reference attributes; they are never part of a key) -/

/-- the common start: mark, then register the closure (no index moves for a reference attribute) and write the value -/
def refWrite (bit : Bool) (o : ObjId) (a : AttrId) (v : Option Nat) (st : St) : St :=
  let r := st.store.row o
  let (s1, pop) := mark o (if bit then [a] else []) false st.store
  let e := Undo.attrSet o a r.status r.wbits pop (r.val a) []
  if r.val a = v then (st.setStore s1).log e                               -- if old_val == new_val: return
  else (st.setStore (s1.upd o fun r => { r with val := set1 r.val a v })).log e

/-- `Attribute.__set__(obj=o, new_val=None, undo_funcs)` -/
def attrClearRev (sch : Schema) (o : ObjId) (a : AttrId) (st : St) : Res :=
  if !(o < st.store.n) then .err .noSuchObject st else                      -- (not expressible in Python: a reference to no object)
  if (st.store.row o).status.isDel then .err .objectDeleted st else         -- throw_object_was_deleted
  if sch.isKeyPart a then .err .noSuchAttr st else                          -- (outside the model: a relationship attribute that is part of a key)
  match sch.decl a, sch.decl ((sch.decl a).map (·.rev) |>.getD a) with
  | some d, some rd =>
    if d.required then .err .valueError st else                             -- Required.validate(None)
    let old := (st.store.row o).val a
    let st1 := refWrite d.bit o a none st
    match old with
    | none => .ok st1
    | some u =>
      if rd.kind = .coll then reverseRemove d.rev [u] o st1                 -- reverse.reverse_remove((old_val,), obj, ..)
      else .ok st1                                                          -- reverse is a reference, new_val is None
  | _, _ => .err .noSuchAttr st

/-- `Attribute.__set__(obj=o, new_val=x, undo_funcs)`, `x` not None -/
def attrSetRev (sch : Schema) (o : ObjId) (a : AttrId) (x : ObjId) (st : St) : Res :=
  if !(o < st.store.n) then .err .noSuchObject st else
  if (st.store.row o).status.isDel then .err .objectDeleted st else
  if sch.isKeyPart a then .err .noSuchAttr st else
  match sch.decl a, sch.decl ((sch.decl a).map (·.rev) |>.getD a) with
  | some d, some rd =>
    let old := (st.store.row o).val a
    let st1 := refWrite d.bit o a (some x) st
    if old = some x then .ok st1 else
    match old with
    | none => .ok st1
    | some u =>
      if rd.kind = .coll then reverseRemove d.rev [u] o st1
      else if rd.required then .err .constraintError st1                    -- Cannot unlink ... attribute is required
      else if u = o ∧ d.rev = a then .ok st1                                -- old_val is obj and reverse is attr
      else attrClearRev sch u d.rev st1                                     -- reverse.__set__(old_val, None, undo_funcs)
  | _, _ => .err .noSuchAttr st

/-! ## 8. Set.__set__ -/

/-- the bookkeeping after `setdata.clear(); setdata |= new_items` in Set.__set__ -/
def rewriteSet (s : Store) (o : ObjId) (c : AttrId) (new : ObjId → Bool) (toAdd toRemove : ObjId → Bool) : Store :=
  let r := s.row o
  let added0 := r.added c
  let removed0 := r.removed c
  let hasAdd := s.nonEmpty toAdd
  let hasRem := s.nonEmpty toRemove
  let added0T := s.nonEmpty added0
  let removed0T := s.nonEmpty removed0
  -- if to_add: if removed: (to_add, setdata.removed) = (to_add - removed, removed - to_add); if added: added |= to_add else setdata.added = to_add
  let toAdd' : ObjId → Bool := if hasAdd && removed0T then fun x => toAdd x && !removed0 x else toAdd
  let removed1 : ObjId → Bool := if hasAdd && removed0T then fun x => removed0 x && !toAdd x else removed0
  let added1 : ObjId → Bool := if hasAdd then (if added0T then fun x => added0 x || toAdd' x else toAdd') else added0
  -- if to_remove: added = setdata.added; removed = setdata.removed   (re-read: both may have been rebound above)
  --   if added: (to_remove, setdata.added) = (to_remove - added, added - to_remove); if removed: removed |= to_remove else setdata.removed = to_remove
  let added1T := s.nonEmpty added1
  let removed1T := s.nonEmpty removed1
  let toRemove' : ObjId → Bool := if hasRem && added1T then fun x => toRemove x && !added1 x else toRemove
  let added2 : ObjId → Bool := if hasRem && added1T then fun x => added1 x && !toRemove x else added1
  let removed2 : ObjId → Bool :=
    if hasRem then (if removed1T then fun x => removed1 x || toRemove' x else toRemove')
    else removed1
  let cnt : Int := ((List.range s.n).filter new).length
  let s1 := s.upd o fun r => r.putColl c new added2 removed2 cnt
  { s1 with modColl := set2 s1.modColl c o true, modKey := set1 s1.modKey c true, modified := true }

/-- `Set.__set__(attr=c, obj=o, new_items, undo_funcs)`; `del` is `Entity._delete_` (cascade branch).
    `isRev` = called with an undo list. -/
def setColl (sch : Schema) (del : ObjId → St → Res) (isRev : Bool) (o : ObjId) (c : AttrId)
    (items : List ObjId) (st : St) : Res :=
  if (st.store.row o).status.isDel then .err .objectDeleted st else
  match sch.decl c, sch.decl ((sch.decl c).map (·.rev) |>.getD c) with
  | some d, some rd =>
    let s := st.store
    let cur := (s.row o).items c
    if (List.range s.n).all (fun x => cur x == items.contains x) then .ok st else    -- new_items == setdata: return
    let toAdd := (List.range s.n).filter fun x => items.contains x && !cur x
    let toRemove := (List.range s.n).filter fun x => cur x && !items.contains x
    let r :=
      if rd.kind != .coll then
        (if d.cascade then iter del toRemove st                                       -- item._delete_(undo_funcs)
         else iter (fun item => attrClearRev sch item d.rev) toRemove st).bind        -- reverse.__set__(item, None, ..)
          (iter (fun item => attrSetRev sch item d.rev o) toAdd)                      -- reverse.__set__(item, obj, ..)
      else (reverseRemove d.rev toRemove o st).bind (reverseAdd d.rev toAdd o)
    r.bind fun st =>
      let r := st.store.row o
      -- the cascade may have deleted items that were to stay in the collection: they are not put back
      let kept := if rd.kind != .coll && d.cascade then items.filter (fun x => !(st.store.row x).status.isDel) else items
      let st := if isRev then st.log (.rewrite o c (r.items c) (r.added c) (r.removed c) (r.count c) (st.store.modColl c o)) else st
      -- to_add -= setdata; to_remove &= setdata: only what the reverse calls above (reverse.__set__ of one-to-many items, reverse_add /
      -- reverse_remove for a symmetric owner) have not already handled in this very collection is recorded in added / removed
      .ok (st.setStore (rewriteSet st.store o c (fun x => kept.contains x) (fun x => toAdd.contains x && !(r.items c x))
        (fun x => toRemove.contains x && r.items c x)))
  | _, _ => .err .noSuchAttr st

/-! ## 9. Entity._delete_ -/

/-- composite key entries of `o`: `cache_index.pop(vals)`; the flag says an entry was missing (KeyError) -/
def popC (sch : Schema) (o : ObjId) (val : AttrId → Option Nat) : List KeyId → Store → List IdxKey → Store × List IdxKey × Bool
  | [], s, acc => (s, acc, false)
  | k :: ks, s, acc =>
    match tuple ((sch.keyAttrs k).map val) with
    | none => popC sch o val ks s acc
    | some vs =>
      if s.cidx k vs = some o then popC sch o val ks { s with cidx := setK s.cidx k vs none } (acc ++ [.comp k vs])
      else (s, acc, true)

/-- simple key entries of `o`, then the composite ones -/
def popS (sch : Schema) (o : ObjId) (comps : List KeyId) (val : AttrId → Option Nat) : List AttrId → Store → List IdxKey → Store × List IdxKey × Bool
  | [], s, acc => popC sch o val comps s acc
  | a :: as, s, acc =>
    match val a with
    | none => popS sch o comps val as s acc
    | some v =>
      if s.idx a v = some o then popS sch o comps val as { s with idx := set2 s.idx a v none } (acc ++ [.simple a v])
      else (s, acc, true)

/-- the simple and composite key entries of `o` leave the indexes -/
def popKeys (sch : Schema) (o : ObjId) (s : Store) : Store × List IdxKey × Bool :=
  let r := s.row o
  let simple := (sch.attrsOf r.ent).filter fun a => match sch.decl a with | some d => d.unique | none => false
  popS sch o (sch.ckeysOf r.ent) r.val simple s []

/-- the end of `_delete_`: key entries, status, save queue -/
def finishDelete (sch : Schema) (o : ObjId) (st : St) : Res :=
  let r := st.store.row o
  let curStatus := r.status
  let curSavePos := r.savePos
  if curStatus.isDel then .ok st else                                       -- a nested _delete_ of this object (cascade cycle) already finished: return
  let (s1, keys, missing) := popKeys sch o st.store
  let e := fun (ks : List IdxKey) => Undo.del o curStatus curSavePos ks
  if missing then .err .keyError ((st.setStore s1).log (e keys)) else
  if curStatus = .created then
    match curSavePos with
    | none => .err .assertionError ((st.setStore s1).log (e keys))          -- assert cur_save_pos is not None
    | some p =>
      let s2 := { (s1.upd o fun r => { r with savePos := none, status := .cancelled }) with toSave := s1.toSave.set p none }
      match r.pk with
      | none => .ok ((st.setStore s2).log (e keys))
      | some pk =>
        if s2.pkIdx r.ent pk = some o then
          .ok ((st.setStore { s2 with pkIdx := set2 s2.pkIdx r.ent pk none }).log (e (keys ++ [.pk r.ent pk])))
        else .err .keyError ((st.setStore s2).log (e keys))
  else
    let punched : Option Store :=
      if curStatus = .modified then
        match curSavePos with
        | none => none                                                       -- assert cur_save_pos is not None
        | some p => some { s1 with toSave := s1.toSave.set p none }
      else if curSavePos.isSome then none                                    -- assert cur_save_pos is None
      else some s1
    match punched with
    | none => .err .assertionError ((st.setStore s1).log (e keys))
    | some s2 =>
      let s3 := s2.upd o fun r => { r with savePos := some s2.toSave.length, status := .marked }
      .ok ((st.setStore { s3 with toSave := s3.toSave ++ [some o], modified := true }).log (e keys))

/-- `Entity._delete_(obj=o, undo_funcs)`; fuel stands for Python's recursion limit (cascade cycles) -/
def delete (sch : Schema) : Nat → ObjId → St → Res
  | 0, _, st => .err .recursionError st
  | fuel + 1, o, st =>
    if !(o < st.store.n) then .err .noSuchObject st else                     -- (not expressible in Python: a reference to no object)
    if (st.store.row o).status.isDel then .ok st else                        -- status in del_statuses: return
    let attrs := sch.attrsOf (st.store.row o).ent
    let colls := iter (fun (c : AttrId) (st : St) =>
        match sch.decl c, sch.decl ((sch.decl c).map (·.rev) |>.getD c) with
        | some d, some rd =>
          if d.kind != .coll then .ok st
          else if (st.store.row o).status.isDel then .err .objectDeleted st   -- set_wrapper = attr.__get__(obj): throw_object_was_deleted
                                                                              -- (a nested _delete_ of this object, reached through a cascade cycle, has finished)
          else
            let members := st.store.elems ((st.store.row o).items c)
            if members.isEmpty then .ok st                                   -- not set_wrapper.__nonzero__()
            else if d.cascade then iter (fun x => delete sch fuel x) members st
            else if !rd.required then setColl sch (fun x => delete sch fuel x) true o c [] st
            else .err .constraintError st                                    -- Cannot delete: non-empty set
        | _, _ => .ok st) attrs st
    let refs := colls.bind (iter (fun (a : AttrId) (st : St) =>
        match sch.decl a, sch.decl ((sch.decl a).map (·.rev) |>.getD a) with
        | some d, some rd =>
          if d.kind != .ref then .ok st else
          match (st.store.row o).val a with
          | none => .ok st
          | some x =>
            if rd.kind != .coll then
              if d.cascade then delete sch fuel x st
              else if !rd.required then                                      -- if val._vals_.get(reverse, obj) is obj:
                if (st.store.row x).val d.rev = some o then attrClearRev sch x d.rev st
                else .ok st
              else .err .constraintError st                                  -- Cannot delete: has associated
            else reverseRemove d.rev [x] o st
        | _, _ => .ok st) attrs)
    refs.bind (finishDelete sch o)

/-! ## 10. Top-level calls -/

/-- `Attribute.update_reverse(attr=a, obj=o, old_val, new_val, undo_funcs)` (`d`/`rd` = declarations of `a` / `a.reverse`) -/
def updateReverse (sch : Schema) (fuel : Nat) (d rd : AttrDecl) (o : ObjId) (a : AttrId) (old v : Option ObjId) (st : St) : Res :=
  if rd.kind != .coll then
    let r := match old with
      | none => Res.ok st
      | some u =>
        if u = o ∧ d.rev = a then .ok st                                     -- old_val is obj and reverse is attr (self link)
        else if d.cascade then delete sch fuel u st                          -- old_val._delete_(undo_funcs)
        else if rd.required then .err .constraintError st                    -- Cannot unlink ... attribute is required
        else attrClearRev sch u d.rev st                                     -- reverse.__set__(old_val, None, undo_funcs)
    r.bind fun st => match v with
      | none => .ok st
      | some x => attrSetRev sch x d.rev o st                                -- reverse.__set__(new_val, obj, undo_funcs)
  else
    let r := match old with
      | none => Res.ok st
      | some u => reverseRemove d.rev [u] o st
    r.bind fun st => match v with
      | none => .ok st
      | some x => reverseAdd d.rev [x] o st

/-- an argument value of a call -/
inductive Arg
  | bad                               -- a value of the wrong Python type
  | val (v : Option Nat)              -- int / object id / None
  | coll (items : List ObjId)
deriving Repr

/-- `attr.validate(val, obj)` for one argument: the error or nothing -/
def validate (sch : Schema) (s : Store) (a : AttrId) (arg : Arg) : Option Err :=
  match sch.decl a with
  | none => some .noSuchAttr
  | some d =>
    match d.kind, arg with
    | .scalar, .bad => some .valueError
    | .scalar, .val none => if d.required then some .valueError else none
    | .scalar, .val (some _) => none
    | .ref, .val none => if d.required then some .valueError else none
    | .ref, .val (some x) =>
      if x < s.n then (if (sch.decl d.rev).map (·.ent) = some (s.row x).ent then none else some .typeError) else some .noSuchObject
    | .ref, .bad => some .typeError
    | .coll, .coll items =>
      if items.all (fun x => decide (x < s.n)) then
        (if items.all (fun x => (sch.decl d.rev).map (·.ent) == some (s.row x).ent) then none else some .typeError)
      else some .noSuchObject
    | _, _ => some .noSuchAttr

/-- `Attribute.__set__(obj=o, new_val=v)` called by the user (`a` is a scalar or a reference attribute) -/
def attrSetTop (sch : Schema) (fuel : Nat) (o : ObjId) (a : AttrId) (v : Option Nat) (st : St) : Res :=
  let r := st.store.row o
  if r.status.isDel then .err .objectDeleted st else
  match sch.decl a with
  | none => .err .noSuchAttr st
  | some d =>
    let old := r.val a
    let (s1, pop) := mark o (if d.bit then [a] else []) false st.store
    if d.kind = .scalar && !sch.isKeyPart a then
      .ok (st.setStore (s1.upd o fun r => { r with val := set1 r.val a v }))            -- obj._vals_[attr] = new_val; return
    else
    if old = v then .ok ((st.setStore s1).log (.attrSet o a r.status r.wbits pop old [])) else
    let newVal := set1 r.val a v
    match runMoves sch o (if d.unique then [a] else []) (sch.ckeysWith a) newVal s1 with
    | .conflict s2 m => .err .cacheIndexError ((st.setStore s2).log (.attrSet o a r.status r.wbits pop old m))
    | .missing s2 m => .err .keyError ((st.setStore s2).log (.attrSet o a r.status r.wbits pop old m))
    | .done s2 m =>
      let st2 := (st.setStore (s2.upd o fun r => { r with val := newVal })).log (.attrSet o a r.status r.wbits pop old m)
      if d.kind = .ref then
        match sch.decl d.rev with
        | some rd => updateReverse sch fuel d rd o a old v st2
        | none => .err .noSuchAttr st2
      else .ok st2

def argVal : Arg → Option Nat
  | .val v => v
  | _ => none

def argItems : Arg → List ObjId
  | .coll l => l
  | _ => []

/-- `Entity.set(obj=o, **kw)`; `kw` in keyword order, already validated -/
def setMany (sch : Schema) (fuel : Nat) (o : ObjId) (kw : List (AttrId × Arg)) (st : St) : Res :=
  let r := st.store.row o
  let isColl := fun (a : AttrId) => match sch.decl a with | some d => d.kind = .coll | none => false
  let avdict := (kw.filter fun p => !isColl p.1).map fun p => (p.1, argVal p.2)
  let collAv := (kw.filter fun p => isColl p.1).map fun p => (p.1, argItems p.2)
  let (s1, pop) := if avdict.isEmpty then (st.store, false)
                   else mark o ((avdict.map (·.1)).filter fun a => match sch.decl a with | some d => d.bit | none => false) true st.store
  let plain := avdict.all fun p => match sch.decl p.1 with
      | some d => d.kind = .scalar && !sch.isKeyPart p.1
      | none => true
  let writeAll (s : Store) (av : List (AttrId × Option Nat)) : Store :=
    s.upd o fun r => { r with val := fun a => match av.find? (fun p => p.1 == a) with | some p => p.2 | none => r.val a }
  if !avdict.isEmpty && collAv.isEmpty && plain then .ok (st.setStore (writeAll s1 avdict))    -- obj._vals_.update(avdict); return
  else
  let avdict := avdict.filter fun p => r.val p.1 != p.2                       -- unchanged values are dropped
  let newVal := fun a => match avdict.find? (fun p => p.1 == a) with | some p => p.2 | none => r.val a
  let attrs := sch.attrsOf r.ent
  let simple := attrs.filter fun a => (match sch.decl a with | some d => d.unique | none => false) && (avdict.any fun p => p.1 == a)
  let comps := (sch.ckeysOf r.ent).filter fun k => (sch.keyAttrs k).any fun a => avdict.any fun p => p.1 == a
  match runMoves sch o simple comps newVal s1 with
  | .conflict s2 m => .err .cacheIndexError ((st.setStore s2).log (.setMany o r.status r.wbits pop m))
  | .missing s2 m => .err .keyError ((st.setStore s2).log (.setMany o r.status r.wbits pop m))
  | .done s2 m =>
    let st2 := (st.setStore s2).log (.setMany o r.status r.wbits pop m)
    let refs := iter (fun (p : AttrId × Option Nat) (st : St) =>
        match sch.decl p.1 with
        | some d =>
          if d.kind = .ref then
            match sch.decl d.rev with
            | some rd => updateReverse sch fuel d rd o p.1 ((st.store.row o).val p.1) p.2 st
            | none => .err .noSuchAttr st
          else .ok st
        | none => .ok st) avdict st2
    let colls := refs.bind (iter (fun (p : AttrId × List ObjId) (st : St) =>
        setColl sch (fun x => delete sch fuel x) true o p.1 p.2 st) collAv)
    colls.bind fun st => .ok (st.setStore (writeAll st.store avdict))          -- obj._vals_.update(avdict)

/-- `SetInstance.add(new_items)` -/
def collAdd (sch : Schema) (o : ObjId) (c : AttrId) (items : List ObjId) (st : St) : Res :=
  if (st.store.row o).status.isDel then .err .objectDeleted st else
  match sch.decl c, sch.decl ((sch.decl c).map (·.rev) |>.getD c) with
  | some d, some rd =>
    if items.isEmpty then .ok st else                                          -- if not new_items: return
    let s := st.store
    let cur := (s.row o).items c
    let new := (List.range s.n).filter fun x => items.contains x && !cur x     -- new_items -= setdata
    let r := if rd.kind != .coll then iter (fun item => attrSetRev sch item d.rev o) new st
             else reverseAdd d.rev new o st
    r.bind fun st =>
      let s := st.store
      let r := s.row o
      let added0 := r.added c
      let removed0 := r.removed c
      -- new_items -= setdata: a symmetric collection that gets its own owner as an item has it already (reverse_add put it there, with
      -- all the bookkeeping); only what is not in setdata yet is handled here
      let rest := new.filter fun x => !(r.items c x)
      let isNew := fun x => rest.contains x
      let new' : ObjId → Bool := if s.nonEmpty removed0 then fun x => isNew x && !removed0 x else isNew
      let removed1 : ObjId → Bool := if s.nonEmpty removed0 then fun x => removed0 x && !isNew x else removed0
      let added1 : ObjId → Bool := if s.nonEmpty added0 then fun x => added0 x || new' x else new'
      let s1 := s.upd o fun r => { r with items := set1 r.items c (fun x => r.items c x || isNew x),
                                          count := set1 r.count c (r.count c + rest.length),
                                          added := set1 r.added c added1, removed := set1 r.removed c removed1 }
      .ok (st.setStore { s1 with modColl := set2 s1.modColl c o true, modKey := set1 s1.modKey c true, modified := true })
  | _, _ => .err .noSuchAttr st

/-- `SetInstance.remove(items)` -/
def collRemove (sch : Schema) (fuel : Nat) (o : ObjId) (c : AttrId) (items : List ObjId) (st : St) : Res :=
  if (st.store.row o).status.isDel then .err .objectDeleted st else
  match sch.decl c, sch.decl ((sch.decl c).map (·.rev) |>.getD c) with
  | some d, some rd =>
    let s := st.store
    let r0 := s.row o
    let items1 := items.filter fun x => !(r0.removed c x)                      -- items -= setdata.removed
    if items1.isEmpty then .ok st else                                         -- if not items: return
    let old := (List.range s.n).filter fun x => items1.contains x && r0.items c x   -- items &= setdata
    let r := if rd.kind != .coll then
               (if d.cascade then iter (fun x => delete sch fuel x) old st
                else iter (fun item => attrClearRev sch item d.rev) old st)
             else reverseRemove d.rev old o st
    r.bind fun st =>
      let s := st.store
      let r := s.row o
      let added0 := r.added c
      let removed0 := r.removed c
      -- items &= setdata: for a one-to-many collection the reverse calls have removed the items already (reverse_remove did all the
      -- bookkeeping: count, added, removed); only what is still in setdata is handled here
      let still := old.filter fun x => r.items c x
      let isOld := fun x => still.contains x
      let old' : ObjId → Bool := if s.nonEmpty added0 then fun x => isOld x && !added0 x else isOld
      let added1 : ObjId → Bool := if s.nonEmpty added0 then fun x => added0 x && !isOld x else added0
      let removed1 : ObjId → Bool := if s.nonEmpty removed0 then fun x => removed0 x || old' x else old'
      let s1 := s.upd o fun r => { r with items := set1 r.items c (fun x => r.items c x && !isOld x),
                                          count := set1 r.count c (r.count c - still.length),
                                          added := set1 r.added c added1, removed := set1 r.removed c removed1 }
      .ok (st.setStore { s1 with modColl := set2 s1.modColl c o true, modKey := set1 s1.modKey c true, modified := true })
  | _, _ => .err .noSuchAttr st

def lookupArg (vals : List (AttrId × Arg)) (a : AttrId) : Option Arg := (vals.find? fun p => p.1 == a).map (·.2)

/-- `_get_from_identity_map_(pkval, 'created')`: a fresh object row (`_vals_ = {}`, status `created`) enters `cache.objects`
    and, if it has a primary key, the primary-key index -/
def Store.alloc (s : Store) (e : EntId) (pk : Option Nat) : Store :=
  let s1 : Store := { s with n := s.n + 1, row := fun p => if p = s.n then { ent := e, status := .created, pk := pk } else s.row p }
  match pk with
  | some p => { s1 with pkIdx := set2 s.pkIdx e p (some s.n), seen := .pk e p :: s.seen }
  | none => s1

/-- one attribute of the constructor's loop `for attr, val in avdict.items()` -/
def createStep (sch : Schema) (fuel : Nat) (id : ObjId) (v : AttrId → Option Nat) (items : AttrId → List ObjId) (a : AttrId) (st : St) : Res :=
  match sch.decl a with
  | some d =>
    if d.kind = .coll then setColl sch (fun x => delete sch fuel x) true id a (items a) st   -- attr.__set__(obj, val, undo_funcs)
    else
      -- obj._vals_[attr] = val  (no undo);  if attr.reverse: attr.update_reverse(obj, None, val, undo_funcs)
      let st := st.setStore (st.store.upd id fun r => { r with val := set1 r.val a (v a) })
      if d.kind = .ref then
        match sch.decl d.rev with
        | some rd => updateReverse sch fuel d rd id a none (v a) st
        | none => .err .noSuchAttr st
      else .ok st
  | none => .ok st

/-- `for key, vals in indexes_update.items(): cache_indexes[key][vals] = obj` -/
def registerKeys (sch : Schema) (id : ObjId) (v : AttrId → Option Nat) (simple : List AttrId) (comps : List KeyId) (s : Store) : Store :=
  let s := simple.foldl (fun s a => match v a with
    | some x => { s with idx := set2 s.idx a x (some id), seen := .simple a x :: s.seen }
    | none => s) s
  comps.foldl (fun s k => match tuple ((sch.keyAttrs k).map v) with
    | some vs => { s with cidx := setK s.cidx k vs (some id), seen := .comp k vs :: s.seen }
    | none => s) s

/-- `cache_index.get(pkval)` of `_get_from_identity_map_` finds an object -/
def pkTaken (s : Store) (e : EntId) : Option Nat → Bool
  | some p => (s.pkIdx e p).isSome
  | none => false

/-- `Entity.__init__` -/
def create (sch : Schema) (fuel : Nat) (e : EntId) (pk : Option Nat) (vals : List (AttrId × Arg)) (st : St) : Res :=
  let attrs := sch.attrsOf e
  let s := st.store
  let argOf := fun (a : AttrId) => match lookupArg vals a, sch.decl a with
    | some x, _ => x
    | none, some d => if d.kind = .coll then Arg.coll [] else Arg.val none
    | none, none => Arg.val none
  match attrs.findSome? (fun a => validate sch s a (argOf a)) with             -- for attr in entity._attrs_: attr.validate(val)
  | some err => .err err st
  | none =>
  let v := fun a => argVal (argOf a)
  let simple := attrs.filter fun a => match sch.decl a with | some d => d.kind = .scalar && d.unique | none => false
  -- for attr in entity._simple_keys_: if val in cache_indexes[attr]: throw(CacheIndexError)
  if simple.any (fun a => match v a with | some x => (s.idx a x).isSome | none => false) then .err .cacheIndexError st else
  let comps := sch.ckeysOf e
  if comps.any (fun k => match tuple ((sch.keyAttrs k).map v) with | some vs => (s.cidx k vs).isSome | none => false) then .err .cacheIndexError st else
  -- _get_from_identity_map_(pkval, 'created', undo_funcs, obj_to_init=obj)
  if pkTaken s e pk then .err .cacheIndexError st else
  let id := s.n
  let st1 := (st.setStore (s.alloc e pk)).log (.created id e pk)
  let body := iter (createStep sch fuel id v (fun a => argItems (argOf a))) attrs st1
  body.bind fun st =>
    let s := registerKeys sch id v simple comps st.store
    let s := s.upd id fun r => { r with savePos := some s.toSave.length }
    .ok (st.setStore { s with toSave := s.toSave ++ [some id], modified := true })

/-! ## 11. flush (in-memory effects; never fails in the model) -/

/-- what flush does to one object: `_calc_modified_m2m` resets added/removed of its modified collections, `_save_` moves the status on -/
def flushRow (ids : List (ObjId × Nat)) (s : Store) (o : ObjId) : Row :=
  let r := s.row o
  let r := { r with
    added := fun c x => if s.modColl c o then false else r.added c x,
    removed := fun c x => if s.modColl c o then false else r.removed c x }
  match r.status with
  | .created =>
    let pk := match r.pk with
      | some p => some p
      | none => (ids.find? fun p => p.1 == o).map (·.2)
    { r with status := .inserted, savePos := none, wbits := fun _ => false, pk := pk }
  | .modified => { r with status := .updated, savePos := none, wbits := fun _ => false }
  | .marked => { r with status := .deleted, savePos := none }
  | _ => r

/-- primary-key index at flush: auto primary keys enter it, deleted objects leave it -/
def flushPk (ids : List (ObjId × Nat)) (s : Store) (acc : Store) (o : ObjId) : Store :=
  let r0 := s.row o
  let r1 := flushRow ids s o
  match r0.status with
  | .created =>
    (match r0.pk, r1.pk with
     | none, some p => { acc with pkIdx := set2 acc.pkIdx r1.ent p (some o), seen := .pk r1.ent p :: acc.seen }
     | _, _ => acc)
  | .marked =>
    (match r0.pk with
     | some p => { acc with pkIdx := set2 acc.pkIdx r0.ent p none }
     | none => acc)
  | _ => acc

/-- `cache.flush()` (in-memory effects; never fails in the model): `_calc_modified_m2m` clears added/removed of the modified collections,
    `_save_` moves statuses on, the save queue and `modified_collections` are emptied.
    `ids` are the primary keys the database assigned to objects created without one. -/
def flush (sch : Schema) (ids : List (ObjId × Nat)) (s : Store) : Store :=
  if !s.modified then s else
  let s1 : Store := { s with row := flushRow ids s }
  let s2 := (List.range s.n).foldl (flushPk ids s) s1
  { s2 with toSave := [], modColl := fun _ _ => false, modKey := fun _ => false, modified := false }

/-! ## 12. Operations and `step` -/

inductive Op
  | create (e : EntId) (pk : Option Nat) (vals : List (AttrId × Arg))   -- E(**vals)
  | set (o : ObjId) (a : AttrId) (v : Arg)                               -- obj.attr = v
  | setMany (o : ObjId) (kw : List (AttrId × Arg))                       -- obj.set(**kw)
  | add (o : ObjId) (c : AttrId) (items : List ObjId)                    -- obj.coll.add(items)
  | remove (o : ObjId) (c : AttrId) (items : List ObjId)                 -- obj.coll.remove(items)
  | clear (o : ObjId) (c : AttrId)                                       -- obj.coll.clear()
  | delete (o : ObjId)                                                   -- obj.delete()
  | flush (ids : List (ObjId × Nat))                                     -- flush()
deriving Repr

/-- the attribute belongs to the object's entity -/
def attrOk (sch : Schema) (s : Store) (o : ObjId) (a : AttrId) : Option Err :=
  if o < s.n then
    match sch.decl a with
    | some d => if d.ent = (s.row o).ent then none else some .noSuchAttr
    | none => some .noSuchAttr
  else some .noSuchObject

def fuelOf (s : Store) : Nat := 2 * s.n + 2

def isCollAttr (sch : Schema) (a : AttrId) : Bool :=
  match sch.decl a with | some d => d.kind = .coll | none => false

/-- one user call, without the final undo -/
def run1 (sch : Schema) (op : Op) (st : St) : Res :=
  let s := st.store
  match op with
  | .flush _ => .ok st            -- handled by `stepO`
  | .create e pk vals =>
    if vals.all (fun p => match sch.decl p.1 with | some d => d.ent = e | none => false) then create sch (fuelOf s) e pk vals st
    else .err .noSuchAttr st
  | .set o a v =>
    match attrOk sch s o a with
    | some e => .err e st
    | none =>
      if (s.row o).status.isDel then .err .objectDeleted st else
      match validate sch s a v with
      | some e => .err e st
      | none =>
        if isCollAttr sch a then setColl sch (fun x => delete sch (fuelOf s) x) false o a (argItems v) st
        else attrSetTop sch (fuelOf s) o a (argVal v) st
  | .setMany o kw =>
    if o < s.n then
      if (s.row o).status.isDel then .err .objectDeleted st else
      match kw.findSome? (fun p => match attrOk sch s o p.1 with | some e => some e | none => validate sch s p.1 p.2) with
      | some e => .err e st
      | none => setMany sch (fuelOf s) o kw st
    else .err .noSuchObject st
  | .add o c items =>
    match attrOk sch s o c with
    | some e => .err e st
    | none =>
      if (s.row o).status.isDel then .err .objectDeleted st else
      match validate sch s c (.coll items) with
      | some e => .err e st
      | none => collAdd sch o c items st
  | .remove o c items =>
    match attrOk sch s o c with
    | some e => .err e st
    | none =>
      if (s.row o).status.isDel then .err .objectDeleted st else
      match validate sch s c (.coll items) with
      | some e => .err e st
      | none => collRemove sch (fuelOf s) o c items st
  | .clear o c =>
    match attrOk sch s o c with
    | some e => .err e st
    | none =>
      if isCollAttr sch c then setColl sch (fun x => delete sch (fuelOf s) x) false o c [] st else .err .noSuchAttr st
  | .delete o =>
    if o < s.n then delete sch (fuelOf s) o st else .err .noSuchObject st

structure Outcome where
  store : Store
  err : Option Err

/-- one user call including `except: for undo_func in reversed(undo_funcs): undo_func(); raise` -/
def stepO (sch : Schema) (s : Store) (op : Op) : Outcome :=
  match op with
  | .flush ids => ⟨flush sch ids s, none⟩
  | _ =>
    match run1 sch op { store := s } with
    | .ok st => ⟨st.store, none⟩
    | .err e st => ⟨undoAll st.trail st.store, some e⟩

def step (sch : Schema) (s : Store) (op : Op) : Store := (stepO sch s op).store

def run (sch : Schema) (s : Store) : List Op → Store
  | [] => s
  | op :: ops => run sch (step sch s op) ops

end PonyVerif.Model.Undo
