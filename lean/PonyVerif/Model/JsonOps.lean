/-
  C29 — JSON and array operations in queries (hand model; core Lean only).

  Mirrors, as the code is written:
    * `SQLBuilder.eval_json_path` / `PGSQLBuilder.eval_json_path` (sqlbuilding.py, postgres.py)   → `evalJsonPath`, `pgEvalJsonPath`
    * `utils.is_ident` (`^[A-Za-z_]\w*\Z`)                                                        → `isIdent`
    * `sqlite.json_path_re` = `\[(-?\d+)\]|\.(?:(\w+)|"([^"]*)")` as a hand-written scanner        → `matchSeg`
    * `sqlite._parse_path`, `_traverse`, `_extract`, `py_json_extract`, `py_json_unwrap`,
      `py_json_contains`, `py_json_array_length`, `py_json_nonzero`                               → same names, camelCase
    * `SQLiteBuilder.JSON_NONZERO` (`expr NOT IN (<literals>)`, literal list taken from the source by gen_c29.py)  → `jsonNonzero`
    * `json.dumps(v, separators=(',',':'), sort_keys=True, ensure_ascii=False)` on already key-sorted documents → `dumps`
    * `ArrayMixin._index` (constant and expression branch), `py_array_index/slice/length/contains` → `indexConst`, `indexExpr`, `pyArray*`
    * SQLite JSON1 `json_extract` path lookup (3.40: no negative `[i]`, labels compared in their escaped form)
      and PostgreSQL array subscripts (1-based, out of range → NULL / intersection) as *backend models*     → `json1Extract`, `pgArray*`
  Text is `List Char` (the driver converts from/to `String`).  The regex class `\w` is a parameter `W : Char → Bool`
  (Python's Unicode word class is not reproduced; every theorem holds for every `W` that contains the ASCII
  identifier characters and excludes `.`, `[` and `"`).
-/
namespace PonyVerif.Model.JsonOps

abbrev Text := List Char

/-! ### decimal integers (`'%d' % i`, `int(text)`) -/

def digitChar : Nat → Char
  | 0 => '0' | 1 => '1' | 2 => '2' | 3 => '3' | 4 => '4' | 5 => '5' | 6 => '6' | 7 => '7' | 8 => '8' | _ => '9'

def isDigitC (c : Char) : Bool := 48 ≤ c.toNat && c.toNat ≤ 57

def digitVal (c : Char) : Nat := c.toNat - 48

def natDigits (n : Nat) : Text :=
  if _h : n < 10 then [digitChar n] else natDigits (n / 10) ++ [digitChar (n % 10)]
decreasing_by omega

/-- `'%d' % i` -/
def intText (i : Int) : Text :=
  if i < 0 then '-' :: natDigits i.natAbs else natDigits i.natAbs

def ofDigits (ds : Text) : Nat := ds.foldl (fun a c => 10 * a + digitVal c) 0

/-! ### keys, documents -/

inductive Key where
  | idx (i : Int)
  | name (s : Text)
  deriving DecidableEq, Repr, Inhabited

/-- decoded JSON value.  `fzero neg` is the float `0.0` / `-0.0`; `float c r` is any other float, carried by the
    (non-empty) text `c :: r` that `json.dumps` prints for it (`1.5`, `1e+100`, `NaN`, `Infinity`); objects are
    association lists in the order `json.dumps(sort_keys=True)` prints them. -/
inductive Json where
  | null
  | bool (b : Bool)
  | int (i : Int)
  | fzero (neg : Bool)
  | float (c : Char) (r : Text)
  | str (s : Text)
  | arr (xs : List Json)
  | obj (kvs : List (Text × Json))
  deriving Repr, Inhabited

def Json.isContainer : Json → Bool
  | .arr _ => true | .obj _ => true | _ => false

/-! ### building the path text -/

/-- `[A-Za-z_]` -/
def isIdentStart (c : Char) : Bool := c.isAlpha || c == '_'

/-- `utils.is_ident`: `^[A-Za-z_]\w*\Z` -/
def isIdent (W : Char → Bool) : Text → Bool
  | [] => false
  | c :: cs => isIdentStart c && cs.all W

/-- `value.replace('"', '\\"')` -/
def escQuote : Text → Text
  | [] => []
  | c :: cs => if c = '"' then '\\' :: '"' :: escQuote cs else c :: escQuote cs

/-- one element of the path as `SQLBuilder.eval_json_path` appends it -/
def seg (W : Char → Bool) : Key → Text
  | .idx i => '[' :: (intText i ++ [']'])
  | .name s => if isIdent W s then '.' :: s else '.' :: '"' :: (escQuote s ++ ['"'])

def segs (W : Char → Bool) : List Key → Text
  | [] => []
  | k :: ks => seg W k ++ segs W ks

/-- `SQLBuilder.eval_json_path(values)` for int / str values (wildcards are rejected for SQLite by the translator) -/
def evalJsonPath (W : Char → Bool) (keys : List Key) : Text := '$' :: segs W keys

def pgSeg (W : Char → Bool) : Key → Text
  | .idx i => intText i
  | .name s => if isIdent W s then s else '"' :: (escQuote s ++ ['"'])

def joinComma : List Text → Text
  | [] => []
  | [x] => x
  | x :: xs => x ++ ',' :: joinComma xs

/-- `PGSQLBuilder.eval_json_path`: `'{%s}' % ','.join(...)` (text only; no PostgreSQL server here) -/
def pgEvalJsonPath (W : Char → Bool) (keys : List Key) : Text :=
  '{' :: (joinComma (keys.map (pgSeg W)) ++ ['}'])

/-- the path text `SQLiteBuilder.eval_json_path` writes for JSON1 when it spells a negative index `[#-N]` -/
def segJ1 (W : Char → Bool) : Key → Text
  | .idx i => if i < 0 then '[' :: '#' :: (intText i ++ [']']) else seg W (.idx i)
  | k => seg W k

def segsJ1 (W : Char → Bool) : List Key → Text
  | [] => []
  | k :: ks => segJ1 W k ++ segsJ1 W ks

def evalJsonPathJ1 (W : Char → Bool) (keys : List Key) : Text := '$' :: segsJ1 W keys

/-! ### parsing the path text back (`_parse_path`) -/

/-- `-?` of the regex -/
def isNegText : Text → Bool
  | '-' :: _ => true
  | _ => false
def dropMinus : Text → Text
  | '-' :: r => r
  | r => r

/-- `#?` of the regex (only when `hash`) -/
def skipHash (hash : Bool) (t : Text) : Text :=
  if hash then (match t with | '#' :: r => r | r => r) else t

/-- `json_path_re.match(path, pos)` on the suffix starting at `pos`: the key appended and the rest after `match.end()` -/
def matchSeg (W : Char → Bool) (hash : Bool) : Text → Option (Key × Text)
  | '[' :: rest0 =>
      -- `#?` : present in the regex only when `hash` (the source's regex text decides; see Props.C29.srcHash)
      let rest := skipHash hash rest0
      let neg := isNegText rest
      let r1 := dropMinus rest
      let ds := r1.takeWhile isDigitC
      if ds.isEmpty then none else
      match r1.dropWhile isDigitC with
      | ']' :: r3 => some (.idx (if neg then -(ofDigits ds : Int) else (ofDigits ds : Int)), r3)
      | _ => none
  | '.' :: rest =>
      let w := rest.takeWhile W
      if !w.isEmpty then some (.name w, rest.dropWhile W) else
      match rest with
      | '"' :: r =>
          match r.dropWhile (fun c => c != '"') with
          | '"' :: r2 => some (.name (r.takeWhile (fun c => c != '"')), r2)
          | _ => none
      | _ => none
  | _ => none

/-- the `while pos < path_len` loop (`fuel` = remaining length; `none` = `keys = None`) -/
def parseSegs (W : Char → Bool) (hash : Bool) : Nat → Text → Option (List Key)
  | _, [] => some []
  | 0, _ :: _ => none
  | f + 1, c :: cs =>
      match matchSeg W hash (c :: cs) with
      | none => none
      | some (k, r) => (parseSegs W hash f r).map (k :: ·)

/-- `_parse_path(path)` for a `str` path -/
def parsePath (W : Char → Bool) (hash : Bool) : Text → Option (List Key)
  | '$' :: r => parseSegs W hash r.length r
  | _ => none

/-! ### navigation -/

inductive NavErr where
  | keyError | indexError | typeError
  deriving DecidableEq, Repr, Inhabited

/-- Python `xs[i]` on a list -/
def listGet (xs : List α) (i : Int) : Option α :=
  let n : Int := xs.length
  let j := if i < 0 then i + n else i
  if j < 0 ∨ j ≥ n then none else xs[j.toNat]?

/-- Python `obj[key]` for `obj` a list or dict (what `_traverse` evaluates inside its `try`) -/
def getItem : Json → Key → Except NavErr Json
  | .arr xs, .idx i => match listGet xs i with | some v => .ok v | none => .error .indexError
  | .arr _, .name _ => .error .typeError            -- list indices must be integers
  | .obj kvs, .name s => match kvs.lookup s with | some v => .ok v | none => .error .keyError
  | .obj _, .idx _ => .error .keyError             -- an int is never equal to a str key
  | _, _ => .error .typeError

/-- the Python reference: `doc[k1][k2]...` on the decoded value.  Subscripting anything but a list or dict is
    outside JSON path access (it is a TypeError for numbers/None/bool; for `str` Python would index characters —
    documented deviation, see the engine). -/
def pyNavigate : Json → List Key → Except NavErr Json
  | v, [] => .ok v
  | v, k :: ks => match getItem v k with
      | .ok w => pyNavigate w ks
      | .error e => .error e

/-- the loop of `_traverse(obj, keys)` for `keys` a tuple: scalars give None; KeyError/IndexError give None; a
    TypeError (string key on a list) is caught only when `cte` (the `except` clause of the current source names
    TypeError — read from the source by gen_c29.py; `false` in the tree as snapshotted) -/
def traverseKeys (cte : Bool) : Json → List Key → Except NavErr Json
  | v, [] => .ok v
  | v, k :: ks =>
      if !v.isContainer then .ok .null else
      match getItem v k with
      | .ok w => traverseKeys cte w ks
      | .error .typeError => if cte then .ok .null else .error .typeError
      | .error _ => .ok .null

/-- `_traverse(obj, keys)`: `keys is None` → None -/
def traverse (cte : Bool) (v : Json) : Option (List Key) → Except NavErr Json
  | none => .ok .null
  | some ks => traverseKeys cte v ks

/-! ### SQLite JSON1 `json_extract` path lookup (backend model, validated against the real library every run) -/

def Key.isNeg : Key → Bool
  | .idx i => i < 0
  | .name _ => false

/-- characters that `json.dumps` writes escaped: JSON1 (3.40) compares the raw escaped label with the path key,
    so a key containing one of them never matches; `"` also ends the quoted label in the path -/
def json1SafeChar (c : Char) : Bool := c != '"' && c != '\\' && c.toNat ≥ 32

inductive SqlErr where
  | pathError        -- OperationalError: JSON path error near '[-1]'
  deriving DecidableEq, Repr, Inhabited

/-- `json_extract(doc, path)` for a path text emitted by `evalJsonPath` (jsonLookupStep of SQLite 3.40): the path is read
    lazily, step by step; a step that finds nothing ends the lookup with NULL; `[-i]` is a path error when the step is
    reached (whatever the node is); a label containing an escaped character never matches. -/
def json1Extract (negHash : Bool) : Json → List Key → Except SqlErr Json
  | v, [] => .ok v
  | v, .idx i :: ks =>
      -- `negHash`: the SQLite builder writes a negative index as `[#-N]` (counted from the end) instead of `[-N]` (a path error)
      if i < 0 && !negHash then .error .pathError else
      match v with
      | .arr xs => (match listGet xs i with | some w => json1Extract negHash w ks | none => .ok .null)
      | _ => .ok .null
  | v, .name s :: ks =>
      match v with
      | .obj kvs =>
          if s.all json1SafeChar then (match kvs.lookup s with | some w => json1Extract negHash w ks | none => .ok .null)
          else .ok .null
      | _ => .ok .null

/-! ### `json.dumps` -/

def hexDigit (n : Nat) : Char :=
  if n < 10 then digitChar n else Char.ofNat (87 + n)

/-- one character of a string as `json.dumps(s, ensure_ascii=False)` writes it -/
def escChar (c : Char) : Text :=
  if c = '"' then ['\\', '"']
  else if c = '\\' then ['\\', '\\']
  else if c = '\n' then ['\\', 'n']
  else if c = '\r' then ['\\', 'r']
  else if c = '\t' then ['\\', 't']
  else if c.toNat = 8 then ['\\', 'b']
  else if c.toNat = 12 then ['\\', 'f']
  else if c.toNat < 32 then ['\\', 'u', '0', '0', hexDigit (c.toNat / 16), hexDigit (c.toNat % 16)]
  else [c]

/-- `json.dumps(s, ensure_ascii=False)` body of a string -/
def escStr : Text → Text
  | [] => []
  | c :: cs => escChar c ++ escStr cs

def quoteStr (s : Text) : Text := '"' :: (escStr s ++ ['"'])

mutual
  def dumps : Json → Text
    | .null => ['n', 'u', 'l', 'l']
    | .bool true => ['t', 'r', 'u', 'e']
    | .bool false => ['f', 'a', 'l', 's', 'e']
    | .int i => intText i
    | .fzero false => ['0', '.', '0']
    | .fzero true => ['-', '0', '.', '0']
    | .float c r => c :: r
    | .str s => quoteStr s
    | .arr xs => '[' :: (dumpsList xs ++ [']'])
    | .obj kvs => '{' :: (dumpsKvs kvs ++ ['}'])
  def dumpsList : List Json → Text
    | [] => []
    | [x] => dumps x
    | x :: y :: xs => dumps x ++ ',' :: dumpsList (y :: xs)
  def dumpsKvs : List (Text × Json) → Text
    | [] => []
    | [(k, v)] => quoteStr k ++ ':' :: dumps v
    | (k, v) :: kv :: kvs => quoteStr k ++ ':' :: (dumps v ++ ',' :: dumpsKvs (kv :: kvs))
end

/-! ### the SQLite helper functions -/

/-- `py_json_unwrap(value)`: `"[null,some_json]"` → `"some_json"`, anything else → NULL -/
def pyJsonUnwrap (value : Option Text) : Option Text :=
  match value with
  | some t => if ['[', 'n', 'u', 'l', 'l', ','].isPrefixOf t then some ((t.drop 6).dropLast) else none
  | none => none

def nonExistentKey : Text := "__non_existent_json_attr_name__".toList

/-- `py_json_extract(expr, '$.__non_existent_json_attr_name__', path)`: both paths are traversed, the two-path form
    always dumps the list of results -/
def pyJsonExtract2 (cte : Bool) (doc : Json) (keys : Option (List Key)) : Except NavErr Text :=
  match traverse cte doc (some [.name nonExistentKey]) with
  | .error e => .error e
  | .ok a =>
    match traverse cte doc keys with
    | .ok v => .ok (dumps (.arr [a, v]))
    | .error e => .error e

/-- the value a single-path `py_json_extract(expr, path)` hands to SQLite: containers as text, scalars as they are -/
def pyJsonExtract1 (cte : Bool) (doc : Json) (keys : Option (List Key)) : Except NavErr Json :=
  match traverse cte doc keys with
  | .ok (.arr xs) => .ok (.str (dumps (.arr xs)))
  | .ok (.obj kvs) => .ok (.str (dumps (.obj kvs)))
  | r => r

/-- what `JSON_QUERY` (`py_json_unwrap(py_json_extract(doc, '$.__non_existent…', path))`) evaluates to -/
def jsonQueryFallback (cte : Bool) (doc : Json) (keys : Option (List Key)) : Except NavErr (Option Text) :=
  match pyJsonExtract2 cte doc keys with
  | .ok t => .ok (pyJsonUnwrap (some t))
  | .error e => .error e

/-- `expr NOT IN (lits)` on a non-NULL text -/
def jsonNonzero (lits : List Text) (t : Text) : Bool := !(lits.contains t)

/-- the six literals of `JSON_NONZERO` in the tree as snapshotted; `Gen.JsonLits.sqliteNonzeroLits` is the list read from the current source -/
def baseLits : List Text := [['n', 'u', 'l', 'l'], ['f', 'a', 'l', 's', 'e'], ['0'], ['"', '"'], ['[', ']'], ['{', '}']]
def floatZeroLits : List Text := [['0', '.', '0'], ['-', '0', '.', '0']]

/-- Python `bool(v)` -/
def pyTruthy : Json → Bool
  | .null => false
  | .bool b => b
  | .int i => i != 0
  | .fzero _ => false
  | .float _ _ => true
  | .str s => !s.isEmpty
  | .arr xs => !xs.isEmpty
  | .obj kvs => !kvs.isEmpty

/-- a non-zero float's text as `json.dumps` prints it: starts with a digit, `-`, `N`(aN) or `I`(nfinity), has a
    `.`/`e`/`N`/`I` somewhere, and is not one of the two zero spellings -/
def floatTextOk (r : Text) : Bool :=
  (match r with
   | c :: _ => isDigitC c || c == '-' || c == 'N' || c == 'I'
   | [] => false) &&
  r.any (fun c => c == '.' || c == 'e' || c == 'N' || c == 'I') && !(floatZeroLits.contains r)

/-- well-formedness of the value tested (only its top node matters for truthiness) -/
def Json.topOk : Json → Bool
  | .float c r => floatTextOk (c :: r)
  | _ => true

def isStrItem (k : Text) : Json → Bool
  | .str s => s == k
  | _ => false

/-- `py_json_contains(expr, path, key)` for a `str` key: `type(expr) in (list, dict) and key in expr` -/
def pyJsonContains (cte : Bool) (doc : Json) (keys : Option (List Key)) (key : Text) : Except NavErr Bool :=
  match traverse cte doc keys with
  | .ok (.arr xs) => .ok (xs.any (isStrItem key))
  | .ok (.obj kvs) => .ok ((kvs.lookup key).isSome)
  | .ok _ => .ok false
  | .error e => .error e

/-- Python `key in v` for a `str` key and `v` a list or dict (`none`: another type — substring test on `str`, TypeError otherwise) -/
def pyIn (key : Text) : Json → Option Bool
  | .arr xs => some (xs.any (isStrItem key))
  | .obj kvs => some ((kvs.lookup key).isSome)
  | _ => none

/-- `py_json_array_length(expr)` on the text `JSON_QUERY` produced: `len(expr) if type(expr) is list else 0` -/
def pyJsonArrayLength : Json → Nat
  | .arr xs => xs.length
  | _ => 0

/-- `py_json_nonzero(expr, path)` (registered as a UDF; `JSON_NONZERO` does not use it) -/
def pyJsonNonzero (cte : Bool) (doc : Json) (keys : Option (List Key)) : Except NavErr Bool :=
  match traverse cte doc keys with
  | .ok v => .ok (pyTruthy v)
  | .error e => .error e

/-! ### arrays -/

/-- `ArrayMixin._index`, `NumericConstMonad` branch: the SQL expression's value for an array of length `len`.
    `b` is `int(from_one and plus_one)`. -/
def indexConst (fromOne plusOne : Bool) (value : Int) (len : Int) : Int :=
  let b : Int := if fromOne && plusOne then 1 else 0
  if value ≥ 0 then value + b else len - (value + b).natAbs

/-- `ArrayMixin._index`, `NumericMixin` (parameter / column / expression) branch:
    `CASE WHEN i >= 0 THEN i1 ELSE ARRAY_LENGTH + i1 END`, `i1 = i + 1` when `from_one and plus_one` -/
def indexExpr (fromOne plusOne : Bool) (value : Int) (len : Int) : Int :=
  let i1 := if fromOne && plusOne then value + 1 else value
  if value ≥ 0 then i1 else len + i1

/-- `py_array_index(array, index)`: `array[index]`, IndexError → NULL -/
def pyArrayIndex (xs : List α) (i : Int) : Option α := listGet xs i

/-- Python slice bound adjustment (`PySlice_AdjustIndices`, step 1) -/
def adjIdx (n i : Int) : Int :=
  if i < 0 then (if i + n < 0 then 0 else i + n) else (if i ≥ n then n else i)

/-- Python `xs[i:j]` (`none` = omitted) -/
def pySlice (xs : List α) (i j : Option Int) : List α :=
  let n : Int := xs.length
  let lo := match i with | none => 0 | some i => adjIdx n i
  let hi := match j with | none => n | some j => adjIdx n j
  (xs.drop lo.toNat).take (hi - lo).toNat

/-- `py_array_slice(array, start, stop)` = `array[start:stop]`; with `clamp` (the current source maps a still-negative
    bound to 0 — probed by gen_c29.py; `false` in the tree as snapshotted) negative bounds are clamped first -/
def pyArraySlice (clamp : Bool) (xs : List α) (start stop : Option Int) : List α :=
  if clamp then pySlice xs (start.map (fun v => max v 0)) (stop.map (fun v => max v 0)) else pySlice xs start stop

/-- SQLite: `x.arr[i]` → `py_array_index(arr, _index(i, from_one=False, plus_one=True))` (constant index) -/
def sqliteArrayIndex (xs : List α) (i : Int) : Option α :=
  pyArrayIndex xs (indexConst false true i xs.length)

/-- SQLite: `x.arr[a:b]` → `py_array_slice(arr, _index(a, False, True) or null, _index(b, False, False) or null)` -/
def sqliteArraySlice (clamp : Bool) (xs : List α) (a b : Option Int) : List α :=
  pyArraySlice clamp xs (a.map (fun v => indexConst false true v xs.length)) (b.map (fun v => indexConst false false v xs.length))

/-- PostgreSQL `arr[p]` (1-based; outside the bounds → NULL) — backend model -/
def pgArrayIndex (xs : List α) (p : Int) : Option α :=
  if p < 1 ∨ p > xs.length then none else xs[(p - 1).toNat]?

/-- PostgreSQL `arr[l:u]` (1-based, inclusive, intersected with the array bounds; omitted = the array bound) — backend model -/
def pgArraySlice (xs : List α) (l u : Option Int) : List α :=
  let n : Int := xs.length
  let lo := match l with | none => 1 | some l => max l 1
  let hi := match u with | none => n | some u => min u n
  (xs.drop (lo - 1).toNat).take (hi - lo + 1).toNat

def pgIndex (xs : List α) (i : Int) : Option α :=
  pgArrayIndex xs (indexConst true true i xs.length)

def pgSlice (xs : List α) (a b : Option Int) : List α :=
  pgArraySlice xs (a.map (fun v => indexConst true true v xs.length)) (b.map (fun v => indexConst true false v xs.length))

/-! ### parameters inside a path: `build_json_path` with `has_params`, `make_composite_param`, `builder.keys` -/

/-- one element of a JSON path in the SQL AST: a query parameter (identified by its paramkey) or a constant key / index -/
inductive PathItem where
  | param (id : Nat)
  | const (k : Key)
  deriving DecidableEq, Repr, Inhabited

/-- one component of the composite parameter's key: `item.paramkey` for a Param, `item.value` for a constant int / str -/
inductive KeyPart where
  | p (id : Nat)
  | i (v : Int)
  | s (v : Text)
  deriving DecidableEq, Repr, Inhabited

def keyPart : PathItem → KeyPart
  | .param id => .p id
  | .const (.idx v) => .i v
  | .const (.name v) => .s v

/-- the `paramkey` tuple `build_json_path` computes for a path with parameters (no wildcards on SQLite) -/
def paramKey (items : List PathItem) : List KeyPart := items.map keyPart

/-- `builder.keys`: composite parameters already made in this statement, by key -/
abbrev Registry := List (List KeyPart × List PathItem)

/-- `make_param(CompositeParam, paramkey, items, eval_json_path)`: an existing parameter with the same key is reused -/
def makeComposite (reg : Registry) (items : List PathItem) : List PathItem × Registry :=
  match reg.lookup (paramKey items) with
  | some its => (its, reg)
  | none => (items, (paramKey items, items) :: reg)

/-- `CompositeParam.eval(values)`: parameters replaced by their values, then `eval_json_path` -/
def resolveItem (env : Nat → Key) : PathItem → Key
  | .param id => env id
  | .const k => k

def evalComposite (W : Char → Bool) (env : Nat → Key) (items : List PathItem) : Text :=
  evalJsonPath W (items.map (resolveItem env))

end PonyVerif.Model.JsonOps
