/-
  C26 — executable model of `Database.generate_mapping` (pony/orm/core.py:956-1138), `Attribute.get_columns` (2467),
  `Set.get_m2m_columns` (3174) and `EntityMeta._get_pk_columns_` (3978): which tables, columns, indexes and foreign keys
  are registered for a list of (already linked) entity declarations, under which names.

  The schema is only ever modified through the registry operations of Model/Schema.lean, lifted to the subtype
  `ISchema d` of schemas satisfying the invariants `Inv` and `LenInv d` (Lemmas/Schema.lean).  Every name handed to
  the registry carries its provenance (`TName`): the result of `normalize_name` (with the proof that it fits the
  dialect's limit), an explicit user-given name, or a name with a suffix appended after normalisation.
  Not modelled: `_link_reverse_attrs_` (declarations arrive linked), SQL types / converters, `on_delete`, `interleave`,
  qualified (tuple) table names, `Array` attributes.  Core Lean only.
-/
import PonyVerif.Lemmas.Schema
namespace PonyVerif.Model.Mapping
open PonyVerif.Model.Schema

/-! ### declarations (what `EntityMeta.__init__` and `_link_reverse_attrs_` leave behind) -/

inductive AKind | required | optional | pk | discriminator | set
  deriving DecidableEq, Repr, Inhabited

structure Attr where
  name : Name
  kind : AKind
  target : Option Name := none      -- entity name when the attribute is a relationship
  reverse : Option Name := none     -- name of the reverse attribute (declared in `target`)
  isString : Bool := false          -- `attr.type_has_empty_value`
  auto : Bool := false
  unique : Option Bool := none      -- `attr.is_unique`
  nullable : Option Bool := none
  columns : List Name := []         -- `column=` / `columns=`
  reverseColumns : List Name := []  -- `reverse_column(s)=`
  table : Option Name := none       -- `table=` of a Set
  index : IdxArg := .none
  reverseIndex : IdxArg := .none
  fkName : Option Name := none
  reverseFkName : Option Name := none
  deriving Repr, Inhabited

structure IndexDecl where
  attrs : List (Name × Name)        -- (owner entity, attribute)
  isPk : Bool
  isUnique : Bool
  deriving Repr, Inhabited

structure Entity where
  name : Name
  root : Name                       -- `_root_.__name__`
  table : Option Name := none       -- `_table_` as declared
  attrs : List Attr                 -- `_new_attrs_`
  pkAttrs : List Name               -- `_pk_attrs_` (declared in the root)
  indexes : List IndexDecl          -- `_indexes_`
  deriving Repr, Inhabited

abbrev Decls := List Entity

def findEnt (D : Decls) (n : Name) : Option Entity := D.find? (·.name == n)
def findAttr (D : Decls) (e a : Name) : Option Attr := (findEnt D e).bind (fun e => e.attrs.find? (·.name == a))

def Attr.isRequired (a : Attr) : Bool := a.kind == .required || a.kind == .pk || a.kind == .discriminator
def Attr.isSet (a : Attr) : Bool := a.kind == .set
def symmetric (owner : Name) (a : Attr) : Bool := a.isSet && a.target == some owner && a.reverse == some a.name

/-! ### names with provenance, schemas with invariants -/

structure TName (d : Dialect) where
  n : Name
  src : Src
  ok : src = .norm → NormOk d n

def TName.norm (d : Dialect) (x : Name) : TName d := ⟨normalizeName d x, .norm, fun _ => normalizeName_ok d x⟩
def TName.explicit {d : Dialect} (x : Name) : TName d := ⟨x, .explicit, fun h => by cases h⟩
def TName.suffixed {d : Dialect} (x : Name) : TName d := ⟨x, .suffixed, fun h => by cases h⟩
instance {d} : Inhabited (TName d) := ⟨TName.explicit []⟩

def names {d} (l : List (TName d)) : List Name := l.map (·.n)

abbrev ISchema (d : Dialect) := { s : Schema // Inv s ∧ LenInv d s ∧ FlagInv s }

def ISchema.empty (d : Dialect) : ISchema d := ⟨{}, inv_empty, lenInv_empty d, flagInv_empty⟩

/-- a successor schema: nothing that was registered has been removed or altered (`Mono`) -/
abbrev MSchema {d : Dialect} (s : ISchema d) := { s' : ISchema d // Mono s.1 s'.1 }

def ISchema.addTable {d} (s : ISchema d) (n : TName d) (e : Option (Name × Name)) : Except Err (MSchema s) :=
  match h : Schema.addTable s.1 n.n n.src e with
  | .ok s' => .ok ⟨⟨s', addTable_inv s.2.1 h, addTable_lenInv s.2.2.1 n.ok h, addTable_flagInv s.2.2.2 h⟩, addTable_mono h⟩
  | .error e => .error e

def ISchema.addEntity {d} (s : ISchema d) (t : Table) (e r : Name) : Except Err (MSchema s) :=
  match h : Schema.addEntity s.1 t e r with
  | .ok s' => .ok ⟨⟨s', addEntity_inv s.2.1 h, addEntity_lenInv s.2.2.1 h, addEntity_flagInv s.2.2.2 h⟩, addEntity_mono h⟩
  | .error e => .error e

def ISchema.addColumn {d} (s : ISchema d) (t : Name) (n : TName d) (notNull : Bool) :
    Except Err { s' : MSchema s // HasCol s'.1.1 t n.n notNull } :=
  match h : Schema.addColumn s.1 t n.n n.src notNull with
  | .ok s' => .ok ⟨⟨⟨s', addColumn_inv s.2.1 h, addColumn_lenInv s.2.2.1 n.ok h, addColumn_flagInv s.2.2.2 h⟩, (addColumn_mono h).1⟩, (addColumn_mono h).2⟩
  | .error e => .error e

def ISchema.addIndex {d} (s : ISchema d) (t : Name) (arg : IdxArg) (cols : List Name) (isPk : PkKind)
    (isUnique : Option Bool) (m2m : Bool) : Except Err { s' : MSchema s // HasIdx s'.1.1 t cols isPk (isUnique.getD false) } :=
  match h : Schema.addIndex d s.1 t arg cols isPk isUnique m2m with
  | .ok s' => .ok ⟨⟨⟨s', addIndex_inv s.2.1 h, addIndex_lenInv s.2.2.1 h, addIndex_flagInv s.2.2.2 h⟩, addIndex_mono h⟩, addIndex_has h⟩
  | .error e => .error e

def ISchema.addFk {d} (s : ISchema d) (child : Name) (fkName : Option Name) (cols : List Name) (parent : Name)
    (parentCols : List Name) (index : IdxArg) : Except Err { s' : MSchema s // HasFk s'.1.1 child cols parent parentCols } :=
  match h : Schema.addFk d s.1 child fkName cols parent parentCols index with
  | .ok s' => .ok ⟨⟨⟨s', addFk_inv s.2.1 h, addFk_lenInv s.2.2.1 h, addFk_flagInv s.2.2.2 h⟩, (addFk_mono h).1⟩, (addFk_mono h).2⟩
  | .error e => .error e

def ISchema.markM2m {d} (s : ISchema d) (t : Name) : MSchema s :=
  ⟨⟨Schema.markM2m s.1 t, markM2m_inv t s.2.1, markM2m_lenInv t s.2.2.1, updTable_flagInv _ _ s.2.2.2⟩, markM2m_mono s.1 t⟩

/-! ### mutable attribute / entity state of the mapping run -/

abbrev Key := Name × Name   -- (owner entity, attribute name)

/-- log entry: attribute `attr` of entity `ent` is stored in the columns `cols` of `table`, NOT NULL = `notNull` -/
structure Placed where
  table : Name
  ent : Name
  attr : Name
  cols : List Name
  notNull : Bool
  deriving Repr

/-- log entry: the relationship attribute `attr` of `ent` is backed by a foreign key `child(cols) → parent(parentCols)` -/
structure PlacedFk where
  ent : Name
  attr : Name
  child : Name
  cols : List Name
  parent : Name
  parentCols : List Name
  deriving Repr

/-- log entry: `add_index` was called for entity `ent` on `table(cols)` (primary key of the entity / link table, a
    declared unique or plain index, an attribute index) -/
structure PlacedIdx where
  table : Name
  ent : Name
  cols : List Name
  isPk : PkKind
  unique : Bool
  deriving Repr

structure St (d : Dialect) where
  schema : ISchema d
  cols : List (Key × List (TName d)) := []      -- assignments to `attr.columns` (latest first)
  rcols : List (Key × List (TName d)) := []     -- assignments to `attr.reverse_columns`
  checked : List Key := []                      -- `attr._columns_checked`
  tbl : List (Key × TName d) := []              -- assignments to `attr.table`
  pk : List (Name × List (TName d)) := []       -- `entity._pk_columns_`
  entTable : List (Name × TName d) := []        -- `entity._table_` after the first loop
  /-- ghost log (not in Pony): the columns `add_column` was called with for each attribute, and the foreign keys
      `add_foreign_key` was called with for each relationship attribute -/
  placed : List Placed := []
  linked : List PlacedFk := []
  indexed : List PlacedIdx := []
  placedOk : ∀ p ∈ placed, ∀ c ∈ p.cols, HasCol schema.1 p.table c p.notNull := by intro p hp; cases hp
  linkedOk : ∀ p ∈ linked, HasFk schema.1 p.child p.cols p.parent p.parentCols := by intro p hp; cases hp
  indexedOk : ∀ p ∈ indexed, HasIdx schema.1 p.table p.cols p.isPk p.unique := by intro p hp; cases hp

def lookup {α β} [BEq α] (k : α) : List (α × β) → Option β
  | [] => none
  | (k', v) :: rest => if k' == k then some v else lookup k rest

def curCols {d} (st : St d) (owner : Name) (a : Attr) : List (TName d) :=
  match lookup (owner, a.name) st.cols with
  | some c => c
  | none => a.columns.map TName.explicit

def curRCols {d} (st : St d) (owner : Name) (a : Attr) : List (TName d) :=
  match lookup (owner, a.name) st.rcols with
  | some c => c
  | none => a.reverseColumns.map TName.explicit

def curTable {d} (st : St d) (owner : Name) (a : Attr) : Option (TName d) :=
  match lookup (owner, a.name) st.tbl with
  | some t => some t
  | none => a.table.map TName.explicit

def isChecked {d} (st : St d) (owner : Name) (a : Attr) : Bool := st.checked.contains (owner, a.name)

def setCols {d} (st : St d) (owner : Name) (a : Attr) (c : List (TName d)) : St d :=
  { st with cols := ((owner, a.name), c) :: st.cols }
def setChecked {d} (st : St d) (owner : Name) (a : Attr) : St d :=
  { st with checked := (owner, a.name) :: st.checked }

def err {α} (cls tag : String) : Except Err α := .error ⟨cls, tag⟩

/-- replace the schema by a successor; the logged facts survive because registry operations are monotone -/
def St.setSchema {d} (st : St d) (m : MSchema st.schema) : St d :=
  { st with schema := m.1,
            placedOk := fun p hp c hc => m.2.cols _ _ _ (st.placedOk p hp c hc),
            linkedOk := fun p hp => (st.linkedOk p hp).mono m.2,
            indexedOk := fun p hp => (st.indexedOk p hp).mono m.2 }

/-- successor schema in which the columns `cols` have just been added to `table`: log them -/
def St.place {d} (st : St d) (table ent attr : Name) (nn : Bool) (cols : List (TName d))
    (m : { s' : MSchema st.schema // ∀ c ∈ cols, HasCol s'.1.1 table c.n nn }) : St d :=
  { st with schema := m.1.1, placed := ⟨table, ent, attr, names cols, nn⟩ :: st.placed,
            placedOk := by
              intro p hp c hc
              rcases List.mem_cons.mp hp with rfl | hp
              · simp only [names, List.mem_map] at hc
                obtain ⟨x, hx, rfl⟩ := hc
                exact m.2 x hx
              · exact m.1.2.cols _ _ _ (st.placedOk p hp c hc),
            linkedOk := fun p hp => (st.linkedOk p hp).mono m.1.2,
            indexedOk := fun p hp => (st.indexedOk p hp).mono m.1.2 }

/-- successor schema in which a foreign key has just been added: log it -/
def St.link {d} (st : St d) (ent attr child : Name) (cols : List Name) (parent : Name) (parentCols : List Name)
    (m : { s' : MSchema st.schema // HasFk s'.1.1 child cols parent parentCols }) : St d :=
  { st with schema := m.1.1, linked := ⟨ent, attr, child, cols, parent, parentCols⟩ :: st.linked,
            placedOk := fun p hp c hc => m.1.2.cols _ _ _ (st.placedOk p hp c hc),
            linkedOk := by
              intro p hp
              rcases List.mem_cons.mp hp with rfl | hp
              · exact m.2
              · exact (st.linkedOk p hp).mono m.1.2,
            indexedOk := fun p hp => (st.indexedOk p hp).mono m.1.2 }

/-- successor schema in which `add_index` has just succeeded: log the index -/
def St.index {d} (st : St d) (table ent : Name) (cols : List Name) (isPk : PkKind) (uniq : Bool)
    (m : { s' : MSchema st.schema // HasIdx s'.1.1 table cols isPk uniq }) : St d :=
  { st with schema := m.1.1, indexed := ⟨table, ent, cols, isPk, uniq⟩ :: st.indexed,
            placedOk := fun p hp c hc => m.1.2.cols _ _ _ (st.placedOk p hp c hc),
            linkedOk := fun p hp => (st.linkedOk p hp).mono m.1.2,
            indexedOk := by
              intro p hp
              rcases List.mem_cons.mp hp with rfl | hp
              · exact m.2
              · exact (st.indexedOk p hp).mono m.1.2 }

/-- `get_default_column_names` with provenance -/
def defaultColumnTNames (d : Dialect) (attr : Name) : Option (List Name) → List (TName d)
  | none => [TName.norm d attr]
  | some [_] => [TName.norm d attr]
  | some cols => cols.map (fun c => TName.norm d (attr ++ sU ++ c))

/-- `get_default_m2m_column_names` with provenance -/
def defaultM2mColumnTNames (d : Dialect) (ent : Name) (pkCols : List Name) : List (TName d) :=
  match pkCols with
  | [_] => [TName.norm d (lower ent)]
  | cols => cols.map (fun c => TName.norm d (lower ent ++ sU ++ c))

/-- `EntityMeta._get_pk_columns_`, parametrised by `Attribute.get_columns` (the two are mutually recursive in Pony) -/
def pkColumnsWith {d} (D : Decls) (get : St d → Name → Attr → Except Err (List (TName d) × St d)) (st : St d) (e : Entity) :
    Except Err (List (TName d) × St d) :=
  match lookup e.name st.pk with
  | some c => .ok (c, st)
  | none =>
    let rec loop : List Name → List (TName d) → St d → Except Err (List (TName d) × St d)
      | [], acc, st => .ok (acc, { st with pk := (e.name, acc) :: st.pk })
      | an :: rest, acc, st =>
        match findAttr D e.root an with
        | none => err "Precondition" "pk-attr-missing"
        | some a =>
          match get st e.root a with
          | .error e => .error e
          | .ok (c, st) => loop rest (acc ++ c) st
    loop e.pkAttrs [] st

/-- `Attribute.get_columns` (non-collection attributes); the fuel bounds the depth of the
    get_columns → _get_pk_columns_ → get_columns chain (Python: RecursionError on a cycle of primary-key references) -/
def getColumns (D : Decls) (d : Dialect) : Nat → St d → Name → Attr → Except Err (List (TName d) × St d)
  | 0, _, _, _ => err "RecursionError" "get-columns"
  | fuel + 1, st, owner, a =>
    if isChecked st owner a then .ok (curCols st owner a, st)
    else
      let cur := curCols st owner a
      let finish (c : List (TName d)) (st : St d) : Except Err (List (TName d) × St d) :=
        .ok (c, setChecked (setCols st owner a c) owner a)
      match a.target, a.reverse with
      | some tgt, some rname =>
        match findEnt D tgt, findAttr D tgt rname with
        | some te, some r =>
          let generate : Except Err (List (TName d) × St d) :=
            match pkColumnsWith D (getColumns D d fuel) st te with
            | .error e => .error e
            | .ok (rpk, st) =>
              if cur = [] then finish (defaultColumnTNames d a.name (some (names rpk))) st
              else if cur.length ≠ rpk.length then err "MappingError" "invalid-number-of-columns"
              else finish cur st
          if r.isSet then generate                       -- one-to-many
          else if a.isRequired then generate             -- one-to-one
          else if cur ≠ [] then generate
          else if curCols st tgt r ≠ [] then finish [] st
          else if r.isRequired then finish [] st
          else if decide (tgt < owner) then finish [] st -- `attr.entity.__name__ > reverse.entity.__name__`
          else generate
        | _, _ => err "Precondition" "unlinked-reverse"
      | _, _ =>
        if cur = [] then finish (defaultColumnTNames d a.name none) st
        else if cur.length > 1 then err "MappingError" "too-many-columns"
        else finish cur st

def getPkColumns (D : Decls) (d : Dialect) (fuel : Nat) (st : St d) (e : Entity) : Except Err (List (TName d) × St d) :=
  pkColumnsWith D (getColumns D d fuel) st e

/-- `Set.get_m2m_columns(is_reverse)`; `owner` is `attr.entity` -/
def getM2mColumns (D : Decls) (d : Dialect) (fuel : Nat) (st : St d) (owner : Entity) (a : Attr) (isReverse : Bool) :
    Except Err (List (TName d) × St d) :=
  match a.target, a.reverse with
  | some tgt, some rname =>
    match findAttr D tgt rname with
    | none => err "Precondition" "unlinked-reverse"
    | some r =>
      match getPkColumns D d fuel st owner with
      | .error e => .error e
      | .ok (pkc, st) =>
        let sym := symmetric owner.name a
        if sym || owner.name == tgt then
          if isChecked st owner.name a then
            if !sym then .ok (curCols st owner.name a, st)
            else if !isReverse then .ok (curCols st owner.name a, st)
            else .ok (curRCols st owner.name a, st)
          else
            let cur := curCols st owner.name a
            if cur ≠ [] ∧ cur.length ≠ pkc.length then err "MappingError" "invalid-number-of-m2m-columns"
            else
              let cols := if cur ≠ [] then cur else defaultM2mColumnTNames d owner.name (names pkc)
              let st := setChecked (setCols st owner.name a cols) owner.name a
              if sym then
                let rc := curRCols st owner.name a
                if rc = [] then
                  let rc : List (TName d) := cols.map (fun c => TName.suffixed (c.n ++ sU2))
                  let st := { st with rcols := ((owner.name, a.name), rc) :: st.rcols }
                  .ok (if isReverse then rc else cols, st)
                else if rc.length ≠ pkc.length then err "MappingError" "invalid-number-of-reverse-columns"
                else .ok (if isReverse then rc else cols, st)
              else
                let rcur := curCols st tgt r
                let rcols : List (TName d) := if rcur = [] then cols.map (fun c => TName.suffixed (c.n ++ sU2)) else rcur
                let st := setChecked (setCols st tgt r rcols) tgt r
                .ok (if isReverse then rcols else cols, st)
        else if isChecked st owner.name a then .ok (curCols st tgt r, st)
        else
          let rcur := curCols st tgt r
          if rcur ≠ [] ∧ rcur.length ≠ pkc.length then err "MappingError" "invalid-number-of-m2m-columns"
          else
            let rcols := if rcur ≠ [] then rcur else defaultM2mColumnTNames d owner.name (names pkc)
            let st := setChecked (setCols st tgt r rcols) owner.name a
            .ok (rcols, st)
  | _, _ => err "Precondition" "set-without-reverse"

def addColumns {d} (s : ISchema d) (t : Name) (notNull : Bool) :
    (cols : List (TName d)) → Except Err { s' : MSchema s // ∀ c ∈ cols, HasCol s'.1.1 t c.n notNull }
  | [] => .ok ⟨⟨s, Mono.refl _⟩, by intro c hc; cases hc⟩
  | c :: rest =>
    match s.addColumn t c notNull with
    | .error e => .error e
    | .ok s1 =>
      match addColumns s1.1.1 t notNull rest with
      | .error e => .error e
      | .ok s2 => .ok ⟨⟨s2.1.1, s1.1.2.trans s2.1.2⟩, by
          intro x hx
          rcases List.mem_cons.mp hx with rfl | hx
          · exact s2.1.2.cols _ _ _ s1.2
          · exact s2.2 x hx⟩

def digits (k : Nat) : Name := Nat.toDigits 10 k

/-- `while m2m_table is not None: new_table_name = table_name + '_%d' % next(seq_counter)` (counter from 2) -/
def suffixSearch (s : Schema) (base : Name) : Nat → Nat → Name
  | 0, k => base ++ sU ++ digits k
  | fuel + 1, k =>
    let cand := base ++ sU ++ digits k
    if (findTable s cand).isSome then suffixSearch s base fuel (k + 1) else cand

/-- the many-to-many branch of the first loop of `generate_mapping` (core.py:1003-1044) -/
def processM2m (D : Decls) (d : Dialect) (fuel : Nat) (st : St d) (e : Entity) (a : Attr) (tgt : Name) (te : Entity) (r : Attr) :
    Except Err (St d) :=
  if decide (tgt < e.name) then .ok st
  else if e.name == tgt && decide (r.name < a.name) then .ok st
  else
    let aT := curTable st e.name a
    let rT := curTable st tgt r
    -- `if attr.table: ... elif reverse.table: ... else: default`
    let pick : Except Err (TName d × Bool) :=
      match aT, rT with
      | some x, none => .ok (x, true)
      | some x, some y => if x.n ≠ y.n then err "MappingError" "m2m-table-mismatch" else .ok (x, true)
      | none, some y => .ok (y, true)
      | none, none => .ok (TName.norm d (if symmetric e.name a then e.name ++ sU ++ a.name else e.name ++ sU ++ tgt), false)
    match pick with
    | .error x => .error x
    | .ok (tn, custom) =>
      let resolved : Except Err (TName d) :=
        match findTable st.schema.1 tn.n with
        | none => .ok tn
        | some m =>
          if !custom then .ok (TName.suffixed (suffixSearch st.schema.1 tn.n st.schema.1.tables.length 2))
          else if m.entities ≠ [] ∨ m.isM2m then err "MappingError" "table-name-in-use"
          else err "NotImplementedError" "m2m-table-exists"
      match resolved with
      | .error x => .error x
      | .ok tn =>
        let st := { st with tbl := ((e.name, a.name), tn) :: ((tgt, r.name), tn) :: st.tbl }
        match st.schema.addTable tn none with
        | .error x => .error x
        | .ok sch =>
          let st := st.setSchema sch
          match getM2mColumns D d fuel st e a false with
          | .error x => .error x
          | .ok (c1, st) =>
            match getM2mColumns D d fuel st te r true with
            | .error x => .error x
            | .ok (c2, st) =>
              let pkLen (n : Name) : Nat := match lookup n st.pk with | some c => c.length | none => 0
              if names c1 == names c2 then err "MappingError" "same-m2m-columns"
              -- `assert len(m2m_columns_1) == len(reverse.converters)`, `assert len(m2m_columns_2) == len(attr.converters)`
              -- (user-given columns of the second attribute of a self-referencing pair are not length-checked before)
              else if c1.length ≠ pkLen e.name ∨ c2.length ≠ pkLen tgt then err "AssertionError" "m2m-columns-count"
              else
                match addColumns st.schema tn.n true (c1 ++ c2) with
                | .error x => .error x
                | .ok sch =>
                  let st := st.place tn.n e.name a.name true (c1 ++ c2) sch
                  match st.schema.addIndex tn.n .none ((tableCols st.schema.1 tn.n).map (·.name)) .yes none false with
                  | .error x => .error x
                  | .ok sch =>
                    let st := st.index tn.n e.name ((tableCols st.schema.1 tn.n).map (·.name)) .yes false sch
                    .ok (st.setSchema (st.schema.markM2m tn.n))

/-- one attribute in the first loop of `generate_mapping` -/
def processAttr1 (D : Decls) (d : Dialect) (fuel : Nat) (st : St d) (e : Entity) (tname : Name) (a : Attr) : Except Err (St d) :=
  if a.isSet then
    match a.target, a.reverse with
    | some tgt, some rname =>
      match findEnt D tgt, findAttr D tgt rname with
      | some te, some r =>
        if !r.isSet then
          if a.table.isSome then err "MappingError" "table-for-one-to-many"
          else if a.columns ≠ [] then err "NotImplementedError" "column-for-one-to-many"
          else .ok st
        else processM2m D d fuel st e a tgt te r
      | _, _ => err "Precondition" "unlinked-reverse"
    | _, _ => err "Precondition" "set-without-reverse"
  else
    let nl : Except Err (Option Bool) :=
      if a.isRequired then .ok a.nullable
      else if !a.isString then
        if a.nullable = some false then err "TypeError" "optional-non-string-not-nullable" else .ok (some true)
      else if d = .oracle then
        if a.nullable = some false then err "ERDiagramError" "oracle-optional-string-not-nullable" else .ok (some true)
      else .ok a.nullable
    match nl with
    | .error x => .error x
    | .ok nl =>
      match getColumns D d fuel st e.name a with
      | .error x => .error x
      | .ok (cols, st) =>
        match addColumns st.schema tname (!(nl.getD false)) cols with
        | .error x => .error x
        | .ok sch => .ok (st.place tname e.name a.name (!(nl.getD false)) cols sch)

def forM {σ α} (f : σ → α → Except Err σ) : σ → List α → Except Err σ
  | s, [] => .ok s
  | s, x :: rest => match f s x with
    | .ok s' => forM f s' rest
    | .error e => .error e

/-- columns of the attributes of a declared index: `for attr in attrs: column_names.extend(attr.columns)` -/
def indexColumns {d} (D : Decls) (st : St d) (ix : IndexDecl) : List Name :=
  ix.attrs.flatMap (fun (o, an) => match findAttr D o an with
    | some a => names (curCols st o a)
    | none => [])

/-- body of the first `for entity in entities` loop -/
def processEntity1 (D : Decls) (d : Dialect) (fuel : Nat) (st : St d) (e : Entity) : Except Err (St d) :=
  match getPkColumns D d fuel st e with
  | .error x => .error x
  | .ok (pkc, st) =>
    let tn : Except Err (TName d) :=
      if e.root != e.name then
        if e.table.isSome then err "NotImplementedError" "table-name-for-subclass"
        else match lookup e.root st.entTable with
          | some t => .ok t
          | none => err "Precondition" "root-not-mapped"
      else match e.table with
        | some t => .ok (TName.explicit t)
        | none => .ok (TName.norm d e.name)
    match tn with
    | .error x => .error x
    | .ok tn =>
      let st : St d := { st with entTable := (e.name, tn) :: st.entTable }
      let sch : Except Err (MSchema st.schema) :=
        match findTable st.schema.1 tn.n with
        | none => st.schema.addTable tn (some (e.name, e.root))
        | some t => st.schema.addEntity t e.name e.root
      match sch with
      | .error x => .error x
      | .ok sch =>
        match forM (fun st a => processAttr1 D d fuel st e tn.n a) (st.setSchema sch) e.attrs with
        | .error x => .error x
        | .ok st =>
          let pkSet := match findTable st.schema.1 tn.n with | some t => t.pkSet | none => false
          let isPk : PkKind :=
            if pkc.length == 1 && (match e.pkAttrs.head? with
                                    | some an => (match findAttr D e.root an with | some a => a.auto | none => false)
                                    | none => false) then .auto else .yes
          let st1 : Except Err (St d) :=
            if pkSet then .ok st
            else match st.schema.addIndex tn.n .none (names pkc) isPk none false with
              | .error x => .error x
              | .ok sch => .ok (st.index tn.n e.name (names pkc) isPk false sch)
          match st1 with
          | .error x => .error x
          | .ok st =>
            let addIx (st : St d) (ix : IndexDecl) : Except Err (St d) :=
              if ix.isPk then .ok st
              else
                let arg : IdxArg := match ix.attrs with
                  | [(o, an)] => (match findAttr D o an with | some a => a.index | none => .none)
                  | _ => .none
                match st.schema.addIndex tn.n arg (indexColumns D st ix) .no (some ix.isUnique) false with
                | .error x => .error x
                | .ok sch => .ok (st.index tn.n e.name (indexColumns D st ix) .no ix.isUnique sch)
            forM addIx st e.indexes

/-- one attribute in the second loop (foreign keys and attribute indexes, core.py:1098-1134) -/
def processAttr2 (D : Decls) (d : Dialect) (st : St d) (e : Entity) (tname : Name) (a : Attr) : Except Err (St d) :=
  let pkOf (n : Name) : List Name := match lookup n st.pk with | some c => names c | none => []
  let cols := names (curCols st e.name a)
  if a.isSet then
    match a.target, a.reverse with
    | some tgt, some rname =>
      match findAttr D tgt rname with
      | none => err "Precondition" "unlinked-reverse"
      | some r =>
        if !r.isSet then .ok st
        else
          match curTable st e.name a with
          | none => err "KeyError" "m2m-table-unset"
          | some m2m =>
            match st.schema.addFk m2m.n r.fkName (names (curCols st tgt r)) tname (pkOf e.name) a.index with
            | .error x => .error x
            | .ok sch =>
              let rc := names (curRCols st e.name a)
              let st := st.link e.name a.name m2m.n (names (curCols st tgt r)) tname (pkOf e.name) sch
              if symmetric e.name a then
                match st.schema.addFk m2m.n a.reverseFkName rc tname (pkOf e.name) a.reverseIndex with
                | .error x => .error x
                | .ok sch => .ok (st.link e.name a.name m2m.n rc tname (pkOf e.name) sch)
              else .ok st
    | _, _ => err "Precondition" "set-without-reverse"
  else
    match a.target, a.reverse with
    | some tgt, some rname =>
      if cols = [] then .ok st
      else
        match findAttr D tgt rname, lookup tgt st.entTable with
        | some r, some pt =>
          -- `fk_name = attr.fk_name if attr.fk_name is not None else attr.reverse.fk_name`
          match st.schema.addFk tname (match a.fkName with | some n => some n | none => r.fkName) cols pt.n (pkOf tgt) a.index with
          | .error x => .error x
          | .ok sch => .ok (st.link e.name a.name tname cols pt.n (pkOf tgt) sch)
        | _, _ => err "Precondition" "unlinked-reverse"
    | _, _ =>
      if (a.index = .none ∨ a.index = .false) ∨ cols = [] then .ok st
      else
        match st.schema.addIndex tname a.index cols .no a.unique false with
        | .error x => .error x
        | .ok sch => .ok (st.index tname e.name cols .no (a.unique.getD false) sch)

def processEntity2 (D : Decls) (d : Dialect) (st : St d) (e : Entity) : Except Err (St d) :=
  match lookup e.name st.entTable with
  | none => err "Precondition" "entity-not-mapped"
  | some tn => forM (fun st a => processAttr2 D d st e tn.n a) st e.attrs

def fuelFor (D : Decls) : Nat := 2 * D.length + 4

/-- `Database.generate_mapping` up to (not including) `create_tables` / `check_tables` -/
def generateSt (d : Dialect) (D : Decls) : Except Err (St d) :=
  match forM (processEntity1 D d (fuelFor D)) { schema := ISchema.empty d } D with
  | .error x => .error x
  | .ok st => forM (processEntity2 D d) st D

def generate (d : Dialect) (D : Decls) : Except Err Schema :=
  match generateSt d D with
  | .ok st => .ok st.schema.1
  | .error e => .error e

end PonyVerif.Model.Mapping
