/-
  C20 — executable model of Pony's optimistic concurrency control (pony/orm/core.py) over a shared SQLite database.

  One shared committed row store; per session (SessionCache) per object the fields the code keeps:
  `_dbvals_`, `_vals_`, `_rbits_`, `_wbits_`, `_status_`; per session `objects_to_save`, `for_update`, `immediate`,
  `in_transaction` and the uncommitted writes of its open transaction.  SQLite serialises writers: `BEGIN IMMEDIATE`
  is taken under the provider's `pre_transaction_lock`/`transaction_lock` (dbproviders/sqlite.py) and held to COMMIT/ROLLBACK.

  A step is ONE SQL statement of one session together with the Python code around it (statement granularity):
  the `flush`/`commit`/`close` actions and every query first emit the pending `UPDATE`s one per step (auto-flush in
  `prepare_connection_for_query_execution`), reporting `.flushing` until the action itself is executed.
  Mirrors (names of the Python functions in brackets); ghost fields (`obs`, `written`) are only used to STATE the property.
  Core Lean only (linked into the driver).
-/
namespace PonyVerif.Model.Occ

abbrev Sid := Nat
abbrev Obj := Nat
abbrev Attr := Nat
abbrev Val := Int

/-- pointwise update of a function on `Nat` -/
def upd {β : Type} (f : Nat → β) (k : Nat) (v : β) : Nat → β := fun x => if x = k then v else f x

@[simp] theorem upd_same {β : Type} (f : Nat → β) (k : Nat) (v : β) : upd f k v k = v := by simp [upd]
theorem upd_other {β : Type} (f : Nat → β) (k x : Nat) (v : β) (h : x ≠ k) : upd f k v x = f x := by simp [upd, h]

/-- the entity declaration and the `db_session` options -/
structure Cfg where
  /-- `_attrs_with_columns_` without the primary key, in declaration order -/
  attrs : List Attr
  /-- `Attribute.lazy` -/
  lazy : Attr → Bool
  /-- `Attribute.is_volatile` (bit 0 in `_bits_except_volatile_`) -/
  volatile : Attr → Bool
  /-- `attr.optimistic if attr.optimistic is not None else converters[0].optimistic` -/
  attrOpt : Attr → Bool
  /-- `db_session(optimistic=...)` of the sessions of thread `s` -/
  sessOpt : Sid → Bool
  /-- `db_session(immediate=True)` or `db_session(ddl=True)` for the sessions of thread `s`: the transaction (BEGIN IMMEDIATE)
      starts with the first statement; it does NOT switch the optimistic checks off -/
  sessImm : Sid → Bool := fun _ => false
  /-- the primary keys of the rows of the table, in the order a full scan returns them (no insert / delete in this model) -/
  objs : List Obj := []

inductive Status | loaded | modified | updated
  deriving DecidableEq, Repr

/-- one entity instance inside one session cache -/
structure ObjSt where
  /-- in the identity map (`cache.indexes[pk]`) -/
  present : Bool
  status : Status
  /-- `_dbvals_` (`none` = NOT_LOADED) -/
  dbvals : Attr → Option Val
  /-- `_vals_` -/
  vals : Attr → Option Val
  rbits : Attr → Bool
  wbits : Attr → Bool
  /-- ghost: the value the application last got from `obj.a` while it had not itself assigned `a` in this session,
      or the value this session last wrote to the database for `a` -/
  obs : Attr → Option Val
  /-- ghost: the application assigned `a` in this session -/
  written : Attr → Bool

def ObjSt.absent : ObjSt :=
  ⟨false, .loaded, fun _ => none, fun _ => none, fun _ => false, fun _ => false, fun _ => none, fun _ => false⟩

/-- `_get_from_identity_map_(pkval, 'loaded')` for a new instance: `_rbits_ = _wbits_ = 0`, empty `_vals_`/`_dbvals_` -/
def ObjSt.new : ObjSt :=
  ⟨true, .loaded, fun _ => none, fun _ => none, fun _ => false, fun _ => false, fun _ => none, fun _ => false⟩

/-- [Attribute.__get__] once the value is in `_vals_`: `if not wbits & bit: obj._rbits_ |= bit` with
    `bit = _bits_except_volatile_[attr]` -/
def ObjSt.read (cfg : Cfg) (os : ObjSt) (a : Attr) : ObjSt :=
  if !cfg.volatile a && !os.wbits a then
    { os with rbits := upd os.rbits a true, obs := upd os.obs a (os.vals a) }
  else os

/-- [Attribute.__set__], plain attribute: `_wbits_ |= bit`, status 'modified', `_vals_[attr] = new_val` -/
def ObjSt.write (os : ObjSt) (a : Attr) (v : Val) : ObjSt :=
  { os with wbits := upd os.wbits a true, status := .modified, vals := upd os.vals a (some v),
            written := upd os.written a true }

/-- first loop of [Entity._db_set_]: the fetched attributes whose `_dbvals_` entry is missing or different -/
def changed (os : ObjSt) (row : Attr → Val) (as : List Attr) : List Attr :=
  as.filter (fun a => os.dbvals a != some (row a))

/-- [Entity._db_set_] / [Attribute.db_set]: `none` = UnrepeatableReadError (a changed attribute has its read bit set);
    otherwise `_dbvals_` takes the new value and `_vals_` too unless the write bit is set -/
def ObjSt.dbSet (os : ObjSt) (row : Attr → Val) (as : List Attr) : Option ObjSt :=
  let ch := changed os row as
  if ch.any os.rbits then none
  else some { os with
    dbvals := fun a => if ch.contains a then some (row a) else os.dbvals a,
    vals := fun a => if ch.contains a && !os.wbits a then some (row a) else os.vals a }

/-- [_construct_optimistic_criteria_]: `_attrs_with_bit_(_attrs_with_columns_, _rbits_)` filtered by the optimistic flag -/
def optCols (cfg : Cfg) (os : ObjSt) : List Attr := cfg.attrs.filter (fun a => os.rbits a && cfg.attrOpt a)

/-- [_save_updated_]: `_attrs_with_bit_(_attrs_with_columns_, _wbits_)` -/
def wAttrs (cfg : Cfg) (os : ObjSt) : List Attr := cfg.attrs.filter os.wbits

/-- end of [_save_updated_]: status 'updated', `_rbits_ |= _wbits_ & _all_bits_except_volatile_`, `_wbits_ = 0`,
    then [_update_dbvals_](False, new_dbvals) -/
def ObjSt.afterSave (cfg : Cfg) (os : ObjSt) : ObjSt :=
  { os with
    status := .updated
    rbits := fun a => os.rbits a || (os.wbits a && !cfg.volatile a)
    wbits := fun _ => false
    vals := fun a => if cfg.volatile a then none else os.vals a
    dbvals := fun a =>
      match os.vals a with
      | none => os.dbvals a                                     -- `if attr not in vals: continue`
      | some v => if cfg.volatile a then none                   -- `del vals[attr]; dbvals.pop(attr, None)`
                  else if os.wbits a then some v                -- `if attr in new_dbvals: dbvals[attr] = new_dbvals[attr]`
                  else os.dbvals a
    obs := fun a => if os.wbits a && !cfg.volatile a then os.vals a else os.obs a }

/-- one session cache -/
structure Sess where
  /-- the thread has a live SessionCache (`database._get_cache()` was called since the last close/rollback) -/
  alive : Bool
  objs : Obj → ObjSt
  /-- `cache.objects_to_save` (objects with status 'modified', in order of first modification) -/
  toSave : List Obj
  /-- `cache.for_update` -/
  forUpd : Obj → Bool
  immediate : Bool
  inTxn : Bool
  /-- rows written by the open transaction, newest first -/
  pend : List (Obj × Attr × Val)
  /-- `cache.query_results`: criterion queries already answered in this session → the objects they returned -/
  qcache : List ((Attr × Val × Bool) × List Obj) := []

/-- `SessionCache.__init__`: `cache.immediate = db_session.immediate`
    (= `immediate or ddl or serializable or not optimistic`; `sessOpt` = `optimistic and not serializable`) -/
def Sess.fresh (cfg : Cfg) (s : Sid) : Sess :=
  ⟨false, fun _ => ObjSt.absent, [], fun _ => false, cfg.sessImm s || !cfg.sessOpt s, false, [], []⟩

structure State where
  /-- committed rows -/
  store : Obj → Attr → Val
  sess : Sid → Sess
  /-- holder of `provider.transaction_lock` (= the connection inside BEGIN IMMEDIATE … COMMIT) -/
  lock : Option Sid
  /-- holder of `provider.pre_transaction_lock` (a session queued for the transaction lock) -/
  preLock : Option Sid

def State.init (cfg : Cfg) (store : Obj → Attr → Val) : State :=
  ⟨store, fun s => Sess.fresh cfg s, none, none⟩

def State.withSess (σ : State) (s : Sid) (ss : Sess) : State := { σ with sess := upd σ.sess s ss }

def lookupPend : List (Obj × Attr × Val) → Obj → Attr → Option Val
  | [], _, _ => none
  | (o', a', v) :: r, o, a => if o' = o ∧ a' = a then some v else lookupPend r o a

/-- what the connection of session `s` sees: committed rows overlaid with its own uncommitted writes -/
def view (σ : State) (s : Sid) (o : Obj) (a : Attr) : Val :=
  match lookupPend (σ.sess s).pend o a with
  | some v => v
  | none => σ.store o a

inductive Res
  | ok (v : Option Val)
  | flushing               -- one UPDATE of the pending flush was executed; the action itself is still to do
  | blocked                -- waits for the provider's transaction lock
  | notLoaded              -- the object is not in this session's identity map (the action is skipped)
  | optimisticCheckError
  | unrepeatableRead
  | keyError               -- `obj._dbvals_[attr]` / `obj._vals_[attr]` missing (proved unreachable)
  deriving DecidableEq, Repr

structure Out where
  res : Res
  /-- ghost: an `UPDATE` of this object was executed with rowcount 1 in this step -/
  upd : Option Obj := none

def Res.failed : Res → Bool
  | .optimisticCheckError | .unrepeatableRead | .keyError => true
  | _ => false

/-- the exception leaves `db_session` (or `commit()` fails): [SessionCache.rollback] → `close(rollback=True)`;
    the provider releases the transaction lock; the next action of the thread starts a new session -/
def failSess (cfg : Cfg) (σ : State) (s : Sid) : State :=
  { σ with sess := upd σ.sess s (Sess.fresh cfg s)
           lock := if (σ.sess s).inTxn then none else σ.lock
           preLock := if σ.preLock = some s then none else σ.preLock }

def setImmediate (σ : State) (s : Sid) : State := σ.withSess s { σ.sess s with immediate := true }

/-- start of [SessionCache.flush] with modified objects: `cache.immediate = True`, `cache.query_results.clear()` -/
def prepFlush (σ : State) (s : Sid) : State := σ.withSess s { σ.sess s with immediate := true, qcache := [] }

/-- `database._get_cache()` creates the SessionCache of the thread when there is none -/
def wake (σ : State) (s : Sid) : State := σ.withSess s { σ.sess s with alive := true }

/-- [prepare_connection_for_query_execution] → [SQLiteProvider.set_transaction_mode]: when `cache.immediate` and not
    yet in a transaction, `acquire_lock()` (pre_transaction_lock, then transaction_lock) and `BEGIN IMMEDIATE`.
    `false` = the thread has to wait. -/
def ensureTxn (σ : State) (s : Sid) : State × Bool :=
  let ss := σ.sess s
  if ss.immediate && !ss.inTxn then
    if σ.preLock.isSome && σ.preLock != some s then (σ, false)
    else match σ.lock with
      | none => ({ σ with lock := some s, preLock := none, sess := upd σ.sess s { ss with inTxn := true } }, true)
      | some _ => ({ σ with preLock := some s }, false)
  else (σ, true)

def newPend (o : Obj) (os : ObjSt) (wa : List Attr) : List (Obj × Attr × Val) :=
  wa.filterMap (fun a => (os.vals a).map (fun v => (o, a, v)))

/-- the optimistic part of the WHERE clause: none for a non-optimistic session or an object in `cache.for_update` -/
def critCols (cfg : Cfg) (s : Sid) (locked : Bool) (os : ObjSt) : List Attr :=
  if cfg.sessOpt s && !locked then optCols cfg os else []

/-- `obj._dbvals_[attr]` / `obj._vals_[attr]` would raise KeyError -/
def keyMissing (os : ObjSt) (cols wa : List Attr) : Bool :=
  cols.any (fun a => (os.dbvals a).isNone) || wa.any (fun a => (os.vals a).isNone)

/-- `WHERE pk = ? AND col = dbval AND …` evaluated on the row the connection of `s` sees (`rowcount == 1`) -/
def whereOk (σ : State) (s : Sid) (o : Obj) (os : ObjSt) (cols : List Attr) : Bool :=
  cols.all (fun a => os.dbvals a == some (view σ s o a))

/-- the optimistic criteria (column, `_dbvals_` entry) of the UPDATE that the next flush step of `s` issues — reported to
    the tie, which checks the generated WHERE clause column by column (`IS NULL` for a None observation, `= ?` otherwise) -/
def headCrit (cfg : Cfg) (σ : State) (s : Sid) : Option (Obj × List (Attr × Option Val)) :=
  match (σ.sess s).toSave with
  | [] => none
  | o :: _ =>
    let os := (σ.sess s).objs o
    some (o, (critCols cfg s ((σ.sess s).forUpd o) os).map (fun a => (a, os.dbvals a)))

/-- [Entity._save_updated_] for the first object of `objects_to_save`:
    `UPDATE t SET written columns WHERE pk AND optimistic columns = dbvals`, `rowcount == 0` → OptimisticCheckError -/
def saveHead (cfg : Cfg) (σ : State) (s : Sid) (o : Obj) (rest : List Obj) (done : Res) : State × Out :=
  let os := ((σ.sess s).objs o)
  let wa := wAttrs cfg os
  if wa.isEmpty then
    let ss := σ.sess s
    (σ.withSess s { ss with objs := upd ss.objs o (os.afterSave cfg), toSave := rest, qcache := [] }, ⟨done, none⟩)
  else
    let r := ensureTxn (prepFlush σ s) s
    if !r.2 then (r.1, ⟨.blocked, none⟩)
    else
      let σ1 := r.1
      let ss := σ1.sess s
      let cols := critCols cfg s (ss.forUpd o) os
      if keyMissing os cols wa then
        (failSess cfg σ1 s, ⟨.keyError, none⟩)
      else if whereOk σ1 s o os cols then
        (σ1.withSess s { ss with objs := upd ss.objs o (os.afterSave cfg), toSave := rest,
                                 pend := newPend o os wa ++ ss.pend }, ⟨done, some o⟩)
      else (failSess cfg σ1 s, ⟨.optimisticCheckError, none⟩)

/-- `if for_update: cache.immediate = True` -/
def setImmIf (σ : State) (s : Sid) (imm : Bool) : State := if imm then setImmediate σ s else σ

/-- a query: auto-flush first (one UPDATE per step), then the transaction mode, then the statement `k` -/
def query (cfg : Cfg) (σ : State) (s : Sid) (imm : Bool) (k : State → State × Out) : State × Out :=
  match (σ.sess s).toSave with
  | o :: rest => saveHead cfg σ s o rest .flushing
  | [] =>
    let r := ensureTxn (setImmIf σ s imm) s
    if !r.2 then (r.1, ⟨.blocked, none⟩) else k r.1

def nonLazy (cfg : Cfg) : List Attr := cfg.attrs.filter (fun a => !cfg.lazy a)

/-- [_fetch_objects] for the row of `o`: `_get_from_identity_map_(pk, 'loaded', for_update)` then `_db_set_(avdict)`;
    `none` = UnrepeatableReadError -/
def fetchRow (σ : State) (s : Sid) (o : Obj) (as : List Attr) (fu : Bool) : Option State :=
  let ss := σ.sess s
  let os0 := ss.objs o
  let os1 := if os0.present then os0 else ObjSt.new
  match os1.dbSet (view σ s o) as with
  | none => none
  | some os2 =>
    some (σ.withSess s { ss with objs := upd ss.objs o os2, forUpd := if fu then upd ss.forUpd o true else ss.forUpd })

/-- the SELECT list of a query over the entity whose criteria use `a`: non-lazy columns and `a` itself -/
def selAttrs (cfg : Cfg) (a : Attr) : List Attr := cfg.attrs.filter (fun b => !cfg.lazy b || b == a)

/-- [Attribute.__get__] on an object whose `_vals_` holds the attribute: mark the read, hand `f value` to the application -/
def getAttr (cfg : Cfg) (σ : State) (s : Sid) (o : Obj) (a : Attr) (f : Val → Val) : State × Out :=
  let ss := σ.sess s
  let os := ss.objs o
  match os.vals a with
  | none => (failSess cfg σ s, ⟨.keyError, none⟩)
  | some x => (σ.withSess s { ss with objs := upd ss.objs o (os.read cfg a) }, ⟨.ok (some (f x)), none⟩)

/-- [Attribute.load] (one lazy column, or `obj._load_()` = all non-lazy columns) followed by [__get__] -/
def loadAttr (cfg : Cfg) (s : Sid) (o : Obj) (a : Attr) (f : Val → Val) (σ1 : State) : State × Out :=
  match fetchRow σ1 s o (if cfg.lazy a then [a] else nonLazy cfg) false with
  | none => (failSess cfg σ1 s, ⟨.unrepeatableRead, none⟩)
  | some σ2 => getAttr cfg σ2 s o a f

/-- [_find_in_db_] for `E.get(id=o, a=v)`: `SELECT non-lazy columns and a WHERE id = o AND a = v`; a row that is found
    goes through `_db_set_` and then [_set_rbits] marks `a` as read (`rbits & ~wbits`, bit 0 for a volatile attribute) -/
def findInDb (cfg : Cfg) (s : Sid) (o : Obj) (a : Attr) (v : Val) (σ1 : State) : State × Out :=
  if view σ1 s o a = v then
    match fetchRow σ1 s o (selAttrs cfg a) false with
    | none => (failSess cfg σ1 s, ⟨.unrepeatableRead, none⟩)
    | some σ2 =>
      if (((σ2.sess s).objs o).vals a).isSome then getAttr cfg σ2 s o a (fun _ => 1)
      else (σ2, ⟨.ok (some 1), none⟩)
  else (σ1, ⟨.ok (some 0), none⟩)

/-- [_fetch_objects], the loop over the result rows: `_get_from_identity_map_(pk, 'loaded', for_update)` + `_db_set_` per row;
    `none` = UnrepeatableReadError -/
def fetchRows (s : Sid) (as : List Attr) (fu : Bool) : List Obj → State → Option State
  | [], σ => some σ
  | o :: r, σ =>
    match fetchRow σ s o as fu with
    | none => none
    | some σ' => fetchRows s as fu r σ'

/-- [_set_rbits] for one object and the attribute used in the query: `obj._rbits_ |= rbits & ~wbits` (bit 0 when volatile) -/
def markOne (cfg : Cfg) (σ : State) (s : Sid) (o : Obj) (a : Attr) : State :=
  let ss := σ.sess s
  let os := ss.objs o
  if (os.vals a).isSome then σ.withSess s { ss with objs := upd ss.objs o (os.read cfg a) } else σ

/-- [_set_rbits] over the fetched objects (end of `_fetch_objects(..., used_attrs)`) -/
def markRows (cfg : Cfg) (s : Sid) (a : Attr) : List Obj → State → State
  | [], σ => σ
  | o :: r, σ => markRows cfg s a r (markOne cfg σ s o a)

/-- the value handed to the application for a list of objects (the set of their primary keys) -/
def maskOf (l : List Obj) : Val := l.foldl (fun acc o => acc + (2 : Int) ^ o) 0

def lookupQ : List ((Attr × Val × Bool) × List Obj) → Attr → Val → Bool → Option (List Obj)
  | [], _, _, _ => none
  | ((a', v', f'), l) :: r, a, v, f => if a' = a ∧ v' = v ∧ f' = f then some l else lookupQ r a v f

/-- `cache.query_results[query_key] = items` -/
def addQ (σ : State) (s : Sid) (a : Attr) (v : Val) (fu : Bool) (l : List Obj) : State :=
  σ.withSess s { σ.sess s with qcache := ((a, v, fu), l) :: (σ.sess s).qcache }

/-- `query_key` is None for a for_update query (`translator.query_result_is_cacheable = False`): neither looked up nor stored -/
def cachedQ (ss : Sess) (a : Attr) (v : Val) (fu : Bool) : Option (List Obj) :=
  if fu then none else lookupQ ss.qcache a v fu

def storeQ (σ : State) (s : Sid) (a : Attr) (v : Val) (fu : Bool) (l : List Obj) : State :=
  if fu then σ else addQ σ s a v fu l

/-- [Query._actual_fetch] for `select(x for x in E if x.a == v)` (optionally `.for_update()`): answered from
    `cache.query_results` when the same query was already run in this session since the last flush of modifications /
    commit (no SQL, nothing re-read, nothing marked); otherwise every row the connection sees with `a = v` is fetched,
    then `_set_rbits(objects, used_attrs = {a})`, and the result is cached -/
def selectInDb (cfg : Cfg) (s : Sid) (a : Attr) (v : Val) (fu : Bool) (σ1 : State) : State × Out :=
  match cachedQ (σ1.sess s) a v fu with
  | some l => (σ1, ⟨.ok (some (maskOf l)), none⟩)
  | none =>
    let hit := cfg.objs.filter (fun o => view σ1 s o a == v)
    match fetchRows s (selAttrs cfg a) fu hit σ1 with
    | none => (failSess cfg σ1 s, ⟨.unrepeatableRead, none⟩)
    | some σ2 => (storeQ (markRows cfg s a hit σ2) s a v fu hit, ⟨.ok (some (maskOf hit)), none⟩)

/-- [SessionCache.commit] after the flush: COMMIT when in a transaction, `for_update.clear()`, `immediate = True` -/
def commitTxn (σ : State) (s : Sid) : State :=
  let ss := σ.sess s
  let σ1 : State := if ss.inTxn then { σ with store := fun o a => view σ s o a, lock := none } else σ
  σ1.withSess s { ss with inTxn := false, pend := [], forUpd := fun _ => false, immediate := true, qcache := [] }

inductive Action
  | get (o : Obj) (forUpdate : Bool)      -- E.get(id=o) / E.get_for_update(id=o)
  | fetch (o : Obj) (as : List Attr)      -- E.get_by_sql('SELECT id, <as> FROM e WHERE id = o'): re-reads the row
  | read (o : Obj) (a : Attr)             -- obj.a
  | find (o : Obj) (a : Attr) (v : Val)   -- E.get(id=o, a=v): 1 = found, 0 = None
  | select (a : Attr) (v : Val) (forUpdate : Bool)   -- select(x for x in E if x.a == v)[.for_update()][:]
  | write (o : Obj) (a : Attr) (v : Val)  -- obj.a = v
  | flush                                 -- flush()
  | commit                                -- commit() inside the session
  | close                                 -- leaving `with db_session:` (commit + release)
  | rollback                              -- rollback()
  deriving Repr

def okOut (v : Option Val := none) : Out := ⟨.ok v, none⟩

/-- one statement-granularity step of session `s` -/
def step (cfg : Cfg) (σ : State) (s : Sid) : Action → State × Out
  | .get o fu =>
    let σ := wake σ s
    let ss := σ.sess s
    if (ss.objs o).present && (!fu || ss.forUpd o) then (σ, okOut)          -- [_find_in_cache_] hit
    else query cfg σ s fu (fun σ1 =>                                          -- [_find_in_db_]
      match fetchRow σ1 s o (nonLazy cfg) fu with
      | none => (failSess cfg σ1 s, ⟨.unrepeatableRead, none⟩)
      | some σ2 => (σ2, okOut))
  | .fetch o as =>
    query cfg (wake σ s) s false (fun σ1 =>
      match fetchRow σ1 s o as false with
      | none => (failSess cfg σ1 s, ⟨.unrepeatableRead, none⟩)
      | some σ2 => (σ2, okOut))
  | .read o a =>
    let ss := σ.sess s
    let os := ss.objs o
    if !os.present then (σ, ⟨.notLoaded, none⟩)
    else if (os.vals a).isSome then getAttr cfg σ s o a id
    else query cfg σ s false (loadAttr cfg s o a id)                         -- [Attribute.load]
  | .find o a v =>
    let σ := wake σ s
    let os := (σ.sess s).objs o
    if os.present then                                                        -- [_find_in_cache_]: `val != attr.__get__(obj)`
      if (os.vals a).isSome then getAttr cfg σ s o a (fun x => if x = v then 1 else 0)
      else query cfg σ s false (loadAttr cfg s o a (fun x => if x = v then 1 else 0))
    else query cfg σ s false (findInDb cfg s o a v)
  | .select a v fu => query cfg (wake σ s) s fu (selectInDb cfg s a v fu)
  | .write o a v =>
    let ss := σ.sess s
    let os := ss.objs o
    if !os.present then (σ, ⟨.notLoaded, none⟩)
    else
      (σ.withSess s { ss with objs := upd ss.objs o (os.write a v),
                              toSave := if os.status = .modified then ss.toSave else ss.toSave ++ [o] }, okOut)
  | .flush =>
    match (σ.sess s).toSave with
    | [] => (σ, okOut)
    | o :: rest => saveHead cfg σ s o rest (if rest.isEmpty then .ok none else .flushing)
  | .commit =>
    match (σ.sess s).toSave with
    | o :: rest => saveHead cfg σ s o rest .flushing
    | [] => if (σ.sess s).alive then (commitTxn σ s, okOut) else (σ, okOut)   -- `commit()`: `if not caches: return`
  | .close =>
    match (σ.sess s).toSave with
    | o :: rest => saveHead cfg σ s o rest .flushing
    | [] => ((commitTxn σ s).withSess s (Sess.fresh cfg s), okOut)
  | .rollback => (failSess cfg σ s, okOut)

/-- an arbitrary interleaving of statement-granularity steps -/
def run (cfg : Cfg) (σ : State) : List (Sid × Action) → State
  | [] => σ
  | (s, a) :: r => run cfg (step cfg σ s a).1 r

/-! ### programs of whole operations, driven by a list of thread picks (used by the driver / tie) -/

structure Runner where
  st : State
  pcs : Sid → Nat

/-- thread `s` gets the processor for one segment: the next statement of its current operation -/
def pick (cfg : Cfg) (progs : Sid → List Action) (r : Runner) (s : Sid) : Runner × Option Out :=
  match (progs s)[r.pcs s]? with
  | none => (r, none)
  | some act =>
    let (σ', out) := step cfg r.st s act
    let pc' := match out.res with
      | .flushing | .blocked => r.pcs s
      | .ok _ | .notLoaded => r.pcs s + 1
      | _ => (progs s).length           -- an exception ends the thread's program
    (⟨σ', upd r.pcs s pc'⟩, some out)

end PonyVerif.Model.Occ
