/-
  C04 — model of `pony/orm/asttranslation.py: PreTranslator` (which sub-expressions of a query are "external", i.e. evaluated
  in the caller's scope and passed as parameters), on a generic labelled tree.  Core Lean only.

  Mirrors `PreTranslator.dispatch` + the post-methods + the demotion pass in `__init__` AS WRITTEN:
   * `Name` (Load): external unless bound by an enclosing context;  `Constant`: external and constant;
   * `Starred`: external whatever it holds;  `List` / `Dict`: external iff every child is;
   * `Slice` without parts: external and constant;  `keyword`: constant iff its value is;
   * `Lambda`: never external; only its body is visited, with its parameter names bound; defaults are not visited;
   * any other node: external iff it has children and all of them are external;
   * an external, non-constant node replaces its direct children in the set of externals;
   * afterwards keyword / Starred / Slice / List / Tuple members of the set are replaced by their external non-constant children
     (one pass, as the code does).
-/
namespace PonyVerif.Model.PreTrans

inductive Kind
  | nameLoad | const | lambda | starred | listD | dictD | slice | keyword | tuple | other
  deriving DecidableEq, Repr, Inhabited

mutual
/-- `lab`: position of the node (preorder), `names`: the identifier of a Name / the parameter names of a Lambda -/
inductive Node | mk (kind : Kind) (lab : Nat) (names : List String) (children : Nodes)
inductive Nodes | nil | cons (n : Node) (t : Nodes)
end

def Node.lab : Node → Nat | .mk _ l _ _ => l
def Node.kind : Node → Kind | .mk k _ _ _ => k
def Node.children : Node → Nodes | .mk _ _ _ c => c
def Nodes.labs : Nodes → List Nat
  | .nil => [] | .cons n t => n.lab :: t.labs
def Nodes.isNil : Nodes → Bool | .nil => true | _ => false

/-- a member of `translator.externals`: its label, whether the demotion pass replaces it (keyword / Starred / Slice / List /
    Tuple), and the labels of its children that are external and not constant (what replaces it) -/
structure Member where
  lab : Nat
  demote : Bool
  promo : List Nat
  deriving Repr

structure Res where
  ext : Bool            -- node.external is True
  const : Bool          -- node.constant is True
  exts : List Member    -- what this subtree leaves in `translator.externals`
  deriving Repr

def nonExternalizable : Kind → Bool
  | .keyword | .starred | .slice | .listD | .tuple => true
  | _ => false

/-- result for a list of children: all external?, constant flag of the first, their externals, labels of the promotable ones -/
structure ResAll where
  all : Bool
  firstConst : Bool
  exts : List Member
  promo : List Nat
  deriving Repr

mutual
def classify (sf : Bool) (ctx : List String) : Node → Res
  | .mk kind lab names ch =>
    match kind with
    | .lambda => { ext := false, const := false, exts := classifyBody sf (names ++ ctx) ch }
    | _ =>
      let r := classifyAll sf ctx ch
      let own : Option Bool × Bool :=      -- what the post-method sets: (external, constant)
        match kind with
        | .nameLoad => (if names.any (fun n => ctx.contains n) then none else some true, false)
        | .const => (some true, true)
        | .starred => (if sf then some true else none, false)   -- `sf`: postStarred sets `external = True` unconditionally
        | .listD => (some r.all, false)
        | .dictD => (some r.all, false)
        | .slice => if ch.isNil then (some true, true) else (none, false)
        | .keyword => (none, r.firstConst)
        | _ => (none, false)
      let ext := match own.1 with
        | some b => b
        | none => !ch.isNil && r.all
      if ext && !own.2 then
        { ext := true, const := false,
          exts := (r.exts.filter (fun m => !ch.labs.contains m.lab)) ++ [{ lab := lab, demote := nonExternalizable kind, promo := r.promo }] }
      else { ext := ext, const := own.2, exts := r.exts }
def classifyAll (sf : Bool) (ctx : List String) : Nodes → ResAll
  | .nil => { all := true, firstConst := false, exts := [], promo := [] }
  | .cons n t =>
    let a := classify sf ctx n
    let b := classifyAll sf ctx t
    { all := a.ext && b.all, firstConst := a.const, exts := a.exts ++ b.exts,
      promo := (if a.ext && !a.const then [n.lab] else []) ++ b.promo }
/-- a Lambda visits only its body (the last child; defaults are never dispatched) -/
def classifyBody (sf : Bool) (ctx : List String) : Nodes → List Member
  | .nil => []
  | .cons n .nil => (classify sf ctx n).exts
  | .cons _ t => classifyBody sf ctx t
end

/-- the demotion pass of `PreTranslator.__init__` (one pass) -/
def finalOf (m : Member) : List Nat := if m.demote then m.promo else [m.lab]
def final (E : List Member) : List Nat := E.flatMap finalOf

/-- `PreTranslator(tree, …).externals` as labels -/
def externals (sf : Bool) (ctx : List String) (t : Node) : List Nat := final (classify sf ctx t).exts

end PonyVerif.Model.PreTrans
