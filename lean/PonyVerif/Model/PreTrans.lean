/-
  C04 — model of `pony/orm/asttranslation.py: PreTranslator` (which sub-expressions of a query are "external", i.e. evaluated
  in the caller's scope and passed as parameters), on a generic labelled tree.  Core Lean only.

  Mirrors `PreTranslator.dispatch` + the post-methods + the demotion pass in `__init__` AS WRITTEN:
   * `Name` (Load): external unless bound by an enclosing context;  `Constant`: external and constant;
   * `Starred`: external whatever it holds;  `List` / `Dict`: external iff every child is;
   * `Slice` without parts: external and constant;  `keyword`: constant iff its value is;
   * `Lambda`: never external; only its body is visited, with its parameter names bound; defaults are not visited;
   * any other node: external iff it has children and all of them are external;
   * an external, non-constant node replaces its direct children in the set of externals;
   * afterwards keyword / Starred / Slice / List / Tuple members of the set are replaced by their external non-constant children
     (one pass, as the code does).
-/
namespace PonyVerif.Model.PreTrans

inductive Kind
  | nameLoad | const | lambda | starred | listD | dictD | slice | keyword | tuple | other
  deriving DecidableEq, Repr, Inhabited

mutual
/-- `lab`: position of the node (preorder), `names`: the identifier of a Name / the parameter names of a Lambda -/
inductive Node | mk (kind : Kind) (lab : Nat) (names : List String) (children : Nodes)
inductive Nodes | nil | cons (n : Node) (t : Nodes)
end

def Node.lab : Node → Nat | .mk _ l _ _ => l
def Node.kind : Node → Kind | .mk k _ _ _ => k
def Node.children : Node → Nodes | .mk _ _ _ c => c
def Nodes.labs : Nodes → List Nat
  | .nil => [] | .cons n t => n.lab :: t.labs
def Nodes.isNil : Nodes → Bool | .nil => true | _ => false

structure Res where
  ext : Bool          -- node.external is True
  const : Bool        -- node.constant is True
  exts : List Nat     -- labels this subtree leaves in `translator.externals`
  deriving Repr

mutual
def classify (ctx : List String) : Node → Res
  | .mk kind lab names ch =>
    match kind with
    | .lambda => { ext := false, const := false, exts := classifyBody (names ++ ctx) ch }
    | _ =>
      let r := classifyAll ctx ch          -- (all children external, constant flag of the first child, externals below)
      let own : Option Bool × Bool :=      -- what the post-method sets: (external, constant)
        match kind with
        | .nameLoad => (if names.any (fun n => ctx.contains n) then none else some true, false)
        | .const => (some true, true)
        | .starred => (some true, false)
        | .listD => (some r.1, false)
        | .dictD => (some r.1, false)
        | .slice => if ch.isNil then (some true, true) else (none, false)
        | .keyword => (none, r.2.1)
        | _ => (none, false)
      let ext := match own.1 with
        | some b => b
        | none => !ch.isNil && r.1
      if ext && !own.2 then { ext := true, const := false, exts := (r.2.2.filter (fun l => !ch.labs.contains l)) ++ [lab] }
      else { ext := ext, const := own.2, exts := r.2.2 }
/-- children in order: (all external?, constant flag of the first child, concatenated externals) -/
def classifyAll (ctx : List String) : Nodes → Bool × Bool × List Nat
  | .nil => (true, false, [])
  | .cons n t =>
    let a := classify ctx n
    let b := classifyAll ctx t
    (a.ext && b.1, a.const, a.exts ++ b.2.2)
/-- a Lambda visits only its body (the last child; defaults are never dispatched) -/
def classifyBody (ctx : List String) : Nodes → List Nat
  | .nil => []
  | .cons n .nil => (classify ctx n).exts
  | .cons _ t => classifyBody ctx t
end

def nonExternalizable : Kind → Bool
  | .keyword | .starred | .slice | .listD | .tuple => true
  | _ => false

mutual
/-- flags of every node of the tree, by label (contexts as in `classify`) -/
def flagsOf (ctx : List String) : Node → List (Nat × Kind × Bool × Bool × List Nat)
  | .mk kind lab names ch =>
    let r := classify ctx (.mk kind lab names ch)
    (lab, kind, r.ext, r.const, ch.labs) :: (match kind with
      | .lambda => flagsBody (names ++ ctx) ch
      | _ => flagsAll ctx ch)
def flagsAll (ctx : List String) : Nodes → List (Nat × Kind × Bool × Bool × List Nat)
  | .nil => []
  | .cons n t => flagsOf ctx n ++ flagsAll ctx t
def flagsBody (ctx : List String) : Nodes → List (Nat × Kind × Bool × Bool × List Nat)
  | .nil => []
  | .cons n .nil => flagsOf ctx n
  | .cons _ t => flagsBody ctx t
end

/-- `PreTranslator(tree, …).externals` as labels -/
def externals (ctx : List String) (t : Node) : List Nat :=
  let exts := (classify ctx t).exts
  let fl := flagsOf ctx t
  let look (l : Nat) := fl.find? (fun x => x.1 == l)
  let demoted := exts.filter (fun l => match look l with | some (_, k, _, _, _) => nonExternalizable k | none => false)
  let promoted := demoted.flatMap (fun l => match look l with
    | some (_, _, _, _, cs) => cs.filter (fun c => match look c with | some (_, _, e, k, _) => e && !k | none => false)
    | none => [])
  (exts.filter (fun l => !demoted.contains l)) ++ promoted

end PonyVerif.Model.PreTrans
