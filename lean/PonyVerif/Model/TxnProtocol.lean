/-
  C17 — a session's writes are atomic under crashes and database errors.

  Two executable models, core Lean only (linked into the driver):

  (a) `next` / `accepts` — the language L of statement traces one SQLite connection may see from Pony
      (pony/orm/core.py `SessionCache.connect / prepare_connection_for_query_execution / flush / commit / close`,
       `Database._exec_sql(start_transaction=True)`, pony/orm/dbproviders/sqlite.py `SQLiteProvider.set_transaction_mode`,
       `SQLitePool._connect` with `isolation_level=None`, `Pool.release` = `con.rollback()`):
         connect → reads (autocommit) → [ BEGIN IMMEDIATE → reads/writes → exactly one COMMIT or ROLLBACK (or close) ]* → close?
      The one rule that makes a session atomic: NO WRITE STATEMENT OUTSIDE A TRANSACTION, and no COMMIT in the middle of
      one (a COMMIT ends the transaction; the next write needs a new BEGIN).  Events carry the flag `ok`
      ("the database performed the call"); a call that raised instead (`ok = false`) changes neither the phase nor the
      database, so Pony's error paths (`rollback_and_reraise`, `cache.commit`'s `except: cache.rollback()`,
      `close`: rollback, on failure drop = close) are ordinary words of L.

  (b) `exec` — the transactional database of DESIGN.md section 5 as SQLite in autocommit mode (`isolation_level=None`)
      presents it to one writer: committed state + the pending state of the single open transaction; writes inside a
      transaction are invisible to others until COMMIT, vanish on ROLLBACK / close / crash; a statement outside a
      transaction is committed by itself (individually atomic).  What a crash really leaves in the file (journal,
      fsync) is NOT derivable here: `crash d = d.committed` is the ASSUMPTION, sampled on every run by SIGKILL.
-/
namespace PonyVerif.Model.TxnProtocol

/-! ### stores: finite maps row-key ↦ row-value, kept sorted by key (canonical) -/

abbrev Store := List (Nat × Int)

def Store.put : Store → Nat → Int → Store
  | [], k, v => [(k, v)]
  | (k', v') :: r, k, v =>
      if k < k' then (k, v) :: (k', v') :: r
      else if k = k' then (k, v) :: r
      else (k', v') :: Store.put r k v

def Store.del : Store → Nat → Store
  | [], _ => []
  | (k', v') :: r, k => if k = k' then r else (k', v') :: Store.del r k

/-- one row written by a statement: `(k, some v)` INSERT/UPDATE of row k, `(k, none)` DELETE of row k -/
abbrev RowWrite := Nat × Option Int

def applyRow (s : Store) : RowWrite → Store
  | (k, some v) => s.put k v
  | (k, none) => s.del k

/-- one statement (`execute` or `executemany`): all its row writes -/
def applyStmt (s : Store) (ws : List RowWrite) : Store := ws.foldl applyRow s

/-- one whole transaction: its write statements in order -/
def applyTx (s : Store) (tx : List (List RowWrite)) : Store := tx.foldl applyStmt s

/-! ### the alphabet -/

inductive Stmt
  | connect                          -- sqlite3.connect
  | read                             -- SELECT / PRAGMA (start_transaction=False); also a failed `cursor()` call
  | begin                            -- BEGIN IMMEDIATE TRANSACTION
  | write (ws : List RowWrite)       -- INSERT / UPDATE / DELETE through execute or executemany, raw or generated
  | commit                           -- connection.commit()
  | rollback                         -- connection.rollback()
  | close                            -- connection.close()
  deriving Repr, DecidableEq, Inhabited

structure Ev where
  stmt : Stmt
  ok : Bool          -- the database performed the call (false: the call raised INSTEAD of being performed)
  deriving Repr, DecidableEq, Inhabited

/-! ### (a) the language L -/

inductive Phase
  | idle     -- no connection
  | auto     -- connected, autocommit mode, no open transaction
  | txn      -- between a successful BEGIN and its COMMIT / ROLLBACK / close
  deriving Repr, DecidableEq, Inhabited

/-- one step of the recogniser; `none` = the trace leaves L -/
def next : Phase → Ev → Option Phase
  | .idle, ⟨.connect, true⟩ => some .auto
  | .idle, ⟨.connect, false⟩ => some .idle
  | .idle, _ => none                              -- nothing can be sent without a connection
  | _, ⟨.connect, _⟩ => none                      -- the session has one connection at a time
  | .auto, ⟨.read, _⟩ => some .auto
  | .auto, ⟨.begin, true⟩ => some .txn
  | .auto, ⟨.begin, false⟩ => some .auto
  | .auto, ⟨.write _, _⟩ => none                  -- THE rule: no write outside a transaction
  | .auto, ⟨.commit, _⟩ => some .auto             -- no-op
  | .auto, ⟨.rollback, _⟩ => some .auto           -- Pool.release: con.rollback() with nothing open
  | .auto, ⟨.close, _⟩ => some .idle
  | .txn, ⟨.read, _⟩ => some .txn
  | .txn, ⟨.write _, _⟩ => some .txn
  | .txn, ⟨.begin, _⟩ => none                     -- "cannot start a transaction within a transaction"
  | .txn, ⟨.commit, true⟩ => some .auto
  | .txn, ⟨.commit, false⟩ => some .txn           -- a COMMIT that raised leaves the transaction open
  | .txn, ⟨.rollback, true⟩ => some .auto
  | .txn, ⟨.rollback, false⟩ => some .txn
  | .txn, ⟨.close, _⟩ => some .idle               -- the handle is closed even when close() reports an error

def runL : Phase → List Ev → Option Phase
  | p, [] => some p
  | p, e :: t => match next p e with
    | some p' => runL p' t
    | none => none

/-- `t` is a (prefix of a) word of L started in phase `p` -/
def accepts (p : Phase) (t : List Ev) : Bool := (runL p t).isSome

/-- a finished session leaves no transaction open -/
def complete (p : Phase) (t : List Ev) : Bool :=
  match runL p t with
  | some .txn => false
  | some _ => true
  | none => false

/-- index of the first event at which `t` leaves L -/
def rejectedAt : Phase → List Ev → Nat → Option Nat
  | _, [], _ => none
  | p, e :: t, i => match next p e with
    | some p' => rejectedAt p' t (i + 1)
    | none => some i

/-- the phases after each event (as long as the trace stays in L) -/
def phases : Phase → List Ev → List Phase
  | _, [] => []
  | p, e :: t => match next p e with
    | some p' => p' :: phases p' t
    | none => []

/-! ### (b) the transactional database -/

structure Db where
  committed : Store            -- what every other connection and every later process reads
  pending : Option Store       -- the open transaction's own view (none: autocommit mode)
  deriving Repr, DecidableEq, Inhabited

def exec (d : Db) : Ev → Db
  | ⟨.close, _⟩ => { d with pending := none }
  | ⟨_, false⟩ => d                                             -- a statement that raised has no effect
  | ⟨.connect, true⟩ => d
  | ⟨.read, true⟩ => d
  | ⟨.begin, true⟩ => match d.pending with
      | none => { d with pending := some d.committed }
      | some _ => d
  | ⟨.write ws, true⟩ => match d.pending with
      | some p => { d with pending := some (applyStmt p ws) }
      | none => { d with committed := applyStmt d.committed ws }   -- autocommit: the statement is its own transaction
  | ⟨.commit, true⟩ => match d.pending with
      | some p => { committed := p, pending := none }
      | none => d
  | ⟨.rollback, true⟩ => { d with pending := none }

def run (d : Db) (t : List Ev) : Db := t.foldl exec d

/-- what is in the file after the process died / what a new process reads (ASSUMED, see header) -/
def crash (d : Db) : Store := d.committed

/-- what the session's own connection reads -/
def ownView (d : Db) : Store := d.pending.getD d.committed

/-- the database at the start of a session: committed state `pre`, nothing open -/
def Db.init (pre : Store) : Db := { committed := pre, pending := none }

/-- `run` with the state after every event (for the driver) -/
def runAll (d : Db) : List Ev → List Db
  | [] => []
  | e :: t => exec d e :: runAll (exec d e) t

/-! ### the specification side: whole transactions -/

/-- the open transaction's write statements after event `e` (`cur` before it); reset outside a transaction -/
def curAfter (p : Phase) (cur : List (List RowWrite)) (e : Ev) : List (List RowWrite) :=
  match p, e with
  | .txn, ⟨.write ws, true⟩ => cur ++ [ws]
  | .txn, _ => cur
  | _, _ => []

/-- the write statements of every COMMITTED transaction of `t`, in order (`cur`: statements of the open one so far).
    Purely syntactic: looks at the phase and at write / COMMIT events only; stops where the trace leaves L. -/
def txns : Phase → List (List RowWrite) → List Ev → List (List (List RowWrite))
  | _, _, [] => []
  | p, cur, e :: t =>
    match next p e with
    | none => []
    | some p' =>
      if p = .txn ∧ e = ⟨.commit, true⟩ then cur :: txns p' [] t
      else txns p' (curAfter p cur e) t

/-- `pre`, `pre` + first transaction, `pre` + first two transactions, … : the only states a reader may ever see -/
def boundaries (pre : Store) : List (List (List RowWrite)) → List Store
  | [] => [pre]
  | tx :: r => pre :: boundaries (applyTx pre tx) r

/-! ### Pony's error path after a failed call (SessionCache.close(rollback=True)) -/

/-- `provider.rollback`; when that raises too: `provider.drop` = `con.close()` -/
def errorPath (rollbackOk : Bool) : List Ev :=
  if rollbackOk then [⟨.rollback, true⟩, ⟨.rollback, true⟩]      -- rollback, then Pool.release's rollback
  else [⟨.rollback, false⟩, ⟨.close, true⟩]

end PonyVerif.Model.TxnProtocol
