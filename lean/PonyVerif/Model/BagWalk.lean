/-
  C31 — hand model of the traversal of `serialization.Bag.to_dict` / `Bag._process_object` (as of /repo 791b025):

      for entity, objects in bag.objects.items():
          for obj in objects:
              bag._process_object(obj)                      # every GIVEN object: in full, always

      def _process_object(bag, obj, process_related=True):
          ...
          for attr in attrs:
              if attr.is_collection:
                  if not process_related: continue          # reduced entry: collection attributes are left out
                  if process_related_objects:
                      for related_obj in value:
                          if related_obj not in bag.dicts[related_obj.__class__]:
                              bag._process_object(related_obj, process_related=False)
              elif attr.is_relation and value is not None:
                  if process_related_objects and value not in bag.dicts[value.__class__]:
                      bag._process_object(value, process_related=False)
          bag.dicts[entity][obj] = d                          # written LAST (after the related objects)

  Objects are numbers; `rel o` lists the objects `o` refers to through its configured attributes (collection items and
  to-one values, in attribute order); `ro o` is the `related_objects` flag of `o`'s entity configuration.  An entry is
  `true` (full: all configured attributes incl. collections) or `false` (reduced: no collection attributes).
  `bag.dicts` is an association list read from the front (a later write shadows an earlier one, like a dict store).
  Core Lean only.
-/
namespace PonyVerif.Model.BagWalk

abbrev Dicts := List (Nat × Bool)

def lookup (d : Dicts) (x : Nat) : Option Bool := (d.find? (fun e => e.1 == x)).map (·.2)

def store (d : Dicts) (k : Nat) (v : Bool) : Dicts := (k, v) :: d

/-- `_process_object(r, process_related=False)` for every related object that has no entry yet -/
def addRelated (d : Dicts) (rs : List Nat) : Dicts :=
  rs.foldl (fun d r => if (lookup d r).isSome then d else store d r false) d

/-- `_process_object(obj)` (process_related=True) -/
def processObject (rel : Nat → List Nat) (ro : Nat → Bool) (d : Dicts) (obj : Nat) : Dicts :=
  store (if ro obj then addRelated d (rel obj) else d) obj true

/-- the loop of `Bag.to_dict` over the given objects (in the iteration order of `bag.objects`) -/
def bagWalk (rel : Nat → List Nat) (ro : Nat → Bool) (given : List Nat) : Dicts :=
  given.foldl (processObject rel ro) []

/-- what the output should contain, independent of any order -/
def spec (rel : Nat → List Nat) (ro : Nat → Bool) (given : List Nat) (x : Nat) : Option Bool :=
  if x ∈ given then some true
  else if given.any (fun g => ro g && (rel g).contains x) then some false
  else none

end PonyVerif.Model.BagWalk
