/-
  C05 — executable model of Pony's caches as MEMO TABLES, and of the per-session result cache.

  Part 1 (`Memo`): the protocol every cache in pony/orm follows —
        v = cache.get(key(i));  if v is not None [and the re-check accepts it]: return v
        v = compute(i);  [if cacheable(i):] cache[skey(i)] = v;  return v
    `key` is the key the entry is LOOKED UP with and `skey` the key it is STORED under (they differ in `Entity.load`
    — `attrs` is rebound before the store — and differed in `adapt_sql` before de506b3); `accept` is the re-check applied to
    a hit (`Query._get_translator`: `fixed_param_values` against the new parameter values, `func_vartypes`), on failure the
    entry is popped (`popOnReject`) or left (func_vartypes branch) and the value recomputed; `cacheable` is
    `translator.can_be_cached`.  A history also contains `clear` and `pop` (what the clear points / other threads do).

  Part 2 (`Fields`): keys that are TUPLES OF INPUT FIELDS.  An input is an environment `Field → Val`; the key is the list
    of the values of the key fields (AS CODED: the field lists are regenerated from the source into `Gen/CacheKeys.lean`);
    the computed value is an arbitrary function of the values of the fields the miss-branch READS (`deps`, read off the code).

  Part 3: the caches whose key is not a plain tuple of inputs: `Database.insert` (`(table,) + tuple(kwargs) [+ (returning,)]`:
    a concatenation), `Set.construct_sql_m2m` (`-items_count` / `batch_size`), `Entity._load_` (lookup key ≠ store key),
    the translator cache (re-check of pinned parameter values).

  Part 4 (`ResultCache`): `SessionCache.query_results` with its clear points (`SessionCache.flush`, `commit`, `rollback`/`close`,
    `Query.delete(bulk=True)`), the auto-flush in `prepare_connection_for_query_execution` (taken by `_actual_fetch` AND, since
    505d9d7, by `_aggregate` BEFORE the lookup), `flush_disabled` (hooks), and `Entity.flush` — which writes one object and
    does NOT clear `query_results` (`objFlushClears` is regenerated from the source).
  Core Lean only (linked into the driver).
-/
namespace PonyVerif.Model.Memo

/-! ## Part 1: the memo protocol -/

abbrev Table (K V : Type) := List (K × V)

def tget {K V : Type} [DecidableEq K] (k : K) : Table K V → Option V
  | [] => none
  | (k', v) :: rest => if k' = k then some v else tget k rest

def tdel {K V : Type} [DecidableEq K] (k : K) : Table K V → Table K V
  | [] => []
  | (k', v) :: rest => if k' = k then tdel k rest else (k', v) :: tdel k rest

/-- `d[k] = v` -/
def tset {K V : Type} [DecidableEq K] (k : K) (v : V) (t : Table K V) : Table K V := (k, v) :: tdel k t

structure Memo (I K V : Type) where
  /-- the key `cache.get(...)` is called with -/
  key : I → K
  /-- the key `cache[...] = v` is called with -/
  skey : I → K
  /-- the miss branch -/
  compute : I → V
  /-- re-check of a hit (`true` for the plain caches) -/
  accept : I → V → Bool
  /-- is the fresh value stored -/
  cacheable : I → Bool
  /-- a rejected hit is removed before recomputing (`_translator_cache.pop(query_key, None)`) or left in place -/
  popOnReject : I → V → Bool

inductive Op (I K : Type) where
  | call (i : I)
  | clear
  | pop (k : K)

inductive Ev where
  | hit | miss | reject | cleared | popped
  deriving DecidableEq, Repr

def store {I K V : Type} [DecidableEq K] (m : Memo I K V) (t : Table K V) (i : I) (v : V) : Table K V :=
  if m.cacheable i then tset (m.skey i) v t else t

/-- one call through the cache: new table, returned value, what happened -/
def call {I K V : Type} [DecidableEq K] (m : Memo I K V) (t : Table K V) (i : I) : Table K V × V × Ev :=
  match tget (m.key i) t with
  | some v =>
    if m.accept i v then (t, v, .hit)
    else
      let t1 := if m.popOnReject i v then tdel (m.key i) t else t
      (store m t1 i (m.compute i), m.compute i, .reject)
  | none => (store m t i (m.compute i), m.compute i, .miss)

def step {I K V : Type} [DecidableEq K] (m : Memo I K V) (t : Table K V) : Op I K → Table K V × Option V × Ev
  | .call i => let r := call m t i; (r.1, some r.2.1, r.2.2)
  | .clear => ([], none, .cleared)
  | .pop k => (tdel k t, none, .popped)

/-- the answers of a history -/
def run {I K V : Type} [DecidableEq K] (m : Memo I K V) : Table K V → List (Op I K) → List (Option V)
  | _, [] => []
  | t, op :: rest => let r := step m t op; r.2.1 :: run m r.1 rest

/-- the events of a history (driver / correspondence) -/
def trace {I K V : Type} [DecidableEq K] (m : Memo I K V) : Table K V → List (Op I K) → List Ev
  | _, [] => []
  | t, op :: rest => let r := step m t op; r.2.2 :: trace m r.1 rest

/-- what a history answers with every cache cold: each call is computed -/
def cold {I K V : Type} (m : Memo I K V) : Op I K → Option V
  | .call i => some (m.compute i)
  | _ => none

/-- ALIASING.  The value handed out by a hit is the stored object itself; a consumer that mutates it in place (a query derived
    from a cached translator without `deepcopy()`) rewrites the entry behind the cache's back.  `AOp.mutate k v` is that event. -/
inductive AOp (I K V : Type) where
  | op (o : Op I K)
  | mutate (k : K) (v : V)

def tmut {K V : Type} [DecidableEq K] (k : K) (v : V) : Table K V → Table K V
  | [] => []
  | (k', w) :: rest => if k' = k then (k', v) :: tmut k v rest else (k', w) :: tmut k v rest

def arun {I K V : Type} [DecidableEq K] (m : Memo I K V) : Table K V → List (AOp I K V) → List (Option V)
  | _, [] => []
  | t, .op o :: rest => let r := step m t o; r.2.1 :: arun m r.1 rest
  | t, .mutate k v :: rest => none :: arun m (tmut k v t) rest

def AOp.cold {I K V : Type} (m : Memo I K V) : AOp I K V → Option V
  | .op o => Memo.cold m o
  | .mutate _ _ => none

def AOp.isMutate {I K V : Type} : AOp I K V → Bool
  | .mutate _ _ => true
  | .op _ => false

/-- a plain memo: same key for lookup and store, no re-check, always stored -/
def plain {I K V : Type} (key : I → K) (compute : I → V) : Memo I K V :=
  { key := key, skey := key, compute := compute, accept := fun _ _ => true, cacheable := fun _ => true, popOnReject := fun _ _ => false }

/-! ## Part 2: keys that are tuples of input fields -/

/-- every name that occurs as a component of a cache key in pony/orm/core.py, or is read by a miss branch -/
inductive Field where
  -- Entity._construct_batchload_sql_
  | batch_size | attr | from_seeds | attrs_to_prefetch
  -- Entity._construct_sql_
  | sorted_query_attrs | order_by_pk | limit | for_update | nowait | skip_locked
  -- Entity._save_created_ / _save_updated_ / _load_
  | attrs | update_columns | optimistic_columns | optimistic_ops
  -- Query._construct_sql_and_arguments / Query.delete / translator cache / result cache
  | query_key | vartypes | fixed_param_values | offset | distinct | aggr_func_name | aggr_func_distinct | sep | inner_join_syntax | sql_command
  | code_key | left_join | filters | sql_key | arguments_key
  -- module level
  | sql | paramstyle | source_text | codeobject_id
  -- read by a miss branch; `tree_kind` (generator expression vs lambda body: `tree.__class__`) is part of the extractors key since 34cb497
  | tree_kind | scope_classification | outer_names | active_prefetch_context
  deriving DecidableEq, Repr

abbrev Val := List Int
abbrev Env := Field → Val

def keyOf (fs : List Field) (e : Env) : List Val := fs.map e

/-- the memo of a cache keyed by `fs` whose miss branch computes `F` from the fields `ds` -/
def fieldMemo {V : Type} (fs ds : List Field) (F : List Val → V) : Memo Env (List Val) V :=
  plain (keyOf fs) (fun e => F (keyOf ds e))

/-- the dependency lists, read off the miss branches (core.py).  Schema constants (`entity._table_`, `_pk_columns_`,
    converters of a column, the provider) are not inputs: each cache lives on one entity / attribute / database. -/
def batchloadDeps : List Field := [.batch_size, .attr, .from_seeds, .attrs_to_prefetch]
/-- `_construct_sql_`: WHERE / ORDER BY / LIMIT / FOR UPDATE — which rows -/
def findRowDeps : List Field := [.sorted_query_attrs, .order_by_pk, .limit, .for_update, .nowait, .skip_locked]
/-- `_construct_sql_`: the select list also reads `local.prefetch_context` (lazy columns to include) -/
def findTextDeps : List Field := findRowDeps ++ [.active_prefetch_context]
/-- `_save_created_`: `auto_pk` is a function of `attrs` (the pk attribute is skipped iff `auto_pk`) -/
def insertDeps : List Field := [.attrs]
/-- `_save_updated_`: update converters follow `update_columns`, optimistic converters follow `optimistic_columns` -/
def updateDeps : List Field := [.update_columns, .optimistic_columns, .optimistic_ops]
def deleteDeps : List Field := []
/-- `construct_sql_ast(limit, offset, distinct, aggr_func_name, aggr_func_distinct, sep, for_update, nowait, skip_locked)` on the
    translator determined by `query._key` + the pinned values + the (function) vartypes, then `ast2sql` (reads `options.INNER_JOIN_SYNTAX`);
    the select list of an entity query reads the prefetch context: `attrs_to_prefetch` when it is the query's own -/
def constructedRowDeps : List Field :=
  [.query_key, .vartypes, .fixed_param_values, .limit, .offset, .distinct, .aggr_func_name, .aggr_func_distinct, .sep, .for_update, .nowait, .skip_locked,
   .inner_join_syntax]
def constructedTextDeps : List Field := constructedRowDeps ++ [.attrs_to_prefetch, .active_prefetch_context]
def deleteSqlDeps : List Field := [.query_key, .sql_command]
def resultDeps : List Field := [.sql_key, .arguments_key]
def string2astDeps : List Field := [.source_text]
def astDeps : List Field := [.codeobject_id]
/-- `create_extractors`: `PreTranslator.postCall` evaluates the called name in the caller's globals/locals and classifies it
    (special function / const function / other); `outer_names` (lambda arguments or the namespace of the previous query) decides
    which names are external -/
def extractorsDeps : List Field := [.code_key, .tree_kind, .scope_classification, .outer_names]

/-! ## Part 3: keys with more structure -/

/-- `Database.insert`: `query_key = (table_name,) + tuple(kwargs)` and `+ (returning,)` when `returning is not None`.
    The generated SQL depends on the table, the column names and `returning`. -/
structure InsertIn where
  table : Int
  columns : List Int
  returning : Option Int
  deriving DecidableEq, Repr

/-- as coded before the repair: one flat tuple -/
def insertKeyFlat (i : InsertIn) : List Int :=
  i.table :: i.columns ++ (match i.returning with | some r => [r] | none => [])

/-- the three inputs kept apart -/
def insertKeyNested (i : InsertIn) : Int × List Int × Option Int := (i.table, i.columns, i.returning)

/-- `Set.construct_sql_m2m(batch_size=1, items_count=0)`:
    `if items_count: assert batch_size == 1; cache_key = -items_count  else: cache_key = batch_size` -/
def m2mKey (batchSize itemsCount : Int) : Int := if itemsCount ≠ 0 then -itemsCount else batchSize

/-- `Entity.load`: looked up with the tuple of attributes to load; on a miss `attrs` is rebound to
    `pk_attrs + (discriminator,)? + attrs` and the entry is stored under THAT tuple -/
structure LoadCfg where
  pk : List Int
  discr : Option Int
  deriving Repr

def loadStoreKey (c : LoadCfg) (attrs : List Int) : List Int :=
  c.pk ++ (match c.discr with | some d => [d] | none => []) ++ attrs

def loadMemo {V : Type} (c : LoadCfg) (F : List Int → V) : Memo (List Int) (List Int) V :=
  { key := id, skey := loadStoreKey c, compute := fun a => F (loadStoreKey c a), accept := fun _ _ => true,
    cacheable := fun _ => true, popOnReject := fun _ _ => false }

/-- the translator cache (`Query._get_translator`): an input is the query key plus the parameter VALUES; the translator
    computed for it pins (`fixed_param_values`) the normalised values of the parameters `pins key` (slice bounds, getattr names);
    a hit is accepted iff every pinned value equals the raw new value -/
structure TrIn where
  key : List Int
  vars : Int → Option Int
  cacheable : Bool

structure Translator where
  key : List Int
  fixed : List (Int × Option Int)
  deriving DecidableEq, Repr

def trCompute (pins : List Int → List Int) (norm : Option Int → Option Int) (i : TrIn) : Translator :=
  { key := i.key, fixed := (pins i.key).map (fun p => (p, norm (i.vars p))) }

def trAccept (i : TrIn) (t : Translator) : Bool := t.fixed.all (fun pv => decide (i.vars pv.1 = pv.2))

def trMemo (pins : List Int → List Int) (norm : Option Int → Option Int) : Memo TrIn (List Int) Translator :=
  { key := fun i => i.key, skey := fun i => i.key, compute := trCompute pins norm, accept := trAccept,
    cacheable := fun i => i.cacheable, popOnReject := fun _ _ => true }

/-- what a query built from the translator really uses: the translator with the values pinned from the query's OWN parameters -/
def trSpec (pins : List Int → List Int) (norm : Option Int → Option Int) (i : TrIn) : Translator := trCompute pins norm i

/-- the `aggr_func` component of `sql_key`.  `construct_sql_ast` reads `aggr_func_distinct` as a THREE-valued input: for COUNT over a
    single-column projection `None` means DISTINCT (`True if aggr_func_distinct is None else aggr_func_distinct`), `False` means ALL -/
structure AggrIn where
  name : Nat
  distinct : Option Bool
  sep : Option Nat
  deriving DecidableEq, Repr

/-- the DISTINCT flag of the generated `COUNT(...)` -/
def countDistinct (i : AggrIn) : Bool := match i.distinct with | none => true | some b => b

/-- as coded: `(aggr_func_name, aggr_func_distinct, sep)` -/
def aggrKey (i : AggrIn) : Nat × Option Bool × Option Nat := (i.name, i.distinct, i.sep)
/-- a key that only keeps the truthiness: `(aggr_func_name, bool(aggr_func_distinct), sep)` -/
def aggrKeyBool (i : AggrIn) : Nat × Bool × Option Nat := (i.name, i.distinct.getD false, i.sep)

/-- caches keyed by `id(code object)` (`ast_cache`, `lambda_args_cache`, and through `code_key` the extractors / translator / SQL
    caches).  `id()` is a key only while the object is alive: `pony.utils.get_codeobject_id` stores every code object it has
    numbered in the module dict `codeobjects`, which keeps it alive for the life of the process (`pin`).  The heap: objects with
    an address and a content; `drop` frees an object unless it is pinned; `alloc` places a new object at a free address
    (possibly the address of a dead one); `use` decompiles the live object at an address through the cache. -/
structure CodeObj where
  addr : Nat
  content : Nat
  deriving DecidableEq, Repr

inductive HOp where
  | alloc (o : CodeObj)
  | drop (addr : Nat)
  | use (addr : Nat)
  deriving DecidableEq, Repr

structure Heap where
  live : List CodeObj
  pinned : List Nat
  table : Table Nat Nat
  deriving Repr

def Heap.init : Heap := ⟨[], [], []⟩

def liveAt (h : Heap) (a : Nat) : Option CodeObj := h.live.find? (fun o => o.addr == a)

/-- `pin` = `get_codeobject_id` keeps the object in `codeobjects`; `warm = false`: the lookup never hits -/
def hstep (pin warm : Bool) (h : Heap) : HOp → Heap × Option Nat
  | .alloc o => match liveAt h o.addr with
      | some _ => (h, none)                      -- the address is taken
      | none => ({ h with live := o :: h.live }, none)
  | .drop a => if a ∈ h.pinned then (h, none)    -- still referenced by `codeobjects`
      else ({ h with live := h.live.filter (fun o => o.addr != a) }, none)
  | .use a => match liveAt h a with
      | none => (h, none)
      | some o =>
        let h1 := if pin then { h with pinned := a :: h.pinned } else h
        match (if warm then tget a h1.table else none) with
        | some v => (h1, some v)
        | none => ({ h1 with table := tset a o.content h1.table }, some o.content)

def hrun (pin warm : Bool) : Heap → List HOp → List (Option Nat)
  | _, [] => []
  | h, op :: rest => let r := hstep pin warm h op; r.2 :: hrun pin warm r.1 rest

/-- the two-level arrangement of `decompile` / `make_query`: the AST cache in front, the caches keyed by `id(code)` behind it.
    `byEquality = false` is the code as it is: the AST cache is keyed by the id and EVERY use pins the object (`get_codeobject_id`).
    `byEquality = true`: the AST cache is looked up by the code object itself (equal content hits) and only a MISS keeps the object
    alive (as the key of the new entry) — a second, equal but distinct code object is then used unpinned, while its `id()` still keys
    the extractors / translator / SQL / result caches. -/
structure Heap2 where
  live : List CodeObj
  pinned : List Nat
  /-- contents the AST cache has an entry for -/
  astSeen : List Nat
  /-- the caches keyed by `id(code)`: address ↦ the content the entry was computed from -/
  byId : Table Nat Nat
  deriving Repr

def Heap2.init : Heap2 := ⟨[], [], [], []⟩

def hstep2 (byEquality warm : Bool) (h : Heap2) : HOp → Heap2 × Option Nat
  | .alloc o => match h.live.find? (fun x => x.addr == o.addr) with
      | some _ => (h, none)
      | none => ({ h with live := o :: h.live }, none)
  | .drop a => if a ∈ h.pinned then (h, none) else ({ h with live := h.live.filter (fun o => o.addr != a) }, none)
  | .use a => match h.live.find? (fun x => x.addr == a) with
      | none => (h, none)
      | some o =>
        let astHit := byEquality && decide (o.content ∈ h.astSeen)
        let h1 := if astHit then h else { h with pinned := a :: h.pinned, astSeen := o.content :: h.astSeen }
        match (if warm then tget a h1.byId else none) with
        | some v => (h1, some v)
        | none => ({ h1 with byId := tset a o.content h1.byId }, some o.content)

def hrun2 (byEquality warm : Bool) : Heap2 → List HOp → List (Option Nat)
  | _, [] => []
  | h, op :: rest => let r := hstep2 byEquality warm h op; r.2 :: hrun2 byEquality warm r.1 rest

/-- a translator that bakes in the values of the parameters `pins key ++ hidden key` but RECORDS only `pins key` in
    `fixed_param_values` (a bound pinned inside a nested generator recorded on the sub-translator instead of the root) -/
def trMemoHidden (pins hidden : List Int → List Int) (norm : Option Int → Option Int) :
    Memo TrIn (List Int) (Translator × List (Int × Option Int)) :=
  { key := fun i => i.key, skey := fun i => i.key,
    compute := fun i => (trCompute pins norm i, (hidden i.key).map (fun p => (p, norm (i.vars p)))),
    accept := fun i v => trAccept i v.1, cacheable := fun i => i.cacheable, popOnReject := fun _ _ => true }

/-- `create_extractors`: an input is the code key plus what the split into external expressions really depends on — how the
    called names are classified in the caller's scope (`PreTranslator.postCall`) and the outer names; the value records what it
    was computed from.  `recheck` = the entry stores that classification and a hit is re-validated against the new scope
    (regenerated from the source: `Gen.CacheKeys.extractorsRecheck`). -/
structure ExIn where
  code : Int
  /-- `tree.__class__`: one lambda serves as a whole query (`Entity.select(f)`: a generator tree iterating over `.0`) and as a filter of
      another query (its body) -/
  kind : Int
  scope : List Int
  outer : List Int
  deriving DecidableEq, Repr

def exMemo {V : Type} (recheck : Bool) (F : ExIn → V) : Memo ExIn (Int × Int) (ExIn × V) :=
  { key := fun i => (i.code, i.kind), skey := fun i => (i.code, i.kind), compute := fun i => (i, F i),
    accept := fun i v => !recheck || (decide (v.1.scope = i.scope) && decide (v.1.outer = i.outer)),
    cacheable := fun _ => true, popOnReject := fun _ _ => false }

/-- `Query._aggregate`: the value fetched from the database (`raw`) is POST-PROCESSED before it is returned — `None ↦ 0` for SUM, then
    `converter.sql2py` (str ↦ date / datetime / time / timedelta / Decimal / UUID …).  `storeRaw = false` is the code as it is: the
    post-processed value is what goes into `cache.query_results`; `storeRaw = true` stores the fetched value before the post-processing. -/
def aggCall {I V : Type} [DecidableEq I] (storeRaw : Bool) (raw : I → V) (post : I → V → V) (t : Table I V) (i : I) : Table I V × V :=
  match tget i t with
  | some v => (t, v)
  | none => (tset i (if storeRaw then raw i else post i (raw i)) t, post i (raw i))

def aggRun {I V : Type} [DecidableEq I] (storeRaw : Bool) (raw : I → V) (post : I → V → V) : Table I V → List I → List V
  | _, [] => []
  | t, i :: rest => let r := aggCall storeRaw raw post t i; r.2 :: aggRun storeRaw raw post r.1 rest

/-! ## Part 4: the per-session result cache -/
namespace ResultCache

abbrev QKey := Nat
/-- a modification (identified by a number); the database state is the list of modifications applied, newest first -/
abbrev Change := Nat
abbrev DbState := List Change

structure Cfg where
  /-- does `Entity.flush` clear `cache.query_results` (regenerated from the source: `Gen.CacheKeys.entityFlushClearsResults`) -/
  objFlushClears : Bool
  deriving Repr

structure Sess where
  /-- what SQL sees inside this transaction -/
  db : DbState
  /-- last committed state -/
  committed : DbState
  /-- `objects_to_save`: changes made to objects, not written yet (oldest first) -/
  pending : List Change
  /-- `cache.modified` -/
  modified : Bool
  /-- `cache.noflush_counter` -/
  noflush : Nat
  /-- `cache.query_results`: the value is the result; a result is determined by the query and the database state -/
  results : List (QKey × (QKey × DbState))
  deriving Repr

def Sess.init : Sess := ⟨[], [], [], false, 0, []⟩

inductive Op where
  /-- create / set / delete on an object: `cache.modified = True` -/
  | modify (c : Change)
  /-- `Query._actual_fetch` / `Query._aggregate`; `cacheable` = `query_result_is_cacheable` and the arguments are hashable -/
  | query (k : QKey) (cacheable : Bool)
  | flush
  | commit
  | rollback
  /-- `Query.delete(bulk=True)` -/
  | bulkDelete (c : Change)
  /-- `obj.flush()` of the object carrying change `c` -/
  | objFlush (c : Change)
  /-- entering / leaving a `before_*` hook (`cache.flush_disabled()`) -/
  | enterHook
  | exitHook
  deriving DecidableEq, Repr

/-- the result of query `k` on database state `d` -/
def eval (k : QKey) (d : DbState) : QKey × DbState := (k, d)

/-- `SessionCache.flush` -/
def flush (s : Sess) : Sess :=
  if s.noflush ≠ 0 then s
  else if !s.modified then s
  else { s with db := s.pending.reverse ++ s.db, pending := [], modified := false, results := [] }

inductive Out where
  | none
  | hit (r : QKey × DbState)
  | computed (r : QKey × DbState)
  deriving DecidableEq, Repr

def Out.result : Out → Option (QKey × DbState)
  | .none => Option.none
  | .hit r => some r
  | .computed r => some r

/-- `warm = false`: the lookup never hits (every cache cleared before each step) -/
def step (cfg : Cfg) (warm : Bool) (s : Sess) : Op → Sess × Out
  | .modify c => ({ s with pending := s.pending ++ [c], modified := true }, .none)
  | .query k cacheable =>
    let s1 := flush s          -- prepare_connection_for_query_execution: `if not cache.noflush_counter and cache.modified: cache.flush()`
    match (if warm then tget k s1.results else Option.none) with
    | some r => (s1, .hit r)
    | Option.none =>
      let r := eval k s1.db
      ({ s1 with results := if cacheable then tset k r s1.results else s1.results }, .computed r)
  | .flush => (flush s, .none)
  | .commit =>
    let s1 := flush s          -- `if cache.modified: cache.flush()`
    ({ s1 with committed := s1.db, results := [] }, .none)
  | .rollback => ({ Sess.init with db := s.committed, committed := s.committed }, .none)   -- the session is closed; the next one starts empty
  | .bulkDelete c =>
    let s1 := flush s
    ({ s1 with db := c :: s1.db, results := [] }, .none)
  | .objFlush c =>
    if c ∈ s.pending then
      ({ s with db := c :: s.db, pending := s.pending.filter (· ≠ c),
                results := if cfg.objFlushClears then [] else s.results }, .none)
    else (s, .none)
  | .enterHook => ({ s with noflush := s.noflush + 1 }, .none)
  | .exitHook => ({ s with noflush := s.noflush - 1 }, .none)

def run (cfg : Cfg) (warm : Bool) : Sess → List Op → List Out
  | _, [] => []
  | s, op :: rest => let r := step cfg warm s op; r.2 :: run cfg warm r.1 rest

def Op.isObjFlush : Op → Bool
  | .objFlush _ => true
  | _ => false

end ResultCache

end PonyVerif.Model.Memo
