/-
  C35 — locked rows and serializable sessions cannot be overwritten concurrently.

  Executable model of how Pony protects a row on SQLite (there is no row lock):

    pony/orm/core.py            Query.for_update / EntityMeta.get_for_update / _find_in_db_ / Query._actual_fetch:
                                `cache.immediate = True` before the SELECT, `cache.for_update.add(obj)`;
                                SessionCache.prepare_connection_for_query_execution (opens the transaction when
                                `cache.immediate and not cache.in_transaction`); Entity._save_updated_: the optimistic
                                check `WHERE col = dbval` is built unless the session is `optimistic=False` or the object
                                is in `cache.for_update`; db_session(immediate | serializable | optimistic=False) makes the
                                session immediate from its first statement; SessionCache.commit clears `for_update`.
    pony/orm/dbproviders/sqlite.py
                                SQLiteProvider.acquire_lock (pre_transaction_lock, then transaction_lock),
                                set_transaction_mode (`BEGIN IMMEDIATE TRANSACTION` under the lock; the lock is released
                                at once when BEGIN raises), commit/rollback/drop (release the lock),
                                SQLiteBuilder.SELECT_FOR_UPDATE (drops FOR UPDATE / NOWAIT / SKIP LOCKED).
    pony/orm/sqlbuilding.py     SQLBuilder.SELECT_FOR_UPDATE (the clause text, `forUpdateClause` below).

  The two Python locks belong to ONE provider (one `Database` object).  Sessions of another `Database` object bound to
  the same file - or of another process - have their own locks: only SQLite's RESERVED lock (BEGIN IMMEDIATE fails
  with "database is locked" after the busy timeout) stands between them.  `dom s` is the lock domain of session `s`.

  A step is one operation of one session (a load, a locking load, the UPDATE of one object, commit, rollback); a
  session that cannot get a lock does not move (`blocked`) and tries again when it is scheduled next.
  One attribute per object (C20 models the per-attribute bookkeeping); ghost fields are only used to STATE the property.
  Core Lean only (linked into the driver).
-/
namespace PonyVerif.Model.RowLock

abbrev Sid := Nat
abbrev Obj := Nat
abbrev Val := Int

/-- pointwise update of a function on `Nat` -/
def upd {β : Type} (f : Nat → β) (k : Nat) (v : β) : Nat → β := fun x => if x = k then v else f x

@[simp] theorem upd_same {β : Type} (f : Nat → β) (k : Nat) (v : β) : upd f k v k = v := by simp [upd]
theorem upd_other {β : Type} (f : Nat → β) (k x : Nat) (v : β) (h : x ≠ k) : upd f k v x = f x := by simp [upd, h]

inductive Status | active | committed | failed
  deriving DecidableEq, Repr, Inhabited

/-- one session (one `db_session` in one thread) -/
structure Sess where
  /-- `db_session.immediate` (= immediate or ddl or serializable or not optimistic): a transaction from the first statement -/
  immediate : Bool
  /-- `db_session.optimistic`: UPDATEs carry the optimistic check -/
  checks : Bool
  status : Status
  /-- `cache.in_transaction` (and, on SQLite, the RESERVED lock of the database file) -/
  inTxn : Bool
  /-- `_dbvals_`: the value of the object as this session knows the database has it (`none`: not loaded) -/
  seen : Obj → Option Val
  /-- `obj in cache.for_update` -/
  forUpd : Obj → Bool
  /-- the open transaction's own writes -/
  pend : Obj → Option Val
  /-- ghost: the value read from the database UNDER THE LOCK (by a locking load, or by any load of an immediate session) -/
  stable : Obj → Option Val
  /-- ghost: the database value this session's pending write of the object was based on (what it had seen when it
      sent its first UPDATE of the object) -/
  basis : Obj → Option Val
  /-- ghost: the session has committed in its middle (`commit()` / `db.commit()` inside the `db_session`): what it knows
      of the objects in its identity map may stem from an earlier transaction -/
  renewed : Bool

def Sess.fresh (immediate checks : Bool) : Sess :=
  ⟨immediate, checks, .active, false, fun _ => none, fun _ => false, fun _ => none, fun _ => none, fun _ => none, false⟩

structure St where
  /-- the committed rows (what every connection outside a transaction reads) -/
  db : Obj → Val
  /-- `provider.transaction_lock` holder, per lock domain (per `Database` object / process) -/
  lock : Nat → Option Sid
  /-- `provider.pre_transaction_lock` holder, per lock domain: the first session waiting for `lock` -/
  pre : Nat → Option Sid
  sess : Sid → Sess
  /-- lock domain of a session (constant) -/
  dom : Sid → Nat
  /-- ghost monitor: some commit overwrote an object whose committed value was not the one the writer had seen -/
  lost : Bool
  /-- ghost monitor: a step of one session changed a committed value that another active session holds stable -/
  broken : Bool
  /-- ghost: a session WITHOUT optimistic checks (`optimistic=False`, `serializable=True`) has committed in its middle:
      from then on it may save objects from its identity map that nothing verifies (known finding) -/
  unguarded : Bool

inductive Act
  | read (o : Obj)                 -- E[o] / select without lock; served from the identity map when already loaded
  | lockRead (o : Obj)             -- E.get_for_update(...) / select(...).for_update(nowait, skip_locked): always queries
  | update (o : Obj) (v : Val)     -- obj.x = v; flush(): the UPDATE statement
  | commit                         -- leaving the db_session normally
  | commitMid                      -- commit() / db.commit() INSIDE the db_session: the transaction ends, the session goes on
  | rollback                       -- leaving it with an exception
  | refused                        -- a locking load whose BEGIN IMMEDIATE was refused ("database is locked": a foreign writer, an injected
                                   -- fault) and whose error the APPLICATION caught: set_transaction_mode has released the lock again
                                   -- and left `in_transaction` False; the session goes on and may retry
  | begin                          -- only the first half of an operation: acquire_lock + BEGIN IMMEDIATE (call-granularity runs)
  deriving Repr, DecidableEq, Inhabited

inductive Res
  | ok (v : Option Val)
  | blocked                        -- waiting for pre_transaction_lock / transaction_lock (no state change besides `pre`)
  | busy                           -- BEGIN IMMEDIATE: "database is locked" (another lock domain writes); the session fails
  | optimisticCheckError           -- the UPDATE matched no row; the session fails
  | unrepeatableRead               -- a locking load found a value different from the one read before; the session fails
  | dead                           -- the session has ended already
  deriving Repr, DecidableEq, Inhabited

/-- some session of ANY domain is inside a write transaction (SQLite's RESERVED lock is taken) -/
def writerOther (σ : St) (s : Sid) (bound : Nat) : Bool :=
  (List.range bound).any (fun t => t != s && (σ.sess t).inTxn)

/-- what session `s` reads for `o` from the database through its own connection -/
def ownView (σ : St) (s : Sid) (o : Obj) : Val := ((σ.sess s).pend o).getD (σ.db o)

def setSess (σ : St) (s : Sid) (ss : Sess) : St := { σ with sess := upd σ.sess s ss }

/-- `SessionCache.close(rollback=True)` after an error / `rollback()`: drop the transaction, release the lock -/
def failSess (σ : St) (s : Sid) : St :=
  let ss := σ.sess s
  let d := σ.dom s
  { σ with
    sess := upd σ.sess s { ss with status := .failed, inTxn := false, pend := fun _ => none, forUpd := fun _ => false,
                                   stable := fun _ => none, basis := fun _ => none },
    lock := if ss.inTxn then upd σ.lock d none else σ.lock }

inductive Begin
  | ok (σ : St)            -- in a transaction now (or already)
  | blocked (σ : St)
  | busy (σ : St)

/-- `prepare_connection_for_query_execution` with `cache.immediate`: `set_transaction_mode` =
    `acquire_lock` (pre_transaction_lock; transaction_lock; release pre) + `BEGIN IMMEDIATE TRANSACTION`.
    `n` bounds the session ids in use. -/
def ensureTxn (n : Nat) (σ : St) (s : Sid) : Begin :=
  let ss := σ.sess s
  let d := σ.dom s
  if ss.inTxn then .ok σ else
  match σ.pre d with
  | some t => if t = s then
      -- this session holds pre_transaction_lock and waits for transaction_lock
      (match σ.lock d with
       | some _ => .blocked σ
       | none =>
          let σ1 := { σ with pre := upd σ.pre d none }
          if writerOther σ s n then .busy (failSess σ1 s)
          else .ok (setSess { σ1 with lock := upd σ1.lock d (some s) } s { ss with inTxn := true }))
    else .blocked σ
  | none =>
      match σ.lock d with
      | some _ => .blocked { σ with pre := upd σ.pre d (some s) }
      | none =>
          if writerOther σ s n then .busy (failSess σ s)
          else .ok (setSess { σ with lock := upd σ.lock d (some s) } s { ss with inTxn := true })

/-- `SessionCache.commit`: COMMIT when a transaction is open (the lock is released, `cache.for_update.clear()`), then
    `cache.immediate = True`.  `final`: the `db_session` ends here; otherwise (`commit()` in the middle) the session goes
    on, immediate from now on, with its identity map (`seen`) intact. -/
def commitSess (n : Nat) (σ : St) (s : Sid) (final : Bool) : St :=
  let ss := σ.sess s
  let st : Status := if final then .committed else .active
  let ung : Bool := σ.unguarded || (!final && !ss.checks)
  if ss.inTxn then
    let d := σ.dom s
    let newdb : Obj → Val := fun o => (ss.pend o).getD (σ.db o)
    -- ghost monitors, evaluated on the state just before the commit
    let lostNow : Bool := (List.range n).any (fun o => (ss.pend o).isSome && (ss.basis o).isSome && ss.basis o != some (σ.db o))
    let brokenNow : Bool := (List.range n).any (fun t => t != s && (σ.sess t).status == .active &&
      (List.range n).any (fun o => ((σ.sess t).stable o).isSome && (σ.sess t).stable o != some (newdb o)))
    { σ with db := newdb, lock := upd σ.lock d none, lost := σ.lost || lostNow, broken := σ.broken || brokenNow,
             unguarded := ung,
             sess := upd σ.sess s { ss with status := st, inTxn := false, immediate := ss.immediate || !final,
                                            pend := fun _ => none, forUpd := fun _ => false, stable := fun _ => none,
                                            basis := fun _ => none, renewed := ss.renewed || !final } }
  else
    { σ with unguarded := ung,
             sess := upd σ.sess s { ss with status := st, immediate := ss.immediate || !final, stable := fun _ => none,
                                            renewed := ss.renewed || !final } }

/-- one operation of session `s` -/
def step (n : Nat) (σ : St) (s : Sid) (a : Act) : St × Res :=
  let ss := σ.sess s
  if ss.status ≠ .active then (σ, .dead) else
  match a with
  | .read o =>
      match ss.seen o with
      | some v => (σ, .ok (some ((ss.pend o).getD v)))            -- identity map: no query (own write, else what was loaded)
      | none =>
        if ss.immediate then
          match ensureTxn n σ s with
          | .blocked σ' => (σ', .blocked)
          | .busy σ' => (σ', .busy)
          | .ok σ' =>
            let ss' := σ'.sess s
            let v := ownView σ' s o
            (setSess σ' s { ss' with seen := upd ss'.seen o (some v), stable := upd ss'.stable o (some v) }, .ok (some v))
        else
          let v := ownView σ s o
          (setSess σ s { ss with seen := upd ss.seen o (some v),
                                 stable := if ss.inTxn then upd ss.stable o (some v) else ss.stable }, .ok (some v))
  | .lockRead o =>
      match ensureTxn n σ s with
      | .blocked σ' => (σ', .blocked)
      | .busy σ' => (σ', .busy)
      | .ok σ' =>
        let ss' := σ'.sess s
        let v := ownView σ' s o
        match ss'.seen o with
        | some r =>
          if (ss'.pend o).isNone && r ≠ v then (failSess σ' s, .unrepeatableRead)      -- Entity._db_set_
          else (setSess σ' s { ss' with forUpd := upd ss'.forUpd o true,
                                        stable := if (ss'.pend o).isNone then upd ss'.stable o (some v) else ss'.stable },
                .ok (some v))
        | none =>
          (setSess σ' s { ss' with seen := upd ss'.seen o (some v), forUpd := upd ss'.forUpd o true,
                                   stable := upd ss'.stable o (some v) }, .ok (some v))
  | .update o v =>
      match ss.seen o with
      | none => (σ, .ok none)                                     -- not loaded: nothing to save (programs load first)
      | some r =>
        match ensureTxn n σ s with
        | .blocked σ' => (σ', .blocked)
        | .busy σ' => (σ', .busy)
        | .ok σ' =>
          let ss' := σ'.sess s
          -- UPDATE t SET x = v WHERE id = o [AND x = r]
          if ss'.checks && !ss'.forUpd o && ownView σ' s o ≠ r then (failSess σ' s, .optimisticCheckError)
          else
            (setSess σ' s { ss' with pend := upd ss'.pend o (some v), seen := upd ss'.seen o (some v),
                                     basis := if (ss'.pend o).isNone then upd ss'.basis o (some r) else ss'.basis },
             .ok none)
  | .commit => (commitSess n σ s true, .ok none)
  | .commitMid => (commitSess n σ s false, .ok none)
  | .rollback => (failSess σ s, .ok none)
  | .refused => (σ, .busy)
  | .begin =>
      match ensureTxn n σ s with
      | .blocked σ' => (σ', .blocked)
      | .busy σ' => (σ', .busy)
      | .ok σ' => (σ', .ok none)

def run (n : Nat) (σ : St) : List (Sid × Act) → St
  | [] => σ
  | (s, a) :: t => run n (step n σ s a).1 t

/-- `run` with the result of every step (for the driver) -/
def runAll (n : Nat) (σ : St) : List (Sid × Act) → List Res × St
  | [] => ([], σ)
  | (s, a) :: t =>
    let (σ', r) := step n σ s a
    let (rs, σ'') := runAll n σ' t
    (r :: rs, σ'')

/-- the start: nobody holds a lock, every session is fresh -/
def St.init (db : Obj → Val) (cfg : Sid → Bool × Bool) (dom : Sid → Nat) : St :=
  { db := db, lock := fun _ => none, pre := fun _ => none,
    sess := fun s => Sess.fresh (cfg s).1 (cfg s).2, dom := dom, lost := false, broken := false, unguarded := false }

/-! ### the source statements this model mirrors (looked up in the current source by harness/gen_rowlock.py on every run) -/

structure Src where
  /-- `SessionCache.commit`: `cache.for_update.clear()` in its try body            (commitSess: `forUpd := fun _ => false`) -/
  commitClearsForUpdate : Bool
  /-- `SessionCache.commit`: `cache.immediate = True`                              (commitSess: `immediate := ss.immediate || !final`) -/
  commitSetsImmediate : Bool
  /-- `EntityMeta._find_in_db_`: `if for_update: cache.immediate = True` before `_exec_sql`   (lockRead: `ensureTxn` first) -/
  findInDbLocksFirst : Bool
  /-- `Query._actual_fetch`: `if query._for_update: cache.immediate = True` before the connection is prepared (lockRead) -/
  fetchLocksFirst : Bool
  /-- `Entity._save_updated_`: `optimistic_session = db_session is None or db_session.optimistic`;
      `if optimistic_session and obj not in cache.for_update:` builds the optimistic WHERE  (update: `checks && !forUpd o`) -/
  checkUnlessLockedOrNoCheckSession : Bool
  /-- `DBSessionContextManager.__init__`: `immediate = immediate or ddl or serializable or not optimistic`,
      `optimistic = optimistic and not serializable`                               (the `cfg` of a session; `WellFormed`) -/
  sessionFlags : Bool
  /-- `_get_from_identity_map_`: `if for_update: assert cache.in_transaction; cache.for_update.add(obj)`  (lockRead: `forUpd`) -/
  identityMapMarksLocked : Bool
  /-- `_find_in_cache_`: `if for_update and obj not in cache.for_update: return None, unique`   (lockRead always queries) -/
  cacheHitNeedsLock : Bool
  /-- sqlite `set_transaction_mode`: `if cache.immediate: provider.acquire_lock()` before any cursor use, the literal
      `BEGIN IMMEDIATE TRANSACTION` executed BEFORE `cache.in_transaction = True`,
      `finally: if cache.immediate and not cache.in_transaction: release_lock()` (ensureTxn; `refused`) -/
  lockBeforeBegin : Bool
  /-- sqlite `commit` / `rollback` / `drop`: `finally: if in_transaction: cache.in_transaction = False; release_lock()` -/
  endReleasesLock : Bool
  /-- `acquire_lock`: pre_transaction_lock, then transaction_lock, then release pre (ensureTxn's `pre`) -/
  acquireOrder : Bool
  /-- `SQLiteBuilder.SELECT_FOR_UPDATE` returns the plain SELECT (forUpdateClause .sqlite = "") -/
  sqliteDropsClause : Bool
  /-- `SQLBuilder.SELECT_FOR_UPDATE`: 'FOR UPDATE', ' NOWAIT', ' SKIP LOCKED' (forUpdateClause) -/
  clauseText : Bool
  deriving DecidableEq, Repr

def Src.expected : Src := ⟨true, true, true, true, true, true, true, true, true, true, true, true, true⟩

/-! ### the FOR UPDATE clause (SQLBuilder.SELECT_FOR_UPDATE; OraBuilder without ROWNUM; SQLiteBuilder drops it) -/

inductive Dialect | sqlite | postgres | mysql | oracle
  deriving DecidableEq, Repr

def forUpdateClause (d : Dialect) (nowait skipLocked : Bool) : String :=
  match d with
  | .sqlite => ""
  | _ => "FOR UPDATE" ++ (if nowait then " NOWAIT" else "") ++ (if skipLocked then " SKIP LOCKED" else "")

end PonyVerif.Model.RowLock
