/-
  C04 — model of the namespaces a query's external expressions are evaluated in:
  `pony/orm/core.py: get_globals_and_locals` (which globals / locals dictionary `eval` receives) followed by the closure-cell
  override in `extract_vars`, and `eval(code, globals, locals)` for one name.  Core Lean only.
  Dictionaries are association lists in which the FIRST binding of a name counts; `dict.update(b)` puts `b` in front.
-/
namespace PonyVerif.Model.Scope

abbrev Env := List (String × Int)

/-- `a.update(b)`: the bindings of `b` win -/
def upd (a b : Env) : Env := b ++ a
/-- `for name in names: a.pop(name, None)` -/
def popAll (a : Env) (names : List String) : Env := a.filter (fun kv => !names.contains kv.1)

inductive QKind | generator | function | text
  deriving DecidableEq, Repr

structure Scopes where
  callerLocals : Env      -- f_locals of the frame that calls select() / Entity.select() / .filter() …
  callerGlobals : Env     -- its f_globals
  ownLocals : Env         -- generator: gi_frame.f_locals (its free variables and `.0`); otherwise empty
  ownGlobals : Env        -- generator: gi_frame.f_globals; function: func.__globals__
  cells : Env             -- function: its closure cells (`decompile`); otherwise empty
  globalNames : List String   -- names the code object loads with LOAD_GLOBAL / LOAD_NAME (`global_names`)
  explicitGlobals : Option Env   -- select(q, globals …)
  explicitLocals : Option Env    -- select(q, globals, locals)

/-- (globals, locals) handed to `eval`: `get_globals_and_locals`, then `extract_vars`' `locals[name] = cell.cell_contents` -/
def namespaces (k : QKind) (s : Scopes) : Env × Env :=
  let gl : Env × Env :=
    match s.explicitGlobals with
    | some g =>
      let l := s.explicitLocals.getD []
      (g, if k = .generator then upd l s.ownLocals else l)
    | none =>
      match k with
      | .generator => (s.ownGlobals, upd (popAll s.callerLocals s.globalNames) s.ownLocals)
      | .function => (s.ownGlobals, popAll s.callerLocals s.globalNames)
      | .text => (s.callerGlobals, s.callerLocals)
  (gl.1, upd gl.2 s.cells)

/-- `eval(compile(name), globals, locals)`: locals first, then globals (builtins are left out); `none` = NameError -/
def resolve (k : QKind) (s : Scopes) (n : String) : Option Int :=
  let gl := namespaces k s
  (gl.2.lookup n).orElse (fun _ => gl.1.lookup n)

end PonyVerif.Model.Scope
