/-
  C16 - the order in which `Entity._delete_` queues the objects it deletes.

  `Model/Cascade.lean` (property C15, imported read-only) mirrors `Entity._delete_` on the relationship part of the
  session but leaves `objects_to_save` out.  Here the same procedure is instrumented with the one thing C16 needs: the
  order in which the final block of `_delete_` runs (`objects_to_save.append(obj); obj._status_ = 'marked_to_delete'`,
  or `'cancelled'` for a created object) - the "death order".  By `C16_deletes_in_queue_order` (Props/C16.lean) the flush
  emits the DELETE statements of the loaded objects in exactly this order.

    deleteQ          = Cascade.delete + the order          (`deleteQ_erase`: forgetting the order gives Cascade.delete)
    collStepQ/refStepQ = Cascade.collStep / refStep with a recursive call that carries the order
  `execDeletes` runs the DELETE statements, one per object in death order, against the committed image of the session
  under the ON DELETE clauses Pony's DDL declares (`Cascade.dbDelete`), or against the same schema with every ON DELETE
  clause removed (`strictDelete`).
  Core Lean only (linked into the driver).
-/
import PonyVerif.Model.Cascade
namespace PonyVerif.Model.DeleteQueue
open PonyVerif.Model.Cascade

structure Q where
  store : Store
  order : List ObjId        -- objects in the order their final status block ran, oldest first

abbrev RQ := Except Err Q

def iterQ {α : Type} (f : α → Q → RQ) : List α → Q → RQ
  | [], q => .ok q
  | x :: xs, q =>
    match f x q with
    | .ok q' => iterQ f xs q'
    | .error e => .error e

/-- lift a store-only step (it queues no deletion) -/
def liftS (r : R) (q : Q) : RQ :=
  match r with
  | .ok s => .ok { q with store := s }
  | .error e => .error e

/-- `Cascade.collStep` with the order threaded through the recursive `_delete_` -/
def collStepQ (sch : Schema) (del : ObjId → Q → RQ) (o : ObjId) (c : Attr) (q : Q) : RQ :=
  match sch.side c, sch.side (sch.rev c) with
  | some d, some rd =>
    if !d.isColl then .ok q
    else if !q.store.alive o then .error .objectDeleted
    else if (q.store.members o c).isEmpty then .ok q
    else if d.cascade then iterQ del (q.store.members o c) q                  -- for robj in set_wrapper: robj._delete_(undo_funcs)
    else if !rd.required then liftS (setCollEmpty sch o c q.store) q
    else .error .constraintError
  | _, _ => .error .noSuchAttr

/-- `Cascade.refStep` with the order threaded through the recursive `_delete_` -/
def refStepQ (sch : Schema) (guard : Bool) (del : ObjId → Q → RQ) (o : ObjId) (a : Attr) (q : Q) : RQ :=
  match sch.side a, sch.side (sch.rev a) with
  | some d, some rd =>
    if d.isColl then .ok q else
    match q.store.ref o a with
    | none => .ok q
    | some x =>
      if !rd.isColl then
        if d.cascade then del x q                                             -- val._delete_(undo_funcs)
        else if !rd.required then
          if guard && !q.store.alive x then .ok q
          else if q.store.ref x (sch.rev a) = some o then liftS (clearRef sch x (sch.rev a) q.store) q
          else .ok q
        else .error .constraintError
      else liftS (reverseRemove1 (sch.rev a) x o q.store) q
  | _, _ => .error .noSuchAttr

/-- `Entity._delete_(obj=o, undo_funcs)` with the death order -/
def deleteQ (sch : Schema) (ct : ClassTable) (guard : Bool) : Nat → List ObjId → ObjId → Q → RQ
  | 0, _, _, _ => .error .recursionError
  | fuel + 1, P, o, q =>
    if guard && P.contains o then .ok q else
    if !q.store.alive o then .ok q else                                      -- status in del_statuses: return
    let attrs := ct (q.store.ent o)
    match iterQ (collStepQ sch (fun x q => deleteQ sch ct guard fuel (o :: P) x q) o) attrs q with
    | .error e => .error e
    | .ok q1 =>
      match iterQ (refStepQ sch guard (fun x q => deleteQ sch ct guard fuel (o :: P) x q) o) attrs q1 with
      | .error e => .error e
      | .ok q2 =>
        if !q2.store.alive o then .ok q2                                     -- a nested _delete_ of this object already finished
        else .ok { store := q2.store.setAlive o false, order := q2.order ++ [o] }   -- the final block: the object is queued

/-- `obj.delete()` for each object of `dels` in turn (a refused delete changes nothing); the death order of the session -/
def deleteAllQ (sch : Schema) (ct : ClassTable) (guard : Bool) : List ObjId → Q → Q × List (Option Err)
  | [], q => (q, [])
  | o :: os, q =>
    if o < q.store.n then
      match deleteQ sch ct guard (fuelOf sch q.store) [] o q with
      | .ok q' => let r := deleteAllQ sch ct guard os q'; (r.1, none :: r.2)
      | .error e => let r := deleteAllQ sch ct guard os q; (r.1, some e :: r.2)
    else let r := deleteAllQ sch ct guard os q; (r.1, some .noSuchObject :: r.2)

/-! ### the DELETE statements against the committed rows -/

/-- one `DELETE FROM t WHERE pk = x` per object, in the given order, under the ON DELETE clauses of Pony's DDL;
    `none` = a statement is refused -/
def execDeletes (sch : Schema) : Db → List ObjId → Option Db
  | db, [] => some db
  | db, x :: xs =>
    match dbDelete sch db [x] with
    | some db' => execDeletes sch db' xs
    | none => none

/-- the same DELETE on a schema WITHOUT any ON DELETE clause (plain immediate foreign keys): refused while another row
    still points to the row -/
def strictDelete (sch : Schema) (db : Db) (x : ObjId) : Option Db :=
  if !db.row x then some db
  else if (List.range db.n).any (fun c => db.row c && c != x && sch.allAttrs.any fun a => db.col c a == some x) then none
  else some { db with row := fun o => db.row o && o != x,
                      col := fun o a => if o = x then none else db.col o a,
                      link := fun c p q => db.link c p q && p != x && q != x }

def execDeletesStrict (sch : Schema) : Db → List ObjId → Option Db
  | db, [] => some db
  | db, x :: xs =>
    match strictDelete sch db x with
    | some db' => execDeletesStrict sch db' xs
    | none => none

end PonyVerif.Model.DeleteQueue
