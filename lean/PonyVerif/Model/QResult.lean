/-
  The list-like `QueryResult` object of pony/orm/core.py as a state machine (hand-written; tied to real Pony by
  harness/engines/c24.py `qresult_tie`, and to the source by `Gen.QueryShape.shape.resultFetchesWindow`).

  A result is created LAZY by `Query.limit` / `Query.page` (`_items is None`) or EAGER by `Query.__getitem__` /
  `fetch`; every list-like method first materialises it with `_actual_fetch(self._limit, self._offset)` and then
  delegates to the Python list `_items`.  `reverse()` changes that list in place, so the state matters.
  Core Lean only.
-/
import PonyVerif.Model.Limit
namespace PonyVerif.Model.QResult
open PonyVerif.Model.Limit

structure QRes (α : Type) where
  limit : Option Nat
  offset : Option Nat
  items : Option (List α)
  deriving Repr

/-- the list-like operations of `QueryResult` (non-negative indices and bounds) -/
inductive Op (α : Type) where
  | len                                  -- len(r)
  | get (i : Nat)                        -- r[i]            (IndexError when out of range)
  | slice (a b : Option Nat)             -- r[a:b]
  | mem (x : α)                          -- x in r
  | index (x : α)                        -- r.index(x)      (ValueError when absent)
  | iter                                 -- list(r)
  | rev                                  -- list(reversed(r))
  | eqList (ys : List α)                 -- r == ys
  | reverse                              -- r.reverse()     (in place)
  deriving Repr

inductive Out (α : Type) where
  | nat (n : Nat)
  | item (x : α)
  | items (xs : List α)
  | bool (b : Bool)
  | error (kind : String)
  | unit
  deriving Repr, DecidableEq

/-- the Python list operation: new list and what is returned -/
def listOp [DecidableEq α] (xs : List α) : Op α → List α × Out α
  | .len => (xs, .nat xs.length)
  | .get i => (xs, match xs[i]? with | some x => .item x | none => .error "IndexError")
  | .slice a b => (xs, .items (pySlice xs a b))
  | .mem x => (xs, .bool (xs.contains x))
  | .index x => (xs, match xs.idxOf? x with | some i => .nat i | none => .error "ValueError")
  | .iter => (xs, .items xs)
  | .rev => (xs, .items xs.reverse)
  | .eqList ys => (xs, .bool (xs == ys))
  | .reverse => (xs.reverse, .unit)

/-- `QueryResult._get_items`: fetch the window of the full ordered result `R` on first use -/
def force (R : List α) (r : QRes α) : List α :=
  match r.items with
  | some xs => xs
  | none => window (r.limit, r.offset) R

/-- one method call on the result object -/
def step [DecidableEq α] (R : List α) (r : QRes α) (op : Op α) : QRes α × Out α :=
  let (xs', out) := listOp (force R r) op
  ({ r with items := some xs' }, out)

def run [DecidableEq α] (R : List α) : QRes α → List (Op α) → List (Out α)
  | _, [] => []
  | r, op :: ops => let (r', out) := step R r op; out :: run R r' ops

/-- the specification: the same calls on a plain Python list -/
def runList [DecidableEq α] : List α → List (Op α) → List (Out α)
  | _, [] => []
  | xs, op :: ops => let (xs', out) := listOp xs op; out :: runList xs' ops

/-- `Query.limit(l, offset=o)` / `Query.page`: a lazy result -/
def lazy (l o : Option Nat) : QRes α := { limit := l, offset := o, items := none }
/-- `Query.__getitem__` / `fetch`: fetched at once -/
def eager (R : List α) (l o : Option Nat) : QRes α := { limit := l, offset := o, items := some (window (l, o) R) }

/-- the slip of seeded change c31-4 (`_actual_fetch(self._limit)`): the offset is forgotten when a lazy result is forced -/
def forceNoOffset (R : List α) (r : QRes α) : List α :=
  match r.items with
  | some xs => xs
  | none => window (r.limit, none) R

end PonyVerif.Model.QResult
