/-
  C06 — values reach the database unchanged: parameters, literals, identifiers.

  Executable model (core Lean only; strings are `List Char`):
    * Pony side (mirrors of the code in /repo):
        `quoteStrL`        Value.quote_str                         (sqlbuilding.py)   — also translated: Gen.quoteStr
        `quoteNameL`       DBAPIProvider.quote_name, str branch    (dbapiprovider.py)
        `valueStr`         Value.__str__ / PGValue.__str__ for None, bool, int, str, bytes
        `modSymbol`        SQLBuilder.MOD
        `likeAst`          StringMixin._like                       (sqltranslation.py) constant path and expression path
        `assignIds`, `placeholders`, `adapter`   SQLBuilder.__init__ numbering / adapter, Param.__str__
    * Database side (the lexical rules the property speaks about):
        `lexQuoted`        a quoted token with quote doubling: standard SQL string literal (') , identifiers (" and `)
        `lexMySQL`         MySQL string literal in the default sql_mode (backslash escapes)
        `scanP`            DB-API `sql % args` expansion for the format / pyformat styles (`%%`, `%s`, `%(name)s`)
        `likeMatch`        SQL `s LIKE pattern ESCAPE c`
        `sqlReplace`       SQL replace() = Python str.replace for a non-empty pattern
        `resolve`          which argument a driver binds to a placeholder (PEP 249)
-/
namespace PonyVerif.Model.SqlText

abbrev Str := List Char

/-! ## Python / SQL string primitives -/

/-- `s.replace(c, r)` for a one-character pattern (single left-to-right pass). -/
def replaceChar (c : Char) (r : Str) : Str → Str
  | [] => []
  | d :: s => if d = c then r ++ replaceChar c r s else d :: replaceChar c r s

/-- SQL `replace(s, old, new)` and Python `s.replace(old, new)` for a non-empty `old`: leftmost, non-overlapping.
    (SQLite returns `s` for an empty `old`; Python's behaviour for an empty `old` is outside this model.) -/
def sqlReplace (old new : Str) (s : Str) : Str :=
  match s with
  | [] => []
  | d :: t =>
    if _h : old ≠ [] ∧ old.isPrefixOf (d :: t) = true then
      new ++ sqlReplace old new ((d :: t).drop old.length)
    else d :: sqlReplace old new t
termination_by s.length
decreasing_by
  · have : old.length > 0 := by cases old <;> simp_all
    simp only [List.length_drop, List.length_cons]; omega
  · simp

/-- Python `x in s` for strings. -/
def containsB (x : Str) : Str → Bool
  | [] => x.isPrefixOf []
  | c :: s => x.isPrefixOf (c :: s) || containsB x s

/-- Python `s.endswith(x)`. -/
def endsWithB (x : Str) : Str → Bool
  | [] => x == []
  | c :: s => x == c :: s || endsWithB x s

/-! ## Pony: rendering of literals and identifiers -/

inductive Style | qmark | format | numeric | named | pyformat
  deriving DecidableEq, Repr, Inhabited

def Style.ofString? : String → Option Style
  | "qmark" => some .qmark | "format" => some .format | "numeric" => some .numeric
  | "named" => some .named | "pyformat" => some .pyformat | _ => none

/-- `self.paramstyle in ('format', 'pyformat')` -/
def Style.percent : Style → Bool
  | .format => true | .pyformat => true | _ => false

/-- standard quoting: `"'%s'" % s.replace("'", "''")` -/
def stdQuote (s : Str) : Str := '\'' :: (replaceChar '\'' ['\'', '\''] s ++ ['\''])

/-- `Value.quote_str`:
      if self.paramstyle in ('format', 'pyformat'): s = s.replace('%', '%%')
      return "'%s'" % s.replace("'", "''")                                            -/
def quoteStrL (style : Style) (s : Str) : Str :=
  let s := if style.percent then replaceChar '%' ['%', '%'] s else s
  stdQuote s

/-- `DBAPIProvider.quote_name` for `isinstance(name, str)`:
      name = name.replace(quote_char, quote_char+quote_char); return quote_char + name + quote_char   -/
def quoteNameL (q : Char) (n : Str) : Str := q :: (replaceChar q [q, q] n ++ [q])

/-- the composite branch: `'.'.join(provider.quote_name(item) for item in name)` -/
def quoteNamesL (q : Char) : List Str → Str
  | [] => []
  | [n] => quoteNameL q n
  | n :: ns => quoteNameL q n ++ '.' :: quoteNamesL q ns

inductive Dialect | sqlite | postgres | mysql | oracle
  deriving DecidableEq, Repr, Inhabited

def Dialect.ofString? : String → Option Dialect
  | "sqlite" => some .sqlite | "postgres" => some .postgres | "mysql" => some .mysql | "oracle" => some .oracle | _ => none

/-! ## decimal numbers -/

def digitChar (n : Nat) : Char := Char.ofNat (48 + n)
def isDig (c : Char) : Bool := decide (48 ≤ c.toNat) && decide (c.toNat ≤ 57)
def digitVal (c : Char) : Nat := c.toNat - 48

/-- Python `str(n)` / `'%d' % n` for a natural number -/
def natDigits (n : Nat) : Str :=
  if _h : n < 10 then [digitChar n] else natDigits (n / 10) ++ [digitChar (n % 10)]
termination_by n
decreasing_by omega

/-- Python `str(i)` for an int -/
def intStr (i : Int) : Str := if i < 0 then '-' :: natDigits i.natAbs else natDigits i.natAbs

/-- value of a digit string -/
def digitsVal (ds : Str) : Nat := ds.foldl (fun a c => a * 10 + digitVal c) 0

/-- the maximal run of digits at the start of the input, and the rest -/
def spanDigits : Str → Str × Str
  | [] => ([], [])
  | c :: r => if isDig c then let p := spanDigits r; (c :: p.1, p.2) else ([], c :: r)

/-- a numeric literal as every SQL dialect here reads it: optional `-`, then a maximal run of digits -/
def lexNat (s : Str) : Option (Nat × Str) :=
  let p := spanDigits s
  if p.1.isEmpty then none else some (digitsVal p.1, p.2)

def lexInt : Str → Option (Int × Str)
  | [] => none
  | c :: r =>
    if c = '-' then (lexNat r).map (fun (p : Nat × Str) => (-(p.1 : Int), p.2))
    else (lexNat (c :: r)).map (fun (p : Nat × Str) => ((p.1 : Int), p.2))

/-- `'%0<k>d' % n`: zero padded to at least `k` digits -/
def pad (k n : Nat) : Str := List.replicate (k - (natDigits n).length) '0' ++ natDigits n

/-- the numbers in a text: values of its maximal digit runs, in order (how ISO dates/times are read back) -/
def fields : Option Nat → Str → List Nat
  | cur, [] => cur.toList
  | cur, c :: r =>
    if isDig c then fields (some (cur.getD 0 * 10 + digitVal c)) r
    else cur.toList ++ fields none r

/-! ## dates, times, intervals (`Value.__str__`, `SQLiteValue`, `MySQLValue`, `datetime2timestamp`, `timedelta2str`) -/

structure PDate where (y m d : Nat) deriving Repr, DecidableEq, Inhabited
structure PTime where (h mi s us : Nat) deriving Repr, DecidableEq, Inhabited
/-- a normalised Python timedelta: `0 ≤ secs < 86400`, `0 ≤ us < 10^6`, any sign of `days` -/
structure PDelta where (days : Int) (secs us : Nat) deriving Repr, DecidableEq, Inhabited

/-- `str(date)` = `date.isoformat()` -/
def dateStr (x : PDate) : Str := pad 4 x.y ++ '-' :: pad 2 x.m ++ '-' :: pad 2 x.d
def hmsStr (t : PTime) : Str := pad 2 t.h ++ ':' :: pad 2 t.mi ++ ':' :: pad 2 t.s
/-- `time.isoformat()`: microseconds only when non-zero -/
def isoTime (t : PTime) : Str := if t.us = 0 then hmsStr t else hmsStr t ++ '.' :: pad 6 t.us
/-- `datetime2timestamp(d)`: `isoformat(' ')`, always with six fractional digits -/
def timestampStr (x : PDate) (t : PTime) : Str := dateStr x ++ ' ' :: hmsStr t ++ '.' :: pad 6 t.us

/-- `'%d:%d:%d' % (hours, minutes, seconds)` (+ `'.%06d' % microseconds` when non-zero) after the two `divmod`s -/
def hmsBody (total us : Nat) : Str :=
  let body := natDigits (total / 60 / 60) ++ ':' :: natDigits (total / 60 % 60) ++ ':' :: natDigits (total % 60)
  if us ≠ 0 then body ++ '.' :: pad 6 us else body

/-- `pony.converting.timedelta2str` -/
def timedelta2str (td : PDelta) : Str :=
  let total0 : Int := td.days * 86400 + td.secs
  if td.days < 0 then
    if td.us ≠ 0 then '-' :: hmsBody (total0.natAbs - 1) (1000000 - td.us)
    else '-' :: hmsBody total0.natAbs 0
  else hmsBody total0.natAbs td.us

inductive TVal
  | date (x : PDate)
  | datetime (x : PDate) (t : PTime)
  | time (t : PTime)
  | delta (td : PDelta)
  deriving Repr, Inhabited

def kwDate : Str := ['D', 'A', 'T', 'E', ' ']
def kwTime : Str := ['T', 'I', 'M', 'E', ' ']
def kwTimestamp : Str := ['T', 'I', 'M', 'E', 'S', 'T', 'A', 'M', 'P', ' ']
def kwInterval : Str := ['I', 'N', 'T', 'E', 'R', 'V', 'A', 'L', ' ']
def unitStd : Str := [' ', 'H', 'O', 'U', 'R', ' ', 'T', 'O', ' ', 'S', 'E', 'C', 'O', 'N', 'D']
def unitMyS : Str := [' ', 'H', 'O', 'U', 'R', '_', 'S', 'E', 'C', 'O', 'N', 'D']
def unitMyUs : Str := [' ', 'H', 'O', 'U', 'R', '_', 'M', 'I', 'C', 'R', 'O', 'S', 'E', 'C', 'O', 'N', 'D']

/-- the type keyword a dialect's Value class writes in front of the quoted text (SQLite stores these kinds as text: none) -/
def temporalKw (d : Dialect) : TVal → Str
  | .date _ => if d = .sqlite then [] else kwDate
  | .datetime _ _ => if d = .sqlite then [] else kwTimestamp
  | .time _ => if d = .sqlite then [] else kwTime
  | .delta _ => kwInterval

/-- the text inside the quotes -/
def temporalText : TVal → Str
  | .date x => dateStr x
  | .datetime x t => timestampStr x t
  | .time t => isoTime t
  | .delta td => timedelta2str td

/-- `Value.__str__` / `SQLiteValue.__str__` / `MySQLValue.__str__` for dates, times, intervals.
    `none`: SQLite renders a timedelta as `repr` of a float number of days (not modelled; tied by the query oracle). -/
def temporalStr (d : Dialect) (style : Style) : TVal → Option Str
  | .delta td =>
    match d with
    | .sqlite => none
    | .mysql => some (kwInterval ++ '\'' :: timedelta2str td ++ '\'' :: (if td.us ≠ 0 then unitMyUs else unitMyS))
    | _ => some (kwInterval ++ '\'' :: timedelta2str td ++ '\'' :: unitStd)
  | v => some (temporalKw d v ++ quoteStrL style (temporalText v))

/-- reading an ISO date / time / timestamp back -/
def parseDate (t : Str) : Option PDate :=
  match fields none t with
  | [y, m, d] => some ⟨y, m, d⟩
  | _ => none
def parseTime (t : Str) : Option PTime :=
  match fields none t with
  | [h, mi, s] => some ⟨h, mi, s, 0⟩
  | [h, mi, s, us] => some ⟨h, mi, s, us⟩
  | _ => none
def parseTimestamp (t : Str) : Option (PDate × PTime) :=
  match fields none t with
  | [y, m, d, h, mi, s, us] => some (⟨y, m, d⟩, ⟨h, mi, s, us⟩)
  | _ => none

/-- total microseconds of a timedelta -/
def PDelta.micros (td : PDelta) : Int := (td.days * 86400 + td.secs) * 1000000 + td.us

/-- microseconds denoted by an unsigned interval text `h:m:s[.ffffff]` -/
def intervalVal (body : Str) : Option Nat :=
  match fields none body with
  | [h, m, s] => some (((h * 60 + m) * 60 + s) * 1000000)
  | [h, m, s, us] => some (((h * 60 + m) * 60 + s) * 1000000 + us)
  | _ => none

/-- microseconds denoted by an interval text `[-]h:m:s[.ffffff]` -/
def parseInterval : Str → Option Int
  | [] => none
  | c :: r =>
    if c = '-' then (intervalVal r).map (fun (n : Nat) => -(n : Int))
    else (intervalVal (c :: r)).map (fun (n : Nat) => (n : Int))

/-- the values `Value.__str__` is modelled for -/
inductive Val
  | none
  | bool (b : Bool)
  | int (i : Int)
  | str (s : Str)
  | bytes (b : List Nat)      -- each < 256
  deriving Repr, Inhabited

def hexDigit (n : Nat) : Char := (['0', '1', '2', '3', '4', '5', '6', '7', '8', '9', 'a', 'b', 'c', 'd', 'e', 'f'] : List Char).getD n '?'
/-- `hexlify(value).decode('ascii')` -/
def hexlify : List Nat → Str
  | [] => []
  | b :: r => hexDigit (b / 16) :: hexDigit (b % 16) :: hexlify r

/-- `Value.__str__` (base class; `PGValue` overrides bool; `SQLiteValue`/`MySQLValue` override only date/time kinds). -/
def valueStr (d : Dialect) (style : Style) : Val → Str
  | .none => ['n', 'u', 'l', 'l']
  | .bool b => if d = .postgres then (if b then ['t', 'r', 'u', 'e'] else ['f', 'a', 'l', 's', 'e']) else (if b then ['1'] else ['0'])
  | .str s => quoteStrL style s
  | .int i => intStr i
  | .bytes b => 'X' :: '\'' :: (hexlify b ++ ['\''])

/-- `SQLBuilder.MOD`: `' %% ' if builder.paramstyle in ('format', 'pyformat') else ' % '` -/
def modSymbol (style : Style) : Str := if style.percent then [' ', '%', '%', ' '] else [' ', '%', ' ']

/-! ## Database side: lexical rules -/

/-- Body of a quoted token after the opening quote `q`, where `q q` denotes one `q` and a single `q` closes the token.
    Returns the denoted value and the rest of the input.  `none`: unterminated.
    Standard SQL string literals (`q = '`; SQLite, PostgreSQL with standard_conforming_strings = on, Oracle) and
    quoted identifiers (`q = "`, and `` ` `` for MySQL). -/
def lexBody (q : Char) : Str → Option (Str × Str)
  | [] => none
  | c :: r =>
    if c = q then
      match r with
      | [] => some ([], [])
      | d :: r' => if d = q then (lexBody q r').map (fun p => (q :: p.1, p.2)) else some ([], d :: r')
    else (lexBody q r).map (fun p => (c :: p.1, p.2))

/-- a quoted token at the start of the input -/
def lexQuoted (q : Char) : Str → Option (Str × Str)
  | [] => none
  | c :: r => if c = q then lexBody q r else none

/-- MySQL escape sequences inside a string literal (default sql_mode, i.e. without NO_BACKSLASH_ESCAPES):
    `\0 \b \n \r \t \Z` are control characters, `\%` and `\_` keep the backslash, any other `\x` is `x`. -/
def mysqlEscape (c : Char) : Str :=
  if c = '0' then [Char.ofNat 0] else if c = 'b' then [Char.ofNat 8] else if c = 'n' then ['\n']
  else if c = 'r' then ['\r'] else if c = 't' then ['\t'] else if c = 'Z' then [Char.ofNat 26]
  else if c = '%' then ['\\', '%'] else if c = '_' then ['\\', '_'] else [c]

def lexMySQLBody : Str → Option (Str × Str)
  | [] => none
  | c :: r =>
    if c = '\\' then
      match r with
      | [] => none
      | d :: r' => (lexMySQLBody r').map (fun p => (mysqlEscape d ++ p.1, p.2))
    else if c = '\'' then
      match r with
      | [] => some ([], [])
      | d :: r' => if d = '\'' then (lexMySQLBody r').map (fun p => ('\'' :: p.1, p.2)) else some ([], d :: r')
    else (lexMySQLBody r).map (fun p => (c :: p.1, p.2))

def lexMySQL : Str → Option (Str × Str)
  | [] => none
  | c :: r => if c = '\'' then lexMySQLBody r else none

/-- the string-literal lexer of a dialect -/
def lexLiteral (d : Dialect) (s : Str) : Option (Str × Str) :=
  match d with
  | .mysql => lexMySQL s
  | _ => lexQuoted '\'' s

/-- value of a hexadecimal digit (SQL accepts both cases) -/
def unhexDigit (c : Char) : Option Nat :=
  if '0' ≤ c ∧ c ≤ '9' then some (c.toNat - '0'.toNat)
  else if 'a' ≤ c ∧ c ≤ 'f' then some (c.toNat - 'a'.toNat + 10)
  else if 'A' ≤ c ∧ c ≤ 'F' then some (c.toNat - 'A'.toNat + 10)
  else none

def unhexlify : Str → Option (List Nat)
  | [] => some []
  | [_] => none
  | a :: b :: r =>
    match unhexDigit a, unhexDigit b, unhexlify r with
    | some x, some y, some l => some ((16 * x + y) :: l)
    | _, _, _ => none

/-- blob literal `X'hex'` (standard SQL; SQLite, MySQL) -/
def lexBlob : Str → Option (List Nat × Str)
  | 'X' :: r =>
    match lexQuoted '\'' r with
    | some (h, rest) => (unhexlify h).map (fun b => (b, rest))
    | none => none
  | _ => none

/-- the identifier quote character of a provider (`quote_char`) -/
def Dialect.quoteChar : Dialect → Char
  | .mysql => '`'
  | _ => '\x22'

/-! ## DB-API `%` expansion (format / pyformat drivers compute `sql % args`) -/

inductive Tok
  | lit (c : Char)
  | pos                    -- `%s`
  | named (n : Str)        -- `%(n)s`
  deriving DecidableEq, Repr

inductive PMode | text | pct | name (depth : Nat) (acc : Str) | nameEnd (acc : Str)

/-- Scanner of Python's `%` operator restricted to `%%`, `%s`, `%(name)s`; any other conversion is `none`. -/
def scanP : PMode → Str → Option (List Tok)
  | .text, [] => some []
  | .text, c :: r => if c = '%' then scanP .pct r else (scanP .text r).map (Tok.lit c :: ·)
  | .pct, [] => none
  | .pct, c :: r =>
      if c = '%' then (scanP .text r).map (Tok.lit '%' :: ·)
      else if c = 's' then (scanP .text r).map (Tok.pos :: ·)
      else if c = '(' then scanP (.name 0 []) r
      else none
  | .name _ _, [] => none
  | .name d acc, c :: r =>
      -- CPython counts nested parentheses inside a mapping key
      if c = ')' then
        match d with
        | 0 => scanP (.nameEnd acc) r
        | d' + 1 => scanP (.name d' (acc ++ [c])) r
      else if c = '(' then scanP (.name (d + 1) (acc ++ [c])) r
      else scanP (.name d (acc ++ [c])) r
  | .nameEnd _, [] => none
  | .nameEnd acc, c :: r => if c = 's' then (scanP .text r).map (Tok.named acc :: ·) else none

def lits (s : Str) : List Tok := s.map Tok.lit

/-- the text of a token list that contains no placeholder -/
def litsOnly : List Tok → Option Str
  | [] => some []
  | .lit c :: r => (litsOnly r).map (c :: ·)
  | _ :: _ => none

/-- The SQL text the server receives for a placeholder-free fragment: `sql % ()` for the format styles, `sql` otherwise.
    `none`: the fragment contains a placeholder or a malformed conversion. -/
def expandPercent (style : Style) (sql : Str) : Option Str :=
  if style.percent then (scanP .text sql).bind litsOnly else some sql

/-! ## SQL LIKE -/

/-- `s LIKE p ESCAPE esc` (`esc = none`: no escape character).  Order of the tests as in SQLite's `patternCompare`:
    `%`, then the escape character, then `_`.  A pattern ending in the escape character matches nothing
    (SQLite; PostgreSQL raises an error instead). -/
def likeMatch (esc : Option Char) (p s : Str) : Bool :=
  match p with
  | [] => s.isEmpty
  | c :: p' =>
    if c = '%' then
      likeMatch esc p' s || (match s with
        | [] => false
        | _ :: s' => likeMatch esc (c :: p') s')
    else if some c = esc then
      match p' with
      | [] => false
      | d :: p'' =>
        match s with
        | [] => false
        | e :: s' => d == e && likeMatch esc p'' s'
    else if c = '_' then
      match s with
      | [] => false
      | _ :: s' => likeMatch esc p' s'
    else
      match s with
      | [] => false
      | e :: s' => c == e && likeMatch esc p' s'
termination_by p.length + s.length
decreasing_by all_goals (simp_wf; try omega)

/-! ## Pony: `StringMixin._like` -/

/-- SQL AST of the pattern operand, as `_like` builds it -/
inductive SqlExpr
  | value (s : Str)                      -- [ 'VALUE', s ]
  | item                                 -- item.getsql()[0]  (a parameter / column / expression whose value is a string)
  | replace (e : SqlExpr) (old new : SqlExpr)   -- [ 'REPLACE', e, old, new ]
  | concat2 (a b : SqlExpr)              -- [ 'CONCAT', a, b ]
  | concat3 (a b c : SqlExpr)            -- [ 'CONCAT', a, b, c ]
  deriving Repr, Inhabited

def SqlExpr.eval (item : Str) : SqlExpr → Str
  | .value s => s
  | .item => item
  | .replace e o n => sqlReplace (o.eval item) (n.eval item) (e.eval item)
  | .concat2 a b => a.eval item ++ b.eval item
  | .concat3 a b c => a.eval item ++ b.eval item ++ c.eval item

/-- Python truthiness of the `before` / `after` arguments (`None` or a string) -/
def truthyS : Option Str → Bool
  | none => false
  | some s => !s.isEmpty

structure LikeAst where
  pattern : SqlExpr
  escape : Bool          -- `[ 'VALUE', '!' ]` appended
  deriving Repr, Inhabited

/-- `value.replace('!', '!!').replace('%', '!%').replace('_', '!_')` -/
def pyReplaceChain (x : Str) : Str :=
  replaceChar '_' ['!', '_'] (replaceChar '%' ['!', '%'] (replaceChar '!' ['!', '!'] x))

/-- the nested `REPLACE` AST of the expression path -/
def sqlReplaceChainAst (e : SqlExpr) : SqlExpr :=
  .replace (.replace (.replace e (.value ['!']) (.value ['!', '!'])) (.value ['%']) (.value ['!', '%'])) (.value ['_']) (.value ['!', '_'])

/-- `StringMixin._like`: `const = some value` for a `StringConstMonad`, `none` for any other monad. -/
def likeAst (const : Option Str) (before after : Option Str) : LikeAst :=
  match const with
  | some value =>
    let esc := value.contains '%' || value.contains '_'
    let value := if esc then pyReplaceChain value else value
    let value := if truthyS before then before.getD [] ++ value else value
    let value := if truthyS after then value ++ after.getD [] else value
    { pattern := .value value, escape := esc }
  | none =>
    let e := sqlReplaceChainAst .item
    let e := if truthyS before && truthyS after then .concat3 (.value (before.getD [])) e (.value (after.getD []))
             else if truthyS before then .concat2 (.value (before.getD [])) e
             else if truthyS after then .concat2 e (.value (after.getD []))
             else e
    { pattern := e, escape := true }

/-- what the database computes for `column LIKE <pattern> [ESCAPE '!']`; `dflt` is the dialect's escape character when
    no ESCAPE clause is given (none: SQLite, Oracle; backslash: PostgreSQL, MySQL). -/
def LikeAst.run (l : LikeAst) (dflt : Option Char) (item : Str) (s : Str) : Bool :=
  likeMatch (if l.escape then some '!' else dflt) (l.pattern.eval item) s

def Dialect.defaultLikeEscape : Dialect → Option Char
  | .postgres => some '\\'
  | .mysql => some '\\'
  | _ => none

/-- the single-pass reading of the escaping: every `!`, `%`, `_` is preceded by `!` -/
def escapeLike : Str → Str
  | [] => []
  | c :: s => if c = '!' ∨ c = '%' ∨ c = '_' then '!' :: c :: escapeLike s else c :: escapeLike s

/-! ## statement structure: what the SQL parser sees once quoted tokens are taken out -/

/-- the three quote characters of standard SQL text as the dialects here lex it: `'` strings, `"` and `` ` `` identifiers -/
def isQuote (c : Char) : Bool := c == '\'' || c == '\x22' || c == '`'

/-- lexer state: outside any quoted token / inside a token opened by `q` / inside such a token, having just read `q`
    (which is either the closing quote or the first half of a doubled quote) -/
inductive QState | out | inq (q : Char) | endq (q : Char)

/-- one element of the statement skeleton: a structural character, or a whole quoted token opened by `q` -/
inductive Skel
  | ch (c : Char)
  | quoted (q : Char)
  deriving DecidableEq, Repr

/-- The statement with every quoted token collapsed to a marker: exactly the part of the text that decides the
    structure of the statement.  `none`: an unterminated quoted token. -/
def skeleton : QState → Str → Option (List Skel)
  | .out, [] => some []
  | .out, c :: r => if isQuote c then skeleton (.inq c) r else (skeleton .out r).map (Skel.ch c :: ·)
  | .inq _, [] => none
  | .inq q, c :: r => if c = q then skeleton (.endq q) r else skeleton (.inq q) r
  | .endq q, [] => some [Skel.quoted q]
  | .endq q, c :: r =>
      if c = q then skeleton (.inq q) r
      else if isQuote c then (skeleton (.inq c) r).map (Skel.quoted q :: ·)
      else (skeleton .out r).map (fun t => Skel.quoted q :: Skel.ch c :: t)

/-- a generated statement as the sequence of pieces the builders concatenate -/
inductive Piece
  | raw (t : Str)                 -- SQL keywords, operators, placeholders, numbers: text written by Pony itself
  | lit (s : Str)                 -- a string value rendered by `quote_str`
  | ident (q : Char) (n : Str)    -- a name rendered by `quote_name` with quote character `q`
  deriving Repr

def Piece.render : Piece → Str
  | .raw t => t
  | .lit s => stdQuote s
  | .ident q n => quoteNameL q n

def renderPieces : List Piece → Str
  | [] => []
  | p :: ps => p.render ++ renderPieces ps

def Piece.skel : Piece → List Skel
  | .raw t => t.map Skel.ch
  | .lit _ => [Skel.quoted '\'']
  | .ident q _ => [Skel.quoted q]

def skelPieces : List Piece → List Skel
  | [] => []
  | p :: ps => p.skel ++ skelPieces ps

/-- the piece with its value erased -/
def Piece.shape : Piece → Piece
  | .raw t => .raw t
  | .lit _ => .lit []
  | .ident q _ => .ident q []

/-- Well-formedness of a piece sequence; `prev` is the quote character of the quoted piece that immediately precedes.
    Raw text contains no quote character; identifier quote characters are quote characters; two tokens quoted with the
    same character are never adjacent (Pony always writes a separator: `, `, `.`, ` = `, a space). -/
def WFPieces : Option Char → List Piece → Prop
  | _, [] => True
  | prev, .raw t :: r => (∀ c ∈ t, isQuote c = false) ∧ WFPieces (if t = [] then prev else none) r
  | prev, .lit _ :: r => prev ≠ some '\'' ∧ WFPieces (some '\'') r
  | prev, .ident q _ :: r => isQuote q = true ∧ prev ≠ some q ∧ WFPieces (some q) r

/-! ## JSON path text (`SQLBuilder.eval_json_path`, `SQLiteBuilder.eval_json_path`) -/

inductive PathElem
  | key (s : Str)
  | idx (i : Int)
  deriving Repr, Inhabited

def isIdentStart (c : Char) : Bool := ('a' ≤ c && c ≤ 'z') || ('A' ≤ c && c ≤ 'Z') || c == '_'
/-- `pony.utils.is_ident` on ASCII text (`^[A-Za-z_]\w*\Z`; keys with non-ASCII word characters are tied by the oracle only) -/
def isIdent : Str → Bool
  | [] => false
  | c :: r => isIdentStart c && r.all (fun d => isIdentStart d || isDig d)

/-- `'."%s"' % value.replace('"', '\\"')` -/
def renderQuotedKey (s : Str) : Str := '.' :: '\x22' :: (replaceChar '\x22' ['\\', '\x22'] s ++ ['\x22'])

/-- one element of the path; `hashed`: SQLite with JSON1 and a negative index somewhere in the path (`[#-n]` counts from the end).
    The segment of a key depends on that key alone. -/
def renderPathElem (hashed : Bool) : PathElem → Str
  | .key s => if isIdent s then '.' :: s else renderQuotedKey s
  | .idx i => if hashed && decide (i < 0) then '[' :: '#' :: (intStr i ++ [']']) else '[' :: (intStr i ++ [']'])

def hasNegIdx : List PathElem → Bool
  | [] => false
  | .idx i :: r => decide (i < 0) || hasNegIdx r
  | .key _ :: r => hasNegIdx r

def renderPathElems (hashed : Bool) : List PathElem → Str
  | [] => []
  | e :: r => renderPathElem hashed e ++ renderPathElems hashed r

/-- the path text; `sqliteJson1`: built by SQLiteBuilder with `json1_available` -/
def jsonPathText (sqliteJson1 : Bool) (items : List PathElem) : Str :=
  '$' :: renderPathElems (sqliteJson1 && hasNegIdx items) items

/-- reads a quoted key segment `."…"` in which `\"` stands for a double quote (the convention `eval_json_path` writes) -/
def lexPathKeyBody : Str → Option (Str × Str)
  | [] => none
  | c :: r =>
    if c = '\x22' then some ([], r)
    else if c = '\\' then
      match r with
      | [] => none
      | d :: r' => (lexPathKeyBody r').map (fun p => (d :: p.1, p.2))
    else (lexPathKeyBody r).map (fun p => (c :: p.1, p.2))

def lexPathKey : Str → Option (Str × Str)
  | '.' :: q :: r => if q = '\x22' then lexPathKeyBody r else none
  | _ => none

/-! ## group_concat: the separator a program supplies -/

/-- `sep.join(xs)` -/
def joinWith (sep : Str) : List Str → Str
  | [] => []
  | [x] => x
  | x :: y :: r => x ++ sep ++ joinWith sep (y :: r)

/-- SQL `group_concat(x [, sep])` / `string_agg` / `LISTAGG` over the rows in scan order: without a separator argument the
    default `,` (which Pony writes explicitly for PostgreSQL and Oracle) -/
def dbGroupConcat (sepArg : Option Str) (xs : List Str) : Str := joinWith (sepArg.getD [',']) xs

/-- the separator argument of the aggregate node: `aggr_ast.append(['VALUE', sep])` under the guard `sep is not None`
    (`guardNotNone = true`) - or under a truthiness test of `sep`, which the source must not use -/
def groupConcatArg (guardNotNone : Bool) (sep : Option Str) : Option Str :=
  match sep with
  | none => none
  | some s => if guardNotNone then some s else (if s.isEmpty then none else some s)

/-! ## `Param.eval` and the converters: what a bound parameter becomes; what an inline constant denotes (SQLite) -/

/-- the scalar Python values a query can supply (floats, Decimals and timedeltas are tied by the query oracle only) -/
inductive SV
  | none | bool (b : Bool) | int (i : Int) | str (s : Str) | bytes (b : List Nat)
  | date (x : PDate) | datetime (x : PDate) (t : PTime) | time (t : PTime)
  deriving Repr, Inhabited

/-- an element a query variable can hold or contain: a scalar, or an entity instance (seen through `_get_raw_pkval_()`) -/
inductive Elem
  | scalar (v : SV)
  | entity (pk : List SV)
  deriving Repr, Inhabited

/-- the value of an external variable of the query: one element, or a tuple / RawSQL.values / `_get_items()` sequence -/
inductive VarVal
  | one (e : Elem)
  | seq (es : List Elem)
  deriving Repr, Inhabited

/-- `Param.eval` up to the converter:
      varkey, i, j = param.paramkey; value = values[varkey]
      if i is not None: value = value[i]                      (tuple / RawSQL.values / _get_items())
      if j is not None: value = value._get_raw_pkval_()[j]    (asserted to be an entity)
    `none`: KeyError / IndexError / failed assertion. -/
def paramEvalRaw (values : Nat → Option VarVal) (varkey : Nat) (i j : Option Nat) : Option SV :=
  match values varkey with
  | Option.none => Option.none
  | some v =>
    let e : Option Elem := match i, v with
      | Option.none, .one e => some e
      | Option.none, .seq _ => Option.none         -- a whole sequence is never bound as one parameter
      | some i, .seq es => es[i]?
      | some _, .one _ => Option.none              -- `assert False, t`
    match e, j with
    | some (.scalar sv), Option.none => some sv
    | some (.entity pk), some j => pk[j]?
    | _, _ => Option.none

/-- what a SQLite connection stores / compares for a bound value -/
inductive DB
  | null | int (i : Int) | text (s : Str) | blob (b : List Nat)
  deriving Repr, Inhabited, DecidableEq

/-- `converter.py2sql(value)` of the SQLite converters followed by sqlite3's own adaptation of the Python value:
    str, int, bytes as they are, bool as 0/1, date -> `isoformat()`, datetime -> `datetime2timestamp`, time -> `isoformat()` -/
def sqliteBind : SV → DB
  | .none => .null
  | .bool b => .int (if b then 1 else 0)
  | .int i => .int i
  | .str s => .text s
  | .bytes b => .blob b
  | .date x => .text (dateStr x)
  | .datetime x t => .text (timestampStr x t)
  | .time t => .text (isoTime t)

/-- the inline literal `SQLiteValue.__str__` renders for the same value when it is written as a constant in the query -/
def sqliteConstText (style : Style) : SV → Option Str
  | .none => some (valueStr .sqlite style .none)
  | .bool b => some (valueStr .sqlite style (.bool b))
  | .int i => some (valueStr .sqlite style (.int i))
  | .str s => some (valueStr .sqlite style (.str s))
  | .bytes b => some (valueStr .sqlite style (.bytes b))
  | .date x => temporalStr .sqlite style (.date x)
  | .datetime x t => temporalStr .sqlite style (.datetime x t)
  | .time t => temporalStr .sqlite style (.time t)

/-- the value a SQLite literal denotes: `null`, a string literal, a blob literal, an integer literal -/
def sqliteRead (t : Str) : Option DB :=
  match t with
  | [] => Option.none
  | c :: r =>
    if c = 'n' then (if r = ['u', 'l', 'l'] then some .null else Option.none)
    else if c = '\'' then
      match lexQuoted '\'' (c :: r) with
      | some (v, []) => some (.text v)
      | _ => Option.none
    else if c = 'X' then
      match lexBlob (c :: r) with
      | some (b, []) => some (.blob b)
      | _ => Option.none
    else
      match lexInt (c :: r) with
      | some (i, []) => some (.int i)
      | _ => Option.none

/-! ## `make_param`: one Param object per paramkey and statement; JSON path (composite) parameters -/

/-- `SQLBuilder.make_param` over the occurrences of one statement: `keys.get(paramkey)`; a new Param object - carrying `content`
    (converter, or the path items a CompositeParam evaluates) - is created only when the key is new.
    Result: the content of the object returned at each occurrence. -/
def makeParams [BEq κ] : List (κ × γ) → List (κ × γ) → List γ
  | _, [] => []
  | cache, (k, c) :: r =>
    match cache.lookup k with
    | some c' => c' :: makeParams cache r
    | none => c :: makeParams (cache ++ [(k, c)]) r

/-- an element of a JSON path as `build_json_path` sees it after `builder(element)` -/
inductive PathItem
  | param (var : Nat)      -- a Param (paramkey `(var, None, None)`)
  | skey (s : Nat)         -- a Value holding a string key (strings abstracted to their identity)
  | ikey (i : Int)         -- a Value holding an array index
  | ellipsis               -- a Value holding `...`  (wildcard `.*`)
  | slice                  -- a Value holding `[:]`  (wildcard `[*]`)
  deriving DecidableEq, Repr, Inhabited

/-- a component of the cache key of a composite parameter -/
inductive KeyComp
  | pk (var : Nat) | s (s : Nat) | i (i : Int) | ellipsis | none
  deriving DecidableEq, Repr, Inhabited

/-- typed mirror of the component expression of `build_json_path` (bridged to the regenerated `Gen.jsonKeyComponent`) -/
def keyComponent : PathItem → KeyComp
  | .param v => .pk v
  | .skey s => .s s
  | .ikey i => .i i
  | .ellipsis => .ellipsis
  | .slice => .none

/-- `tuple(component(item) for item in items)` -/
def pathKey (items : List PathItem) : List KeyComp := items.map keyComponent

/-! ## Pony: parameters (`SQLBuilder.__init__`, `Param.__str__`) -/

/-- The loop `for i, param in enumerate(params): if param.id is None: param.id = i + 1` over the occurrences of `Param`
    objects in `builder.result`; `make_param` guarantees one object per paramkey, so "id is None" = "key not seen yet".
    `ids` is the association key ↦ id built so far, `i` the enumerate counter. -/
def assignIds : List Nat → Nat → List (Nat × Nat) → List (Nat × Nat)
  | [], _, ids => ids
  | k :: r, i, ids =>
    match ids.lookup k with
    | some _ => assignIds r (i + 1) ids
    | none => assignIds r (i + 1) (ids ++ [(k, i + 1)])

def idOf (occ : List Nat) (k : Nat) : Nat := ((assignIds occ 0 []).lookup k).getD 0

inductive Ph
  | qmark | fmt | numeric (id : Nat) | named (id : Nat) | pyfmt (id : Nat)
  deriving DecidableEq, Repr

/-- `Param.__str__` -/
def placeholder (style : Style) (id : Nat) : Ph :=
  match style with
  | .qmark => .qmark | .format => .fmt | .numeric => .numeric id | .named => .named id | .pyformat => .pyfmt id

def Ph.render : Ph → String
  | .qmark => "?" | .fmt => "%s" | .numeric id => s!":{id}" | .named id => s!":p{id}" | .pyfmt id => s!"%(p{id})s"

/-- the placeholders in the SQL text, one per occurrence -/
def placeholders (style : Style) (occ : List Nat) : List Ph := occ.map (fun k => placeholder style (idOf occ k))

/-- `builder.layout` -/
def layout (occ : List Nat) : List Nat := occ

inductive Args (α : Type)
  | tuple (l : List α)
  | dict (l : List (Nat × α))     -- insertion sequence of the dict comprehension; key `'p%d' % id` represented by `id`
  deriving Repr

/-- `builder.adapter(values)` -/
def adapter (style : Style) (occ : List Nat) (vals : Nat → α) : Args α :=
  match style with
  | .qmark | .format | .numeric => .tuple (occ.map vals)
  | .named | .pyformat => .dict (occ.map (fun k => (idOf occ k, vals k)))

/-- Python dict built by insertion: the last value stored under a key wins -/
def dictGet (l : List (Nat × α)) (id : Nat) : Option α := l.reverse.lookup id

/-- PEP 249: the argument a driver binds to the placeholder at occurrence position `pos` -/
def resolve (ph : Ph) (pos : Nat) (args : Args α) : Option α :=
  match ph, args with
  | .qmark, .tuple l => l[pos]?
  | .fmt, .tuple l => l[pos]?
  | .numeric id, .tuple l => if id = 0 then none else l[id - 1]?
  | .named id, .dict d => dictGet d id
  | .pyfmt id, .dict d => dictGet d id
  | _, _ => none

end PonyVerif.Model.SqlText
