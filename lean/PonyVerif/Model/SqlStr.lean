/-
  C25 — string indexing / slicing.

  * `Sql`      : typed SQL expression AST for the node kinds `SQLBuilder.STRING_SLICE` and
                 `StringMixin.__getitem__` emit, `enc` = its encoding as the nested Python lists Pony uses,
                 `dec` = decoder of such lists (used by the driver to evaluate the AST Pony REALLY emitted; proved inverse to `enc`).
  * `eval`     : evaluator with SQL NULL, three-valued conditions, and `substr` per dialect as documented
                 (PostgreSQL / MySQL / Oracle) or as implemented (SQLite func.c `substrFunc`, validated against the
                 real sqlite3 on every run); SQLite slices go through the UDF `py_string_slice` (`Sql.slice`).
  * `pySlice`  : CPython `PySlice_AdjustIndices` (step 1) on `List Char`; `pyIndex` : `s[i]`.
  * `stringSliceT` : typed mirror of `SQLBuilder.STRING_SLICE` (bridge theorem in Props/C25.lean ties it to the
                 definition regenerated from the source on every run).
  * `getitemSlice`, `getitemIndex` : hand model of `StringMixin.__getitem__` (sqltranslation.py), mirroring the
                 code as it is: `param_to_const` pinning into `fixed_param_values`, the `0 / -1` "whole string"
                 shortcut (the -1 'stop omitted' sentinel), constant folding, index arithmetic per dialect.
  Core Lean only.
-/
import PonyVerif.Py.Val
namespace PonyVerif.Model.SqlStr
open PonyVerif.Py

inductive Dialect where
  | pg | mysql | oracle | sqlite
  deriving DecidableEq, Repr, Inhabited

def Dialect.name : Dialect → String
  | .pg => "PostgreSQL" | .mysql => "MySQL" | .oracle => "Oracle" | .sqlite => "SQLite"

def Dialect.ofName : String → Option Dialect
  | "PostgreSQL" => some .pg | "MySQL" => some .mysql | "Oracle" => some .oracle | "SQLite" => some .sqlite
  | _ => none

/-! ### SQL expression AST -/

inductive Sql where
  | value (i : Int)            -- ['VALUE', i]
  | strLit (s : String)        -- ['VALUE', 'text']
  | null                       -- ['VALUE', None]
  | col (name : String)        -- ['COLUMN', name]   (opaque variable bound in the environment)
  | param (name : String)      -- ['PARAM', name]    (opaque variable bound in the environment)
  | length (e : Sql)
  | add (a b : Sql)
  | sub (a b : Sql)
  | max2 (a b : Sql)           -- ['MAX', False, a, b]  = GREATEST(a, b)
  | ifte (c t e : Sql)         -- ['IF', c, t, e]       = CASE WHEN c THEN t ELSE e END
  | case4 (c1 e1 c2 e2 c3 e3 c4 e4 : Sql)   -- ['CASE', None, [(c1,e1),(c2,e2),(c3,e3),(c4,e4)]]  (no ELSE)
  | and (a b : Sql)
  | ge (a b : Sql)
  | lt (a b : Sql)
  | gt (a b : Sql)             -- not emitted by the current source; evaluated so that a changed comparison still yields a concrete failing input
  | le (a b : Sql)
  | coalesce (a b : Sql)
  | substr3 (e p l : Sql)      -- ['SUBSTR', e, p, l]
  | substr2 (e p : Sql)        -- ['SUBSTR', e, p, None]
  | slice (e a b : Sql)        -- SQLite: py_string_slice(e, a, b)
  deriving Repr, Inhabited, DecidableEq

namespace Sql

/-- nodes carrying the tag 'VALUE' (what `STRING_SLICE` recognises as a constant bound) -/
def isValue : Sql → Bool
  | .value _ | .strLit _ | .null => true
  | _ => false

def tag : Sql → String
  | .value _ | .strLit _ | .null => "VALUE"
  | .col _ => "COLUMN" | .param _ => "PARAM" | .length _ => "LENGTH" | .add _ _ => "ADD" | .sub _ _ => "SUB"
  | .max2 _ _ => "MAX" | .ifte _ _ _ => "IF" | .case4 .. => "CASE" | .and _ _ => "AND" | .ge _ _ => "GE"
  | .lt _ _ => "LT" | .gt _ _ => "GT" | .le _ _ => "LE" | .coalesce _ _ => "COALESCE" | .substr3 _ _ _ => "SUBSTR" | .substr2 _ _ => "SUBSTR"
  | .slice _ _ _ => "PY_STRING_SLICE"

/-- the nested-list form Pony builds -/
def enc : Sql → PyVal
  | .value i => .list [.str "VALUE", .int i]
  | .strLit s => .list [.str "VALUE", .str s]
  | .null => .list [.str "VALUE", .none]
  | .col n => .list [.str "COLUMN", .str n]
  | .param n => .list [.str "PARAM", .str n]
  | .length e => .list [.str "LENGTH", enc e]
  | .add a b => .list [.str "ADD", enc a, enc b]
  | .sub a b => .list [.str "SUB", enc a, enc b]
  | .max2 a b => .list [.str "MAX", .bool false, enc a, enc b]
  | .ifte c t e => .list [.str "IF", enc c, enc t, enc e]
  | .case4 c1 e1 c2 e2 c3 e3 c4 e4 =>
      .list [.str "CASE", .none, .list [.list [enc c1, enc e1], .list [enc c2, enc e2], .list [enc c3, enc e3], .list [enc c4, enc e4]]]
  | .and a b => .list [.str "AND", enc a, enc b]
  | .ge a b => .list [.str "GE", enc a, enc b]
  | .lt a b => .list [.str "LT", enc a, enc b]
  | .gt a b => .list [.str "GT", enc a, enc b]
  | .le a b => .list [.str "LE", enc a, enc b]
  | .coalesce a b => .list [.str "COALESCE", enc a, enc b]
  | .substr3 e p l => .list [.str "SUBSTR", enc e, enc p, enc l]
  | .substr2 e p => .list [.str "SUBSTR", enc e, enc p, .none]
  | .slice e a b => .list [.str "PY_STRING_SLICE", enc e, enc a, enc b]

end Sql

/-- decoder of the list form (total; anything outside the node kinds above is `none`).  The engine renames
    `['COLUMN', alias, name]` / `['PARAM', key, …]` to the two-element opaque form before sending.
    `dec_sound` / `dec_enc` (Lemmas/SqlStr.lean): `dec v = some t ↔ t.enc = v`. -/
def dec : PyVal → Option Sql
  | .list [.str "VALUE", .int i] => some (.value i)
  | .list [.str "VALUE", .str s] => some (.strLit s)
  | .list [.str "VALUE", .none] => some .null
  | .list [.str "COLUMN", .str n] => some (.col n)
  | .list [.str "PARAM", .str n] => some (.param n)
  | .list [.str "LENGTH", e] => do some (.length (← dec e))
  | .list [.str "ADD", a, b] => do some (.add (← dec a) (← dec b))
  | .list [.str "SUB", a, b] => do some (.sub (← dec a) (← dec b))
  | .list [.str "MAX", .bool false, a, b] => do some (.max2 (← dec a) (← dec b))
  | .list [.str "IF", c, t, e] => do some (.ifte (← dec c) (← dec t) (← dec e))
  | .list [.str "CASE", .none, .list [.list [c1, e1], .list [c2, e2], .list [c3, e3], .list [c4, e4]]] => do
      some (.case4 (← dec c1) (← dec e1) (← dec c2) (← dec e2) (← dec c3) (← dec e3) (← dec c4) (← dec e4))
  | .list [.str "AND", a, b] => do some (.and (← dec a) (← dec b))
  | .list [.str "GE", a, b] => do some (.ge (← dec a) (← dec b))
  | .list [.str "LT", a, b] => do some (.lt (← dec a) (← dec b))
  | .list [.str "GT", a, b] => do some (.gt (← dec a) (← dec b))
  | .list [.str "LE", a, b] => do some (.le (← dec a) (← dec b))
  | .list [.str "COALESCE", a, b] => do some (.coalesce (← dec a) (← dec b))
  | .list [.str "SUBSTR", e, p, .none] => do some (.substr2 (← dec e) (← dec p))
  | .list [.str "SUBSTR", e, p, l] => do some (.substr3 (← dec e) (← dec p) (← dec l))
  | .list [.str "PY_STRING_SLICE", e, a, b] => do some (.slice (← dec e) (← dec a) (← dec b))
  | _ => none


/-! ### Python side: slices and indexes of a `List Char` -/

/-- `(s.drop lo).take len` — every substring function below is this window for some `lo`, `len`. -/
def sliceNat (s : List Char) (lo len : Nat) : List Char := (s.drop lo).take len

/-- CPython `PySlice_AdjustIndices` for one bound, step 1 -/
def adjIdx (n i : Int) : Int :=
  if i < 0 then (if i + n < 0 then 0 else i + n) else (if i ≥ n then n else i)

/-- Python `s[i:j]` (`none` = omitted bound) -/
def pySlice (s : List Char) (i j : Option Int) : List Char :=
  let n : Int := s.length
  let lo := match i with | none => 0 | some i => adjIdx n i
  let hi := match j with | none => n | some j => adjIdx n j
  sliceNat s lo.toNat (hi - lo).toNat

/-- Python `s[i]`; `none` = IndexError -/
def pyIndex (s : List Char) (i : Int) : Option Char :=
  let n : Int := s.length
  let k := if i < 0 then i + n else i
  if k < 0 ∨ k ≥ n then none else s[k.toNat]?

/-- Python `s[i]` as a string; `''` when Python raises IndexError (SQL has no such error: documented deviation) -/
def pyIndexStr (s : List Char) (i : Int) : List Char :=
  match pyIndex s i with
  | some c => [c]
  | none => []

/-! ### SQL values, dialect `substr` -/

inductive SVal where
  | null | int (i : Int) | str (s : List Char) | bool (b : Bool)
  deriving DecidableEq, Repr, Inhabited

inductive SErr where
  | negativeLength            -- PostgreSQL: "negative substring length not allowed"
  | typeError
  | unbound (name : String)
  | badInt                    -- int('x') inside py_string_slice
  deriving DecidableEq, Repr, Inhabited

abbrev SM := Except SErr

instance : DecidableEq (SM SVal) := fun a b =>
  match a, b with
  | .ok x, .ok y => if h : x = y then isTrue (by rw [h]) else isFalse (by intro h'; cases h'; exact h rfl)
  | .error x, .error y => if h : x = y then isTrue (by rw [h]) else isFalse (by intro h'; cases h'; exact h rfl)
  | .ok _, .error _ => isFalse (by intro h; cases h)
  | .error _, .ok _ => isFalse (by intro h; cases h)

/-- a string as a SQL value of the dialect: Oracle has no empty string (`'' IS NULL`). -/
def strVal (d : Dialect) (s : List Char) : SVal :=
  if d = .oracle ∧ s = [] then .null else .str s

/-- UTF-8 byte length (MySQL's `LENGTH()` counts bytes, `CHAR_LENGTH()` would count characters) -/
def byteLen : List Char → Nat
  | [] => 0
  | c :: cs => c.utf8Size + byteLen cs

/-- what the SQL function `length(s)` returns; Pony emits `length(...)` on every dialect -/
def lengthOf (d : Dialect) (s : List Char) : Int :=
  if d = .mysql then (byteLen s : Int) else (s.length : Int)

/-- SQLite `substr(s, p, l)` — transcription of func.c `substrFunc` for text (p1 = p, p2 = l). -/
def sqliteSubstr (s : List Char) (p l : Int) : List Char :=
  let n : Int := s.length
  let negP2 := decide (l < 0)
  let p2 := if l < 0 then -l else l
  let r1 : Int × Int :=
    if p < 0 then
      (if p + n < 0 then (0, (if p2 + (p + n) < 0 then 0 else p2 + (p + n))) else (p + n, p2))
    else if p > 0 then (p - 1, p2)
    else (0, if p2 > 0 then p2 - 1 else p2)
  let r2 : Int × Int :=
    if negP2 then (if r1.1 - r1.2 < 0 then (0, r1.2 + (r1.1 - r1.2)) else (r1.1 - r1.2, r1.2)) else r1
  sliceNat s r2.1.toNat r2.2.toNat

/-- three-argument `substr` per dialect -/
def substr3V (d : Dialect) (s : List Char) (p l : Int) : SM SVal :=
  let n : Int := s.length
  match d with
  | .pg =>
      -- window [p, p+l) ∩ [1, n]; a negative length is an error
      if l < 0 then .error .negativeLength
      else .ok (.str (sliceNat s (p - 1).toNat ((p + l - 1).toNat - (p - 1).toNat)))
  | .mysql =>
      if p = 0 ∨ l < 1 then .ok (.str [])
      else if p > 0 then .ok (.str (sliceNat s (p - 1).toNat l.toNat))
      else if -p > n then .ok (.str [])
      else .ok (.str (sliceNat s (n + p).toNat l.toNat))
  | .oracle =>
      if l < 1 then .ok .null
      else
        let p' := if p = 0 then 1 else p
        if p' > 0 then .ok (strVal .oracle (sliceNat s (p' - 1).toNat l.toNat))
        else if -p' > n then .ok .null
        else .ok (strVal .oracle (sliceNat s (n + p').toNat l.toNat))
  | .sqlite => .ok (.str (sqliteSubstr s p l))

/-- two-argument `substr` per dialect (to the end of the string) -/
def substr2V (d : Dialect) (s : List Char) (p : Int) : SM SVal :=
  let n : Int := s.length
  match d with
  | .pg => .ok (.str (sliceNat s (p - 1).toNat s.length))
  | .mysql =>
      if p = 0 then .ok (.str [])
      else if p > 0 then .ok (.str (sliceNat s (p - 1).toNat s.length))
      else if -p > n then .ok (.str [])
      else .ok (.str (sliceNat s (n + p).toNat s.length))
  | .oracle =>
      let p' := if p = 0 then 1 else p
      if p' > 0 then .ok (strVal .oracle (sliceNat s (p' - 1).toNat s.length))
      else if -p' > n then .ok .null
      else .ok (strVal .oracle (sliceNat s (n + p').toNat s.length))
  | .sqlite => .ok (.str (sqliteSubstr s p (n + p.natAbs + 1)))

def lengthV (d : Dialect) : SVal → SM SVal
  | .str s => .ok (.int (lengthOf d s))
  | .null => .ok .null
  | _ => .error .typeError

def arithV (f : Int → Int → Int) : SVal → SVal → SM SVal
  | .int a, .int b => .ok (.int (f a b))
  | .null, .int _ | .int _, .null | .null, .null => .ok .null
  | _, _ => .error .typeError

def cmpV (f : Int → Int → Bool) : SVal → SVal → SM SVal
  | .int a, .int b => .ok (.bool (f a b))
  | .null, .int _ | .int _, .null | .null, .null => .ok .null
  | _, _ => .error .typeError

/-- `GREATEST(a, b)`: PostgreSQL ignores NULL arguments, the other dialects return NULL. -/
def greatestV (d : Dialect) : SVal → SVal → SM SVal
  | .int a, .int b => .ok (.int (if a ≥ b then a else b))
  | .null, .int b => .ok (if d = .pg then .int b else .null)
  | .int a, .null => .ok (if d = .pg then .int a else .null)
  | .null, .null => .ok .null
  | _, _ => .error .typeError

/-- three-valued AND -/
def andV : SVal → SVal → SM SVal
  | .bool false, .bool _ | .bool false, .null | .bool true, .bool false | .null, .bool false => .ok (.bool false)
  | .bool true, .bool true => .ok (.bool true)
  | .bool true, .null | .null, .bool true | .null, .null => .ok .null
  | _, _ => .error .typeError

/-- a WHEN condition: only TRUE selects the branch; FALSE and NULL do not. -/
def condV : SVal → SM Bool
  | .bool b => .ok b
  | .null => .ok false
  | _ => .error .typeError

def substr3Args (d : Dialect) : SVal → SVal → SVal → SM SVal
  | .str s, .int p, .int l => substr3V d s p l
  | .null, .int _, .int _ | .null, .null, .int _ | .null, .int _, .null | .null, .null, .null
  | .str _, .null, .int _ | .str _, .int _, .null | .str _, .null, .null => .ok .null
  | _, _, _ => .error .typeError

def substr2Args (d : Dialect) : SVal → SVal → SM SVal
  | .str s, .int p => substr2V d s p
  | .null, .int _ | .null, .null | .str _, .null => .ok .null
  | _, _ => .error .typeError

/-- `int(text)` for canonical decimal text (`-?[0-9]+`) -/
def digitsVal : List Char → Option Nat
  | [] => none
  | cs => cs.foldl (fun acc c => match acc with
      | none => none
      | some a => if c.isDigit then some (a * 10 + (c.toNat - '0'.toNat)) else none) (some 0)

def parseInt : List Char → Option Int
  | '-' :: cs => (digitsVal cs).map (fun n => -(n : Int))
  | cs => (digitsVal cs).map (fun n => (n : Int))

/-- a bound as `py_string_slice` receives it: NULL → None, text → `int(text)` -/
def udfBound : SVal → SM (Option Int)
  | .null => .ok none
  | .int i => .ok (some i)
  | .str cs => match parseInt cs with
      | some i => .ok (some i)
      | none => .error .badInt
  | .bool _ => .error .typeError

/-- sqlite.py `py_string_slice(s, start, end)` -/
def pyStringSliceUdf (s a b : SVal) : SM SVal :=
  match s with
  | .null => .ok .null
  | .str cs => do
      let i ← udfBound a
      let j ← udfBound b
      .ok (.str (pySlice cs i j))
  | _ => .error .typeError

structure Env where
  col : String → Option SVal
  param : String → Option SVal

def evalVar (x : Option SVal) (name : String) : SM SVal :=
  match x with
  | some v => .ok v
  | none => .error (.unbound name)

/-- SQL expression evaluator.  CASE/IF/COALESCE evaluate only the selected branch. -/
def eval (d : Dialect) (env : Env) : Sql → SM SVal
  | .value i => .ok (.int i)
  | .strLit s => .ok (strVal d s.toList)
  | .null => .ok .null
  | .col n => evalVar (env.col n) n
  | .param n => evalVar (env.param n) n
  | .length e => do lengthV d (← eval d env e)
  | .add a b => do
      let x ← eval d env a
      let y ← eval d env b
      arithV (· + ·) x y
  | .sub a b => do
      let x ← eval d env a
      let y ← eval d env b
      arithV (· - ·) x y
  | .max2 a b => do
      let x ← eval d env a
      let y ← eval d env b
      greatestV d x y
  | .ifte c t e => do
      let cv ← eval d env c
      if (← condV cv) then eval d env t else eval d env e
  | .case4 c1 e1 c2 e2 c3 e3 c4 e4 => do
      if (← condV (← eval d env c1)) then eval d env e1
      else if (← condV (← eval d env c2)) then eval d env e2
      else if (← condV (← eval d env c3)) then eval d env e3
      else if (← condV (← eval d env c4)) then eval d env e4
      else .ok .null
  | .and a b => do
      let x ← eval d env a
      let y ← eval d env b
      andV x y
  | .ge a b => do
      let x ← eval d env a
      let y ← eval d env b
      cmpV (fun u v => decide (u ≥ v)) x y
  | .lt a b => do
      let x ← eval d env a
      let y ← eval d env b
      cmpV (fun u v => decide (u < v)) x y
  | .gt a b => do
      let x ← eval d env a
      let y ← eval d env b
      cmpV (fun u v => decide (u > v)) x y
  | .le a b => do
      let x ← eval d env a
      let y ← eval d env b
      cmpV (fun u v => decide (u ≤ v)) x y
  | .coalesce a b => do
      let x ← eval d env a
      if x = .null then eval d env b else .ok x
  | .substr3 e p l => do
      let sv ← eval d env e
      let pv ← eval d env p
      let lv ← eval d env l
      substr3Args d sv pv lv
  | .substr2 e p => do
      let sv ← eval d env e
      let pv ← eval d env p
      substr2Args d sv pv
  | .slice e a b => do
      let sv ← eval d env e
      let av ← eval d env a
      let bv ← eval d env b
      pyStringSliceUdf sv av bv

/-! ### typed mirror of `SQLBuilder.STRING_SLICE` -/

/-- a slice bound as `STRING_SLICE` receives it: `None`, `['VALUE', i]`, or any other SQL expression -/
inductive Arg where
  | omitted | const (i : Int) | expr (x : Sql)
  deriving Repr, Inhabited, DecidableEq

def Arg.enc : Arg → PyVal
  | .omitted => .none
  | .const i => .list [.str "VALUE", .int i]
  | .expr x => x.enc

/-- `if start is None: start = ['VALUE', 0]` -/
def startNorm : Arg → Arg
  | .omitted => .const 0
  | a => a

open Sql in
/-- `index_sql` for a (normalised) start -/
def indexSql (d : Dialect) (e : Sql) : Arg → Sql
  | .omitted => value 1
  | .const v =>
      if d = .pg ∧ v < 0 then (if v < -1 then sub (length e) (value (-(v + 1))) else length e)
      else value (if v ≥ 0 then v + 1 else v)
  | .expr x => ifte (ge x (value 0)) (add x (value 1)) (if d = .pg then add (length e) (add x (value 1)) else x)

open Sql in
def maxz (x : Sql) : Sql := max2 x (value 0)

open Sql in
/-- `len_sql` (`none` = two-argument substr) for a normalised start, `idx = indexSql d e start` -/
def lenSql (e : Sql) (start : Arg) (idx : Sql) : Arg → Option Sql
  | .omitted => none
  | .const b =>
      match start with
      | .expr x =>
          let ss := coalesce x (value 0)
          let sp := if b ≥ 0 then sub (value b) ss else sub (length e) (add ss (value (-b)))
          let sn := if b ≥ 0 then sub (value (b + 1)) idx else sub (value b) ss
          some (maxz (ifte (ge ss (value 0)) sp sn))
      | .const a =>
          if a ≥ 0 ∧ b ≥ 0 then some (value (b - a))
          else if a < 0 ∧ b < 0 then some (value (b - a))
          else if a ≥ 0 ∧ b < 0 then some (maxz (sub (length e) (value (a - b))))
          else some (maxz (sub (value (b + 1)) idx))
      | .omitted => none   -- not reached: start is normalised
  | .expr y =>
      let ts := coalesce y (value (-1))
      match start with
      | .const a =>
          let ss := value a
          let tp := if a ≥ 0 then sub ts ss else sub (add ts (value 1)) idx
          let tn := if a ≥ 0 then sub (length e) (sub ss ts) else sub ts ss
          some (maxz (ifte (ge ts (value 0)) tp tn))
      | .expr x =>
          let ss := coalesce x (value 0)
          let both := sub ts ss
          let startPos := sub (length e) (sub ss ts)
          let stopPos := sub (add ts (value 1)) idx
          some (maxz (case4
            (and (ge ss (value 0)) (ge ts (value 0))) both
            (and (lt ss (value 0)) (lt ts (value 0))) both
            (and (ge ss (value 0)) (lt ts (value 0))) startPos
            (and (lt ss (value 0)) (ge ts (value 0))) stopPos))
      | .omitted => none   -- not reached

/-- typed mirror of `SQLBuilder.STRING_SLICE(builder, expr, start, stop)`: the AST handed to `builder(...)` -/
def stringSliceT (d : Dialect) (e : Sql) (start stop : Arg) : Sql :=
  let st := startNorm start
  let idx := indexSql d e st
  match lenSql e st idx stop with
  | none => .substr2 e idx
  | some l => .substr3 e idx l

/-- `SQLiteBuilder.STRING_SLICE`: `py_string_slice(expr, start | NULL, stop | NULL)` -/
def Arg.sql : Arg → Sql
  | .omitted => .null
  | .const i => .value i
  | .expr x => x

def sqliteSliceT (e : Sql) (start stop : Arg) : Sql := .slice e start.sql stop.sql

/-- what the dialect's builder makes of the translator node `['STRING_SLICE', e, start, stop]` -/
def sliceFor (d : Dialect) (e : Sql) (start stop : Arg) : Sql :=
  if d = .sqlite then sqliteSliceT e start stop else stringSliceT d e start stop

/-- a non-constant bound must not carry the tag 'VALUE' (else `STRING_SLICE` reads it as a constant) -/
def Arg.wf : Arg → Prop
  | .expr x => x.isValue = false
  | _ => True

/-- the Python value a bound denotes in an environment (`none` = omitted) -/
def Arg.denotes (d : Dialect) (env : Env) : Arg → Option Int → Prop
  | .omitted, v => v = none
  | .const c, v => v = some c
  | .expr x, v => ∃ i, eval d env x = .ok (.int i) ∧ v = some i

/-- as `denotes`, and a bound expression that evaluates to NULL denotes Python's None (`s[None:j]`) -/
def Arg.denotesN (d : Dialect) (env : Env) : Arg → Option Int → Prop
  | .omitted, v => v = none
  | .const c, v => v = some c
  | .expr x, v => (∃ i, eval d env x = .ok (.int i) ∧ v = some i) ∨ (eval d env x = .ok .null ∧ v = none)

def Arg.isConstStart : Arg → Bool
  | .expr _ => false
  | _ => true
def Arg.isConstStop : Arg → Bool
  | .const _ => true
  | _ => false

/-! ### hand model of `StringMixin.__getitem__` -/

/-- a bound / index as the translator sees it -/
inductive GArg where
  | omitted                                   -- absent, `None` literal, or a variable whose value is None (NoneMonad)
  | const (i : Int)                           -- ConstMonad
  | param (key : String) (v : Option Int)     -- ParamMonad with `vars[key] = v`
  | expr (x : Sql)                            -- any other int-typed monad (attribute, arithmetic, …)
  deriving Repr, Inhabited, DecidableEq

abbrev Fixed := List (String × Int)           -- root_translator.fixed_param_values

/-- `param_to_const(monad, is_start)` -/
def paramToConst (fixed : Fixed) (isStart : Bool) : GArg → GArg × Fixed
  | .param k v =>
      match fixed.lookup k with
      | some iv => (.const iv, fixed)
      | none =>
          -- `index_value = vars[key]; if index_value is None: index_value = 0 if is_start else -1`
          let iv := v.getD (if isStart then 0 else -1)
          (.const iv, (k, iv) :: fixed)
  | a => (a, fixed)

/-- receiver of the subscript: a SQL expression, or a `StringConstMonad` -/
inductive Recv where
  | expr (e : Sql)
  | strConst (s : String)
  deriving Repr, Inhabited, DecidableEq

def Recv.sql : Recv → Sql
  | .expr e => e
  | .strConst s => .strLit s

inductive GRes where
  | whole                              -- `return monad`
  | folded (s : List Char)             -- `ConstMonad.new(monad.value[start_value:stop_value])`
  | node (start stop : Arg)            -- `['STRING_SLICE', expr_sql, start_sql, stop_sql]`
  | substr (idx : Sql)                 -- `['SUBSTR', expr_sql, index_sql, ['VALUE', 1]]`
  | foldedChar (c : Option Char)       -- `ConstMonad.new(monad.value[index.value])` (none = IndexError at translation time)
  deriving Repr, Inhabited, DecidableEq

/-- known value of a bound after pinning: `start_value` / `stop_value` (`none` = not a constant) -/
def knownValue (dflt : Int) : GArg → Option Int
  | .omitted => some dflt
  | .const i => some i
  | _ => none

def GArg.toArg : GArg → Arg
  | .omitted => .omitted
  | .const i => .const i
  | .param _ v => .const (v.getD 0)    -- not reached after paramToConst
  | .expr x => .expr x

/-- the slice branch of `StringMixin.__getitem__` (types already checked to be int) -/
def getitemSlice (recv : Recv) (start stop : GArg) (fixed : Fixed) : GRes × Fixed :=
  let r1 := paramToConst fixed true start
  let r2 := paramToConst r1.2 false stop
  let startValue := knownValue 0 r1.1
  let stopValue := knownValue (-1) r2.1          -- the 'stop omitted' sentinel
  if startValue = some 0 ∧ stopValue = some (-1) then (.whole, r2.2)
  else
    match recv, startValue, stopValue with
    | .strConst s, some a, some b => (.folded (pySlice s.toList (some a) (some b)), r2.2)
    | _, _, _ => (.node r1.1.toArg r2.1.toArg, r2.2)

/-- the index branch of `StringMixin.__getitem__` -/
def getitemIndex (d : Dialect) (recv : Recv) (index : GArg) (fixed : Fixed) : GRes × Fixed :=
  let (ix, f1) := paramToConst fixed true index
  match recv, ix with
  | .strConst s, .const v => (.foldedChar (pyIndex s.toList v), f1)
  | _, .const v => (.substr (indexSql d recv.sql (.const v)), f1)
  | _, .expr x => (.substr (indexSql d recv.sql (.expr x)), f1)
  | _, _ => (.substr (.value 1), f1)      -- not reached: an index is never omitted / an unpinned param

/-- value known at translation time (after pinning): `start_value` / `stop_value` of the original bound -/
def GArg.known (dflt : Int) : GArg → Option Int
  | .omitted => some dflt
  | .const i => some i
  | .param _ v => some (v.getD dflt)
  | .expr _ => none

/-- the bound after `param_to_const` -/
def GArg.pin (dflt : Int) : GArg → GArg
  | .param _ v => .const (v.getD dflt)
  | g => g

/-- the bound as `STRING_SLICE` receives it once parameters are pinned -/
def GArg.asArg (dflt : Int) : GArg → Arg
  | .omitted => .omitted
  | .const i => .const i
  | .param _ v => .const (v.getD dflt)
  | .expr x => .expr x

/-- one key denotes one Python variable -/
def keysConsistent : GArg → GArg → Prop
  | .param k v, .param k' v' => k = k' → v = v'
  | _, _ => True

/-- the Python value a bound denotes.  A variable whose value is None never arrives as a parameter
    (`postSubscript` turns a NoneMonad into an omitted bound). -/
def GArg.denotes (d : Dialect) (env : Env) : GArg → Option Int → Prop
  | .omitted, v => v = none
  | .const c, v => v = some c
  | .param _ pv, v => v = pv ∧ pv ≠ none
  | .expr x, v => ∃ i, eval d env x = .ok (.int i) ∧ v = some i

/-- the same query code run with other parameter values: `vars` gives the new value of every key -/
def GArg.rebind (vars : String → Option Int) : GArg → GArg
  | .param k _ => .param k (vars k)
  | g => g

/-- `Query._get_translator(key, vars)`: the cached translation of this query code is handed out only if every pinned value
    it records equals the parameter's current value (otherwise the query is translated again) -/
def cacheLookup (cached : Option (GRes × Fixed)) (vars : String → Option Int) : Option GRes :=
  match cached with
  | none => none
  | some (r, f) => if f.all (fun kv => vars kv.1 == some kv.2) then some r else none

/-- the "whole string" shortcut of `__getitem__`: `start_value == 0 and stop_value == -1` -/
def shortcut (start stop : GArg) : Prop := start.known 0 = some 0 ∧ stop.known (-1) = some (-1)

instance (start stop : GArg) : Decidable (shortcut start stop) := by unfold shortcut; exact inferInstance

/-- the SQL expression finally built for a `__getitem__` result on dialect `d` (`none` = translation-time IndexError) -/
def GRes.sql (d : Dialect) (recv : Recv) : GRes → Option Sql
  | .whole => some recv.sql
  | .folded s => some (.strLit (String.ofList s))
  | .node a b => some (sliceFor d recv.sql a b)
  | .substr idx => some (.substr3 recv.sql idx (.value 1))
  | .foldedChar (some c) => some (.strLit (String.ofList [c]))
  | .foldedChar none => none

end PonyVerif.Model.SqlStr
