/-
  Engine Q, part 5 (C01): NULL rules of `x in (<subquery>)` / `x not in (<subquery>)` and of the aggregates over a collection.
  SQL side: IN is the Kleene disjunction of the equalities, NOT IN its negation — one NULL among the values makes NOT IN unknown for
  every x that is not found.  Python side: the sub-select yields the values that are present (`None` is not a member of a query
  result), `x in values` / `x not in values` are two-valued.  Pony's rule (`construct_sql_ast(is_not_null_checks=not_in)`,
  `AttrSetMonad._subselect`): add `IS NOT NULL` on the selected expression when it may be NULL.
  Aggregates (`SQLBuilder.SUM`: `coalesce(SUM(x), 0)`; COUNT / MIN / MAX skip NULLs).   Core Lean only.
-/
import PonyVerif.Model.SqlEval
namespace PonyVerif.Model.Q

/-- SQL equality of two possibly NULL integers -/
def eqK : Option Int → Option Int → K
  | some a, some b => K.ofBool (a == b)
  | _, _ => .unk

/-- `v IN (vals)` -/
def sqlIn (v : Option Int) (vals : List (Option Int)) : K := (vals.map (eqK v)).foldl K.or .ff
/-- `v NOT IN (vals)` -/
def sqlNotIn (v : Option Int) (vals : List (Option Int)) : K := (sqlIn v vals).not

/-- the rows of the sub-select after Pony's guard: `WHERE expr IS NOT NULL` when `guard` -/
def subselect (guard : Bool) (vals : List (Option Int)) : List (Option Int) :=
  if guard then vals.filter Option.isSome else vals

/-- Pony's rule as written after 26b85c0 / 90ae63c: a guard is emitted for NOT IN when the selected monad is flagged nullable;
    an attribute-of-collection sub-select (`g.students.tutor`) always guards a non-required non-collection attribute -/
def needsGuard (notIn nullableFlag : Bool) : Bool := notIn && nullableFlag

/-- Python: membership among the values that are present -/
def pyIn (v : Int) (vals : List (Option Int)) : Bool := vals.contains (some v)

/-! ### aggregates over a bag of possibly NULL integers -/

def present (vals : List (Option Int)) : List Int := vals.filterMap id

/-- SQL `SUM(x)`: NULL for no non-NULL input -/
def sqlSum (vals : List (Option Int)) : Option Int :=
  match present vals with
  | [] => none
  | xs => some (xs.foldl (· + ·) 0)
/-- what `SQLBuilder.SUM` emits: `coalesce(SUM(x), 0)` -/
def ponySum (vals : List (Option Int)) : Int := (sqlSum vals).getD 0
/-- SQL `COUNT(x)` -/
def sqlCount (vals : List (Option Int)) : Nat := (present vals).length
/-- SQL `MIN(x)` / `MAX(x)` -/
def sqlMin (vals : List (Option Int)) : Option Int :=
  match present vals with
  | [] => none
  | x :: xs => some (xs.foldl min x)
def sqlMax (vals : List (Option Int)) : Option Int :=
  match present vals with
  | [] => none
  | x :: xs => some (xs.foldl max x)


/-! ### `count(g.students.room)`: distinct values of a (composite) optional reference, SQLite form
    `SELECT COUNT(*) FROM (SELECT DISTINCT a, b FROM … WHERE <outer> AND a IS NOT NULL AND b IS NOT NULL)` -/

def dedupL {α} [DecidableEq α] : List α → List α
  | [] => []
  | x :: xs => if x ∈ dedupL xs then dedupL xs else x :: dedupL xs

/-- the derived table with (`guard`) or without the IS NOT NULL conditions; a missing reference is one all-NULL row value -/
def sqlCountDistinctRows {α} [DecidableEq α] (guard : Bool) (vals : List (Option α)) : Nat :=
  (dedupL (if guard then vals.filter Option.isSome else vals)).length

/-- Python: `len({s.room for s in g.students if s.room is not None})` -/
def pyCountDistinct {α} [DecidableEq α] (vals : List (Option α)) : Nat := (dedupL (vals.filterMap id)).length

end PonyVerif.Model.Q
