/-
  C27 — when is an object that is known only by its primary key (a "seed", created with the class of the reference / collection / query
  column it came through) loaded before it is handed to the user?  Core Lean only.
  The guards are regenerated from pony/orm/core.py on every run (`Gen.LoadGuards`, harness/gen_c27.py): Attribute.get, Set.copy,
  Query._actual_fetch (tuple results), EntityMeta._find_in_cache_.  This file adds, per site, the situation in which the site hands out an
  object (`normal`) and what "still a seed afterwards" means; loading a seed goes through `_parse_row_` + `_get_from_identity_map_`
  (Model.Inherit: `parseRow`, `refine`).
-/
import PonyVerif.Gen.LoadGuards
import PonyVerif.Model.Inherit
namespace PonyVerif.Model.SeedLoad
open PonyVerif.Gen.LoadGuards PonyVerif.Model.Inherit

inductive Site where
  | attrGet       -- `obj.ref` : to-one attribute whose value is an entity instance
  | setCopy       -- iterating / copying a many-to-many collection
  | queryTuple    -- a query returning tuples with an entity-typed column
  | findInCache   -- `Entity[pk]` / `Entity.get(pk)` finding the object in the identity map
  deriving DecidableEq, Repr

def loadGuard : Site → LoadCtx → Bool
  | .attrGet => attrGetLoadGuard
  | .setCopy => setCopyLoadGuard
  | .queryTuple => queryTupleLoadGuard
  | .findInCache => findInCacheLoadGuard

/-- the situation in which the site hands out an entity instance inside a live session -/
def normal : Site → LoadCtx → Bool
  | .attrGet, c => c.notNone && c.isRef && c.alive && c.sessionAlive
  | .setCopy, c => c.manyToMany && c.sessionAlive
  | .queryTuple, c => c.notCached && !c.exprIsEntity && !c.singleColumn && c.isEntity
  | .findInCache, c => c.notNone && (!c.hasSub || c.hasDiscr)      -- an entity with subclasses has a discriminator

/-- is the object still a seed when the site hands it out (`_load_` / `_load_many_` load every seed they are given) -/
def stillSeed (s : Site) (c : LoadCtx) : Bool := c.isSeed && !(loadGuard s c)

/-- the class of the object when it is handed out: it was in the identity map with class `cls` (the declared type of the reference /
    collection / column); its stored class is `r`.  A seed that gets loaded is re-classified by `_get_from_identity_map_` with no bits set;
    an object that was not a seed had been built from its row already. -/
def classAfter (h : Hier) (s : Site) (c : LoadCtx) (cls r : Nat) : Except RefineErr Nat :=
  if stillSeed s c then .ok cls
  else if c.isSeed then h.refine cls r 0 0 true
  else .ok r

/-- the class an object gets when it is built from a FULL row fetched for a query over `entity` (`_fetch_objects` → `_parse_row_` →
    `<class>._get_from_identity_map_`): the two flags are read from the source (`Gen.LoadGuards`) — is the class returned by `_parse_row_`
    the one used, and does `_parse_row_` take it from `code2cls`.  `hasDiscr`: the entity's tree has a discriminator column. -/
def rowClass (h : Hier) (entity : Nat) (hasDiscr : Bool) (rowDiscr : Int) : Option Nat :=
  let parsed := if hasDiscr then (if parseRowUsesCode2cls then h.parseRow rowDiscr else some entity) else some entity
  if fetchObjectsUsesParsedClass then parsed else some entity

end PonyVerif.Model.SeedLoad
