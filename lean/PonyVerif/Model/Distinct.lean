/-
  Engine Q, part 4 (C01): the DISTINCT inference of `SQLTranslator.init` for a projection that is not an entity, over ONE iterated
  entity (`select((<items>) for x in X [if …])`), and what the rows returned are.

  As written (sqltranslation.py, `expr_set` / `_pk_attrs_` loop):  DISTINCT is added unless the entity variable itself is among the
  projected items, or EVERY primary-key attribute of the entity is projected as a plain attribute (`x.k`).
  Documented semantics this realises ("Automatic DISTINCT"): a query returns no duplicates — attribute / expression projections
  are de-duplicated, except where the full key (or the object) is selected and rows therefore cannot repeat.
  Core Lean only.
-/
namespace PonyVerif.Model.Q

/-- one projected item: the entity variable itself, a plain attribute, or any other expression -/
inductive Item
  | entity
  | attr (name : String)
  | expr (id : Nat)
  deriving DecidableEq, Repr, Inhabited

/-- `translator.distinct` after the `expr_set` loop of `SQLTranslator.init` (single `for`, no aggregation) -/
def needsDistinct (pk : List String) (items : List Item) : Bool :=
  !(items.contains .entity) && pk.any (fun k => !(items.contains (.attr k)))

/-- a row: attribute values and the values of the other projected expressions (functions of the row) -/
structure DRow where
  attr : String → Int
  expr : Nat → Int

/-- identity of the object: the values of its primary-key attributes -/
def keyOf (pk : List String) (r : DRow) : List Int := pk.map r.attr

/-- value of one item; the entity variable is represented by its key -/
def itemVal (pk : List String) (r : DRow) : Item → List Int
  | .entity => keyOf pk r
  | .attr n => [r.attr n]
  | .expr i => [r.expr i]

def project (pk : List String) (items : List Item) (r : DRow) : List (List Int) := items.map (itemVal pk r)

def dedup {α} [DecidableEq α] : List α → List α
  | [] => []
  | x :: xs => if x ∈ dedup xs then dedup xs else x :: dedup xs

/-- the rows the SELECT [DISTINCT] returns -/
def selectRows (pk : List String) (items : List Item) (rows : List DRow) : List (List (List Int)) :=
  if needsDistinct pk items then dedup (rows.map (project pk items)) else rows.map (project pk items)

end PonyVerif.Model.Q
