/-
  C31 — hand model of `pony/orm/serialization.py: Bag._reduce_composite_pk`

      def _reduce_composite_pk(bag, pk):
          return ','.join(str(item).replace('*', '**').replace(',', '*,') for item in pk)

  The model works on the `str(item)` texts (a `List String`).  The two `str.replace` calls are modelled as the two
  sequential passes the code performs (first every `*` is doubled, then every `,` gets a `*` in front), `','.join`
  as `joinComma`.  `decodeChars` is a left-to-right LL(1) scanner that inverts the encoding (the code base has no
  decoder; it exists to prove injectivity).  Core Lean only.
-/
namespace PonyVerif.Model.Serial

/-- `s.replace('*', '**')` on the code points of `s` -/
def replStar : List Char → List Char
  | [] => []
  | c :: cs => if c = '*' then '*' :: '*' :: replStar cs else c :: replStar cs

/-- `s.replace(',', '*,')` on the code points of `s` -/
def replComma : List Char → List Char
  | [] => []
  | c :: cs => if c = ',' then '*' :: ',' :: replComma cs else c :: replComma cs

/-- `str(item).replace('*', '**').replace(',', '*,')` — in the order the code applies them -/
def escItem (cs : List Char) : List Char := replComma (replStar cs)

/-- `','.join(parts)` -/
def joinComma : List (List Char) → List Char
  | [] => []
  | [x] => x
  | x :: y :: r => x ++ ',' :: joinComma (y :: r)

def reduceChars (items : List (List Char)) : List Char := joinComma (items.map escItem)

/-- `Bag._reduce_composite_pk` on the `str()` texts of the key parts -/
def reducePk (items : List String) : String := String.ofList (reduceChars (items.map String.toList))

/-- put a decoded character in front of the key part currently being read -/
def pushChar (c : Char) : List (List Char) → List (List Char)
  | [] => [[c]]
  | x :: xs => (c :: x) :: xs

/-- LL(1) decoder as a two-state scanner (`esc` = the previous character was an unconsumed `*`):
    `**` ↦ `*`, `*,` ↦ `,`, a bare `,` starts the next part; a `*` followed by anything else (or by the end of
    the text) is not in the image of the encoder. -/
def decodeGo : Bool → List Char → Option (List (List Char))
  | false, [] => some [[]]
  | true, [] => none
  | false, c :: r =>
    if c = '*' then decodeGo true r
    else if c = ',' then (decodeGo false r).map (fun l => [] :: l)
    else (decodeGo false r).map (pushChar c)
  | true, c :: r => if c = '*' ∨ c = ',' then (decodeGo false r).map (pushChar c) else none

def decodeChars (s : List Char) : Option (List (List Char)) := decodeGo false s

def decodePk (s : String) : Option (List String) := (decodeChars s.toList).map (fun l => l.map String.ofList)

/-- a key as it appears in the output of `Bag.to_dict`: the reduced text, or a bare (un-encoded) column value -/
inductive Key where
  | text (s : String)
  | single (s : String)
  deriving DecidableEq, Repr

/-- `Bag._process_object`, collection branch — what is reported for ONE item of a collection attribute
    (as of /repo 40bed00):

        if len(attr.reverse.entity._pk_columns_) > 1:       # number of pk COLUMNS > 1
            value = sorted(bag._reduce_composite_pk(item._get_raw_pkval_()) for item in value)
        else: value = sorted(item._get_raw_pkval_()[0] for item in value)

    `raw` is `_get_raw_pkval_()` (one entry per pk COLUMN: a pk attribute that references an entity with a composite
    key contributes several entries). -/
def bagCollectionKey (raw : List String) : Option Key :=
  if raw.length > 1 then some (.text (reducePk raw)) else raw.head?.map .single

/-- the test BEFORE 40bed00 (`attr.reverse.entity._pk_is_composite_`: number of pk ATTRIBUTES > 1). Kept only to
    document what the fix repaired; no longer corresponds to any code. -/
def bagCollectionKeyOld (pkAttrs : Nat) (raw : List String) : Option Key :=
  if pkAttrs > 1 then some (.text (reducePk raw)) else raw.head?.map .single

/-- `Bag.to_dict`, dictionary key of an object: the test is `len(entity._pk_columns_) > 1` (number of pk COLUMNS) -/
def bagDictKey (raw : List String) : Option Key :=
  if raw.length > 1 then some (.text (reducePk raw)) else raw.head?.map .single

end PonyVerif.Model.Serial
