/-
  C30 — hand model of `pony/orm/core.py: adapt_sql` (and of `pony/orm/ormtypes.py: parse_raw_sql`) over a TOKEN LIST.

  A raw SQL string is taken as the list of tokens the scanner finds in it:
      `text t`      a run of characters without `$`
      `dollar`      the two characters `$$`
      `expr e semi` `$` followed by the expression text `e` (what `parse_expr` returns, without the optional closing `;`),
                    `semi` = the expression was closed by an explicit `;` (which is consumed)
  Rendering tokens to a string and scanning them back (`str.index('$')`, `parse_expr` with its three regexes) is
  MODELLED, not proved: the differential run ties it.

  Mirrored as written:
  * for `format` / `pyformat` the literal text chunks appended to `result` go through `text(s) = s.replace('%', '%%')`
    (`pre`); the statement itself is scanned unmodified, so expression texts are never doubled (since 252a0a9);
  * the loop with its three accumulators `result`, `args`, `kwargs`; the key `'p%d' % (len(kwargs) + 1)`; `':%d' % len(args)`;
  * `if args or kwargs:` … `else: adapted_sql = original_sql.replace('$$', '$')` (the ORIGINAL text: no doubling without parameters);
  * the module cache `adapted_sql_cache`: looked up with `(sql, paramstyle)`, stored with `(original_sql, paramstyle)`.
    The cache of the model is keyed by the token list (the string it renders to); `storeKey` is a parameter so that the
    pre-fix variant (stored under the `%`-doubled text) can be stated too.
  Core Lean only.
-/
namespace PonyVerif.Model.RawSql

inductive Style where
  | qmark | format | numeric | named | pyformat
  deriving DecidableEq, Repr

inductive Tok where
  | text (t : List Char)
  | dollar
  | expr (e : List Char) (semi : Bool)
  deriving DecidableEq, Repr

/-- the string a token list stands for -/
def renderTok : Tok → List Char
  | .text t => t
  | .dollar => ['$', '$']
  | .expr e semi => '$' :: e ++ (if semi then [';'] else [])

def render (toks : List Tok) : List Char := (toks.map renderTok).flatten

/-- `s.replace('%', '%%')` -/
def dbl : List Char → List Char
  | [] => []
  | c :: cs => if c = '%' then '%' :: '%' :: dbl cs else c :: dbl cs

def Style.percent : Style → Bool
  | .format | .pyformat => true
  | _ => false

/-- `text(s)`: what happens to a literal chunk of the statement -/
def pre (style : Style) (cs : List Char) : List Char := if style.percent then dbl cs else cs

/-- the digit character of d < 10 -/
def digit (d : Nat) : Char :=
  match d with
  | 0 => '0' | 1 => '1' | 2 => '2' | 3 => '3' | 4 => '4' | 5 => '5' | 6 => '6' | 7 => '7' | 8 => '8' | _ => '9'

/-- decimal digits of a natural number (`'%d' % n`) -/
def natDigits (n : Nat) : List Char :=
  if n < 10 then [digit n] else natDigits (n / 10) ++ [digit (n % 10)]
termination_by n
decreasing_by omega

/-- the dict key `'p%d' % n` as text -/
def keyText (n : Nat) : List Char := 'p' :: natDigits n

/-- the loop state: `result` (in order), `args`, `kwargs` (an insertion-ordered dict; keys are the numbers n of `'p%d' % n`) -/
structure St where
  result : List (List Char)
  args : List (List Char)
  kwargs : List (Nat × List Char)
  deriving Repr

/-- `kwargs[key] = expr` on an insertion-ordered dict -/
def dictSet (d : List (Nat × List Char)) (k : Nat) (v : List Char) : List (Nat × List Char) :=
  if d.any (fun kv => kv.1 == k) then d.map (fun kv => if kv.1 == k then (k, v) else kv) else d ++ [(k, v)]

/-- one iteration of the `while True` loop -/
def step (style : Style) (st : St) : Tok → St
  | .text t => { st with result := st.result ++ [pre style t] }
  | .dollar => { st with result := st.result ++ [['$']] }
  | .expr e _ =>
    let expr := e                                  -- the expression text as written; the closing `;` is cut off
    match style with
    | .qmark => { st with args := st.args ++ [expr], result := st.result ++ [['?']] }
    | .format => { st with args := st.args ++ [expr], result := st.result ++ [['%', 's']] }
    | .numeric =>
      let args := st.args ++ [expr]
      { st with args := args, result := st.result ++ [':' :: natDigits args.length] }
    | .named =>
      let key := st.kwargs.length + 1
      { st with kwargs := dictSet st.kwargs key expr, result := st.result ++ [':' :: keyText key] }
    | .pyformat =>
      let key := st.kwargs.length + 1
      { st with kwargs := dictSet st.kwargs key expr, result := st.result ++ ['%' :: '(' :: keyText key ++ [')', 's']] }

/-- the source of the arguments expression: `None`, `(e1, e2, …,)` or `{'p1':e1,'p2':e2,…}` -/
inductive Source where
  | none
  | tuple (exprs : List (List Char))
  | dict (items : List (Nat × List Char))
  deriving DecidableEq, Repr

structure Adapted where
  sql : List Char
  source : Source
  deriving DecidableEq, Repr

/-- `original_sql.replace('$$', '$')` on a statement without expressions -/
def undollarTok : Tok → List Char
  | .text t => t
  | .dollar => ['$']
  | .expr e semi => '$' :: e ++ (if semi then [';'] else [])     -- not reached: there are no parameters in this branch

def undollar (toks : List Tok) : List Char := (toks.map undollarTok).flatten

/-- `adapt_sql(sql, paramstyle)` on a cold cache -/
def adaptCold (style : Style) (toks : List Tok) : Adapted :=
  let st := toks.foldl (step style) { result := [], args := [], kwargs := [] }
  if !st.args.isEmpty || !st.kwargs.isEmpty then
    { sql := st.result.flatten,
      source := if !st.args.isEmpty then .tuple st.args else .dict st.kwargs }
  else
    { sql := undollar toks, source := .none }

/-! ### the module cache -/

abbrev Key := List Tok × Style
abbrev ACache := List (Key × Adapted)

/-- the text the code before de506b3 stored under: the statement after a whole-statement `replace('%', '%%')` -/
def preTok (style : Style) : Tok → Tok
  | .text t => .text (pre style t)
  | .dollar => .dollar
  | .expr e semi => .expr (pre style e) semi

/-- the key as coded now: `(original_sql, paramstyle)` -/
def storeKeyNow (toks : List Tok) (style : Style) : Key := (toks, style)
/-- the key before de506b3: `(sql, paramstyle)` AFTER `sql = sql.replace('%', '%%')` -/
def storeKeyOld (toks : List Tok) (style : Style) : Key := (toks.map (preTok style), style)

/-- `adapt_sql` with `adapted_sql_cache` threaded through -/
def adaptWith (storeKey : List Tok → Style → Key) (c : ACache) (toks : List Tok) (style : Style) : Adapted × ACache :=
  match c.lookup (toks, style) with                -- `adapted_sql_cache.get((sql, paramstyle))`
  | some r => (r, c)
  | none =>
    let r := adaptCold style toks
    (r, (storeKey toks style, r) :: c)             -- `adapted_sql_cache[(original_sql, paramstyle)] = result`

def adaptC := adaptWith storeKeyNow

/-- a process history: the results of a sequence of `adapt_sql` calls -/
def runWith (storeKey : List Tok → Style → Key) : ACache → List (List Tok × Style) → List Adapted
  | _, [] => []
  | c, (toks, style) :: rest =>
    let (r, c1) := adaptWith storeKey c toks style
    r :: runWith storeKey c1 rest

def run := runWith storeKeyNow

/-! ### `raw_sql()` inside a query: the translator cache

A query is translated once per cache key and the translator keeps, for every `$`-parameter of a `raw_sql()` fragment, the
converter chosen for the Python type the parameter had at translation time (`RawSQLMonad.getsql`:
`provider.get_converter_by_py_type(param_type)`).  The fragment enters the key as a `RawSQLType`, whose `__eq__` /
`__hash__` compare `sql` AND `types`.  The model: a run is (fragment, parameter types); a translator is the list of
types its converters were chosen for; the answer of a run is the list of converters its values are bound through. -/

inductive PyType where
  | int | str | decimal | uuid | datetime | date | bool | float | none
  deriving DecidableEq, Repr

abbrev QKey := List Tok × List PyType

/-- `RawSQLType.__eq__` as coded: `self.sql == other.sql and self.types == other.types` -/
def qkeyAsCoded (toks : List Tok) (types : List PyType) : QKey := (toks, types)
/-- a key that forgets the parameter types (NOT the code; used to show the theorem is sensitive) -/
def qkeyWithoutTypes (toks : List Tok) (_ : List PyType) : QKey := (toks, [])

/-- one execution of the query: the converters the parameter values are bound through, and the cache afterwards -/
def queryWith (keyOf : List Tok → List PyType → QKey) (c : List (QKey × List PyType)) (toks : List Tok) (types : List PyType) :
    List PyType × List (QKey × List PyType) :=
  match c.lookup (keyOf toks types) with
  | some conv => (conv, c)                               -- the cached translator with ITS converters
  | none => (types, (keyOf toks types, types) :: c)      -- translate now: converters for the current types

def runQueries (keyOf : List Tok → List PyType → QKey) :
    List (QKey × List PyType) → List (List Tok × List PyType) → List (List PyType)
  | _, [] => []
  | c, (toks, types) :: rest =>
    let (r, c1) := queryWith keyOf c toks types
    r :: runQueries keyOf c1 rest

/-! ### what the DB-API does with the adapted statement (format / pyformat): Python's `sql % args` -/

/-- a character of the final statement: a literal character or a bound value -/
inductive Out (V : Type) where
  | ch (c : Char)
  | val (v : V)
  deriving Repr

/-- `sql % args` for a tuple: `%%` ↦ `%`, `%s` ↦ the next argument; anything else after `%` is an error, and so are
    left-over arguments ("not all arguments converted") -/
def expandFormat {V : Type} : List Char → List V → Option (List (Out V))
  | [], vs => if vs.isEmpty then some [] else none
  | [c], vs => if c = '%' then none else if vs.isEmpty then some [Out.ch c] else none
  | c :: c2 :: r, vs =>
    if c = '%' then
      if c2 = '%' then (expandFormat r vs).map (Out.ch '%' :: ·)
      else if c2 = 's' then
        match vs with
        | v :: vs' => (expandFormat r vs').map (Out.val v :: ·)
        | [] => none
      else none
    else (expandFormat (c2 :: r) vs).map (Out.ch c :: ·)

/-- read decimal digits -/
def parseNat (cs : List Char) : Nat := cs.foldl (fun acc c => acc * 10 + (c.toNat - 48)) 0

/-- scanner states of `sql % dict` -/
inductive PState where
  | normal
  | pct                          -- just read `%`
  | key (acc : List Char)        -- inside `%( … `
  | close (key : List Char)      -- just read the `)`

/-- `sql % args` for a dict: `%%` ↦ `%`, `%(pN)s` ↦ `args['pN']`; anything else after `%` is an error -/
def expandPyformat {V : Type} (lookup : Nat → Option V) : PState → List Char → Option (List (Out V))
  | .normal, [] => some []
  | _, [] => none
  | .normal, c :: r => if c = '%' then expandPyformat lookup .pct r else (expandPyformat lookup .normal r).map (Out.ch c :: ·)
  | .pct, c :: r =>
    if c = '%' then (expandPyformat lookup .normal r).map (Out.ch '%' :: ·)
    else if c = '(' then expandPyformat lookup (.key []) r else none
  | .key acc, c :: r => if c = ')' then expandPyformat lookup (.close acc) r else expandPyformat lookup (.key (acc ++ [c])) r
  | .close key, c :: r =>
    if c = 's' then
      match key with
      | k0 :: ds =>
        if k0 = 'p' then
          match lookup (parseNat ds) with
          | some v => (expandPyformat lookup .normal r).map (Out.val v :: ·)
          | none => none
        else none
      | [] => none
    else none

/-! ### `parse_raw_sql` (fragments passed to `raw_sql()`) -/

inductive RawItem where
  | str (s : List Char)            -- passed to the SQL builder verbatim
  | param (e : List Char)          -- `(expr, code)`: evaluated in the caller's scope when `RawSQL` is built
  deriving DecidableEq, Repr

def rawItem : Tok → RawItem
  | .text t => .str t
  | .dollar => .str ['$']
  | .expr e _ => .param e

/-- `parse_raw_sql(sql)` → `(items, codes)`: the items in order, the expression texts in order -/
def parseRaw (toks : List Tok) : List RawItem × List (List Char) :=
  (toks.map rawItem, toks.filterMap (fun t => match t with | .expr e _ => some e | _ => none))

/-- `RawSQLMonad.getsql`: strings stay, the i-th expression becomes `['PARAM', (varkey, i, None), converter]` -/
inductive RawAst where
  | str (s : List Char)
  | param (i : Nat)
  deriving DecidableEq, Repr

def rawAst : Nat → List RawItem → List RawAst
  | _, [] => []
  | i, .str s :: r => .str s :: rawAst i r
  | i, .param _ :: r => .param i :: rawAst (i + 1) r

/-- numbering the parameters by DISTINCT expression text (NOT the code: `RawSQLMonad.getsql` counts occurrences, as
    `parse_raw_sql` / `RawSQL.__init__` keep one code object and one value per occurrence); used to show that the
    numbering theorem is sensitive -/
def rawAstByText : List (List Char) → List RawItem → List RawAst
  | _, [] => []
  | seen, .str s :: r => .str s :: rawAstByText seen r
  | seen, .param e :: r =>
    if seen.contains e then .param (seen.idxOf e) :: rawAstByText seen r
    else .param seen.length :: rawAstByText (seen ++ [e]) r

end PonyVerif.Model.RawSql
