/-
  Engine Q, part 2 (shared by C01 and C02): the expression fragment, its Python reading, and Pony's monad translation.

  `Expr`     conditions / projections over ONE entity: attributes (nullable or not; int, bool, str), constants, parameters,
             comparisons (`== != < <= > >= is is-not`, `in`/`not in` a constant list), `and or not`, truth tests,
             `+ - *`, unary minus, `abs`, string `+`, `len`, `pat in s` / `pat not in s` / `s.startswith(pat)` / `s.endswith(pat)`
             with constant patterns, conditional expressions.
  `py`       Python evaluation with the two conventions of the property: a comparison with a missing operand is *unknown*;
             a missing value is *false* in a truth test (a row is selected iff the condition is *true*).
             Arithmetic / concatenation / len of a missing value is missing (SQL NULL propagation).
  `tr`       `pony/orm/sqltranslation.py` AS WRITTEN: the monad each AST node gets (class family, type, `nullable` flag, SQL):
             `CmpMonad.__init__` (None rewriting, `check_comparable`, `coerce_monads` with PostgreSQL `TO_INT`), `cmp_negate`,
             `NumericMixin.nonzero/negate`, `StringMixin.nonzero/negate` (AttrMonad: `OR … IS NULL`; other nullable monads: COALESCE;
             PostgreSQL bool special cases), `LogicalBinOpMonad` flattening, `NotMonad`, `BoolExprMonad.negate` through `sql_negation`,
             `ListMonad.contains`, `StringMixin._like` (constant path), `make_numeric_binop`, `make_string_binop`, `__neg__`, `abs`, `len`,
             `postIfExp` (including the AttributeError it raises for an `int` test), and the top-level rule of
             `SQLTranslator.init` (`nonzero()` if not bool; an `AndMonad` contributes one WHERE condition per operand).
  Oracle (''=NULL) is outside this model.   Core Lean only.
-/
import PonyVerif.Model.SqlEval
namespace PonyVerif.Model.Q

inductive Ty | int | bool | str
  deriving DecidableEq, Repr, Inhabited

/-- attribute table of the entity and types of the query parameters (`vartypes`) -/
structure Schema where
  attr : String → Option (Ty × Bool)      -- type, nullable
  par : String → Option Ty

inductive Scalar
  | int (i : Int)
  | str (s : String)
  | bool (b : Bool)
  deriving DecidableEq, Repr, Inhabited

/-- Python comparison operators other than `in` -/
inductive POp | eq | ne | lt | le | gt | ge | is_ | isNot
  deriving DecidableEq, Repr, Inhabited

inductive LikeKind | contains | startswith | endswith
  deriving DecidableEq, Repr, Inhabited

inductive Expr
  | attr (name : String)                                      -- e.name
  | cInt (i : Int) | cStr (s : String) | cBool (b : Bool) | cNone
  | param (name : String)                                     -- external expression (never None; None is `cNone`)
  | cmp (op : POp) (l r : Expr)
  | inList (neg : Bool) (x : Expr) (items : List Lit)         -- x in (c1, …) / x not in (c1, …)
  | like (k : LikeKind) (neg : Bool) (pat : String) (x : Expr) -- pat in x / pat not in x / x.startswith(pat) / x.endswith(pat)
  | and (l r : Expr) | or (l r : Expr) | not (x : Expr)
  | bin (op : ArOp) (l r : Expr)
  | neg (x : Expr) | abs (x : Expr) | len (x : Expr)
  | ite (c t e : Expr)                                        -- t if c else e
  deriving Repr, Inhabited

/-! ## Python reading -/

/-- the objects of the entity (one row) and the parameter values, as Python sees them -/
structure PEnv where
  col : String → Option Scalar
  par : String → Scalar

/-- result of evaluating an expression: a (possibly missing) value, or the three-valued outcome of a condition -/
inductive PyR
  | val (v : Option Scalar)
  | cond (k : K)
  deriving DecidableEq, Repr, Inhabited

def truthS : Scalar → Bool
  | .int i => i != 0
  | .str s => s != ""
  | .bool b => b

/-- truth test: a missing value is false -/
def PyR.asK : PyR → K
  | .val none => .ff
  | .val (some s) => K.ofBool (truthS s)
  | .cond k => k

/-- a condition used as a value (unknown = missing) -/
def PyR.asV : PyR → Option Scalar
  | .val v => v
  | .cond .tt => some (.bool true)
  | .cond .ff => some (.bool false)
  | .cond .unk => none

def POp.cmp? : POp → Option CmpOp
  | .eq => some .eq | .ne => some .ne | .lt => some .lt | .le => some .le | .gt => some .gt | .ge => some .ge
  | .is_ => some .eq | .isNot => some .ne

/-- Python comparison of two present values (`True == 1`; a number never equals a string; ordering a number against a string
    is a TypeError in Python — unknown here, and outside the fragment) -/
def pyCmp (op : CmpOp) : Scalar → Scalar → K
  | .str x, .str y => K.ofBool (cmpStr op x y)
  | .int x, .int y => K.ofBool (cmpInt op x y)
  | .int x, .bool y => K.ofBool (cmpInt op x (boolInt y))
  | .bool x, .int y => K.ofBool (cmpInt op (boolInt x) y)
  | .bool x, .bool y => K.ofBool (cmpInt op (boolInt x) (boolInt y))
  | _, _ => match op with
    | .eq => .ff
    | .ne => .tt
    | _ => .unk

def litScalar : Lit → Option Scalar
  | .null => none
  | .int i => some (.int i)
  | .str s => some (.str s)
  | .bool b => some (.bool b)

/-- `a == item` for every item, joined by `or` (an empty list: false) -/
def pyInList (a : Option Scalar) (items : List Lit) : K :=
  (items.map (fun it => match a, litScalar it with
    | some x, some y => pyCmp .eq x y
    | _, _ => K.unk)).foldl K.or .ff

def containsL (x : List Char) : List Char → Bool
  | [] => x.isEmpty
  | c :: s => x.isPrefixOf (c :: s) || containsL x s

/-- Python's `pat in s`, `s.startswith(pat)`, `s.endswith(pat)` -/
def pyLike : LikeKind → String → String → Bool
  | .contains, pat, s => containsL pat.toList s.toList
  | .startswith, pat, s => pat.toList.isPrefixOf s.toList
  | .endswith, pat, s => pat.toList.reverse.isPrefixOf s.toList.reverse

def numOf : Scalar → Option Int
  | .int i => some i
  | .bool b => some (boolInt b)
  | .str _ => none

def pyBin (op : ArOp) : Option Scalar → Option Scalar → Option Scalar
  | some (.str x), some (.str y) => match op with
    | .add => some (.str (x ++ y))
    | _ => none
  | some a, some b => match numOf a, numOf b with
    | some x, some y => some (.int (arInt op x y))
    | _, _ => none
  | _, _ => none

def isNoneLit : Expr → Bool
  | .cNone => true
  | _ => false

def py (env : PEnv) : Expr → PyR
  | .attr n => .val (env.col n)
  | .cInt i => .val (some (.int i))
  | .cStr s => .val (some (.str s))
  | .cBool b => .val (some (.bool b))
  | .cNone => .val none
  | .param n => .val (some (env.par n))
  | .cmp op l r =>
      if isNoneLit r then
        (match op with
          | .eq => .cond (K.ofBool ((py env l).asV == none))
          | .is_ => .cond (K.ofBool ((py env l).asV == none))
          | .ne => .cond (K.ofBool ((py env l).asV != none))
          | .isNot => .cond (K.ofBool ((py env l).asV != none))
          | _ => .cond .unk)
      else if isNoneLit l then
        (match op with
          | .eq => .cond (K.ofBool ((py env r).asV == none))
          | .is_ => .cond (K.ofBool ((py env r).asV == none))
          | .ne => .cond (K.ofBool ((py env r).asV != none))
          | .isNot => .cond (K.ofBool ((py env r).asV != none))
          | _ => .cond .unk)
      else
        match op.cmp?, (py env l).asV, (py env r).asV with
        | some o, some a, some b => .cond (pyCmp o a b)
        | _, _, _ => .cond .unk
  | .inList ng x items =>
      let k := pyInList (py env x).asV items
      .cond (if ng then k.not else k)
  | .like kd ng pat x =>
      match (py env x).asV with
      | some (.str s) => let k := K.ofBool (pyLike kd pat s); .cond (if ng then k.not else k)
      | _ => .cond .unk
  | .and l r => .cond ((py env l).asK.and (py env r).asK)
  | .or l r => .cond ((py env l).asK.or (py env r).asK)
  | .not x => .cond (py env x).asK.not
  | .bin op l r => .val (pyBin op (py env l).asV (py env r).asV)
  | .neg x => .val (match (py env x).asV with
      | some a => (numOf a).map (fun i => .int (-i))
      | none => none)
  | .abs x => .val (match (py env x).asV with
      | some a => (numOf a).map (fun i => .int (Int.ofNat i.natAbs))
      | none => none)
  | .len x => .val (match (py env x).asV with
      | some (.str s) => some (.int s.length)
      | _ => none)
  | .ite c t e => if (py env c).asK == .tt then py env t else py env e

/-- the row is selected -/
def pySelected (env : PEnv) (e : Expr) : Bool := (py env e).asK == .tt

/-! ## Pony's monads -/

inductive TrErr | typeError | attributeError | notImplemented
  deriving DecidableEq, Repr, Inhabited

/-- class family of a value monad (`isinstance(monad, AttrMonad)` matters for the NULL handling of `negate` and `_like`) -/
inductive MCls | attr | expr | const | param
  deriving DecidableEq, Repr, Inhabited

/-- `monad.type` -/
inductive MTy | int | bool | str | none
  deriving DecidableEq, Repr, Inhabited

def MTy.ofTy : Ty → MTy
  | .int => .int | .bool => .bool | .str => .str

inductive Monad
  | val (cls : MCls) (ty : Ty) (nullable : Bool) (sql : Sql)     -- Numeric*/String* Attr/Expr/Const/Param monad
  | noneM                                                        -- NoneMonad
  | cmp (op : POp) (l r : Sql) (nullable : Bool)                 -- CmpMonad after __init__ (for is / is not: `l` is tested)
  | bexpr (sql : Sql) (nullable : Bool)                          -- BoolExprMonad
  | land (ops : SqlList) (nullable : Bool)                       -- AndMonad (SQL of the flattened operands)
  | lor (ops : SqlList) (nullable : Bool)                        -- OrMonad
  | lnot (m : Monad)                                             -- NotMonad
  deriving Inhabited

def Monad.ty : Monad → MTy
  | .val _ t _ _ => MTy.ofTy t
  | .noneM => .none
  | _ => .bool

def Monad.nullable : Monad → Bool
  | .val _ _ n _ => n
  | .noneM => true
  | .cmp _ _ _ n => n
  | .bexpr _ n => n
  | .land _ n => n
  | .lor _ n => n
  | .lnot m => m.nullable

def cmpSql (op : POp) (l r : Sql) : Sql :=
  match op with
  | .is_ => .isNull l
  | .isNot => .isNotNull l
  | .eq => .cmp .eq l r | .ne => .cmp .ne l r | .lt => .cmp .lt l r
  | .le => .cmp .le l r | .gt => .cmp .gt l r | .ge => .cmp .ge l r

/-- `monad.getsql()[0]` -/
def Monad.getsql : Monad → Sql
  | .val _ _ _ s => s
  | .noneM => .value .null
  | .cmp op l r _ => cmpSql op l r
  | .bexpr s _ => s
  | .land ops _ => .and ops
  | .lor ops _ => .or ops
  | .lnot m => .not m.getsql

def zeroOf (t : Ty) : Lit :=
  match t with
  | .str => .str ""
  | _ => .int 0

/-- `NumericMixin.nonzero` / `StringMixin.nonzero` / `BoolMonad.nonzero` / `NoneMonad.nonzero` -/
def nonzero (d : Dialect) : Monad → Monad
  | .val _ t _ sql =>
      match t with
      | .str => .bexpr (.cmp .ne sql (.value (.str ""))) false
      | .bool => .bexpr (if d.isPg then sql else .cmp .ne sql (.value (.int 0))) false
      | .int => .bexpr (.cmp .ne sql (.value (.int 0))) false
  | .noneM => .noneM
  | m => m

def POp.negate : POp → POp
  | .lt => .ge | .ge => .lt | .le => .gt | .gt => .le | .eq => .ne | .ne => .eq | .is_ => .isNot | .isNot => .is_

/-- `postNot`: `operand.monad.negate()` — `NumericMixin.negate`, `StringMixin.negate`, `CmpMonad.negate`, `BoolExprMonad.negate`
    (through `sql_negation`), `NotMonad.negate`, `Monad.negate` (a `NotMonad` around And/Or), `NoneMonad.negate` -/
def negate (d : Dialect) : Monad → Monad
  | .val cls t nullable sql =>
      match t with
      | .str =>
          let r := Sql.cmp .eq sql (.value (.str ""))
          .bexpr (if nullable then
                    (if cls == .attr then .or (.cons r (.cons (.isNull sql) .nil))
                     else .cmp .eq (.coalesce sql (.value (.str ""))) (.value (.str "")))
                  else r) false
      | .bool =>
          if d.isPg then
            .bexpr (if nullable then
                      (if cls == .attr then .or (.cons (.not sql) (.cons (.isNull sql) .nil))
                       else .not (.coalesce sql (.value (.bool false))))
                    else .not sql) false
          else
            .bexpr (if nullable then
                      (if cls == .attr then .or (.cons (.cmp .eq sql (.value (.int 0))) (.cons (.isNull sql) .nil))
                       else .cmp .eq (.coalesce sql (.value (.int 0))) (.value (.int 0)))
                    else .cmp .eq sql (.value (.int 0))) false
      | .int =>
          .bexpr (if nullable then
                    (if cls == .attr then .or (.cons (.cmp .eq sql (.value (.int 0))) (.cons (.isNull sql) .nil))
                     else .cmp .eq (.coalesce sql (.value (.int 0))) (.value (.int 0)))
                  else .cmp .eq sql (.value (.int 0))) false
  | .noneM => .noneM
  | .cmp op l r n => .cmp op.negate l r n
  | .bexpr sql n =>
      match sql with
      | .inList ng a items => .bexpr (.inList (!ng) a items) n
      | .like ng a p e => .bexpr (.like (!ng) a p e) n
      | .isNull a => .bexpr (.isNotNull a) n
      | .isNotNull a => .bexpr (.isNull a) n
      | s => .lnot (.bexpr s n)
  | .land ops n => .lnot (.land ops n)
  | .lor ops n => .lnot (.lor ops n)
  | .lnot m => m

/-- operand of `and` / `or` / `if`-test / a whole condition: `if monad.type is not bool: monad = monad.nonzero()` -/
def condOf (d : Dialect) (m : Monad) : Monad :=
  if m.ty == .bool then m else nonzero d m

/-- `are_comparable_types(t1, t2, op)` on the types of the fragment -/
def comparable (t1 t2 : MTy) (op : POp) : Bool :=
  match op with
  | .is_ => t2 == .none
  | .isNot => t2 == .none
  | .eq => !(t1 == .none && t2 == .none)
  | .ne => !(t1 == .none && t2 == .none)
  | _ =>
    match t1, t2 with
    | .none, _ => false
    | _, .none => false
    | .str, .str => true
    | .str, _ => false
    | _, .str => false
    | _, _ => true

/-- `coerce_monads(m1, m2, for_comparison=True)`: SQL of the two operands (PostgreSQL casts a bool operand compared with an int) -/
def coerceCmp (d : Dialect) (t1 t2 : MTy) (s1 s2 : Sql) : Sql × Sql :=
  if d.isPg && ((t1 == .bool && t2 == .int) || (t1 == .int && t2 == .bool)) then
    ((if t1 == .bool then .toInt s1 else s1), (if t2 == .bool then .toInt s2 else s2))
  else (s1, s2)

/-- `CmpMonad.__init__` -/
def cmpInit (d : Dialect) (op : POp) (l r : Monad) : Except TrErr Monad :=
  let (l, r) := if l.ty == .none then (r, l) else (l, r)
  let op := if r.ty == .none then (match op with | .eq => .is_ | .ne => .isNot | o => o)
            else (match op with | .is_ => .eq | .isNot => .ne | o => o)
  if !comparable l.ty r.ty op then .error .typeError
  else
    let (sl, sr) := coerceCmp d l.ty r.ty l.getsql r.getsql
    .ok (.cmp op sl sr (l.nullable || r.nullable))

/-- operands of a `LogicalBinOpMonad` contributed by one (already `condOf`-ed) operand -/
def flatAnd : Monad → SqlList
  | .land ops _ => ops
  | m => .cons m.getsql .nil

def flatOr : Monad → SqlList
  | .lor ops _ => ops
  | m => .cons m.getsql .nil

def litTy : Lit → MTy
  | .null => .none | .int _ => .int | .str _ => .str | .bool _ => .bool

def litsSql : List Lit → SqlList
  | [] => .nil
  | l :: t => .cons (.value l) (litsSql t)

/-- `value.replace('!', '!!').replace('%', '!%').replace('_', '!_')` -/
def escapeLike : List Char → List Char
  | [] => []
  | c :: s => if c = '!' ∨ c = '%' ∨ c = '_' then '!' :: c :: escapeLike s else c :: escapeLike s

def likeEsc (pat : String) : Bool := pat.toList.contains '%' || pat.toList.contains '_'

/-- the pattern `StringMixin._like` builds for a string constant -/
def likePattern (k : LikeKind) (pat : String) : String :=
  let v := if likeEsc pat then String.ofList (escapeLike pat.toList) else pat
  match k with
  | .contains => "%" ++ v ++ "%"
  | .startswith => v ++ "%"
  | .endswith => "%" ++ v

/-- result type of `coerce_types` on numeric types, and the operand SQL after `coerce_monads(m1, m2)` (not for comparison) -/
def coerceNum (d : Dialect) (t1 t2 : Ty) (s1 s2 : Sql) : Ty × Sql × Sql :=
  let rt : Ty := if t1 == .bool && t2 == .bool then .bool else .int
  if d.isPg && (t1 == .bool || t2 == .bool) then
    (.int, (if t1 == .bool then .toInt s1 else s1), (if t2 == .bool then .toInt s2 else s2))
  else (rt, s1, s2)

def tr (sch : Schema) (d : Dialect) : Expr → Except TrErr Monad
  | .attr n =>
      match sch.attr n with
      | some (t, nl) => .ok (.val .attr t nl (.column n))
      | none => .error .attributeError
  | .cInt i => .ok (.val .const .int false (.value (.int i)))
  | .cStr s => .ok (.val .const .str false (.value (.str s)))
  | .cBool b => .ok (.val .const .bool false (.value (.bool b)))
  | .cNone => .ok .noneM
  | .param n =>
      match sch.par n with
      | some t => .ok (.val .param t false (.param n))
      | none => .error .notImplemented
  | .cmp op l r =>
      match tr sch d l, tr sch d r with
      | .ok ml, .ok mr => cmpInit d op ml mr
      | .error e, _ => .error e
      | _, .error e => .error e
  | .inList ng x items =>
      match tr sch d x with
      | .ok mx =>
          if items.all (fun it => comparable mx.ty (litTy it) .eq) then
            .ok (.bexpr (.inList ng mx.getsql (litsSql items)) (mx.nullable || items.any (fun it => it == .null)))
          else .error .typeError
      | .error e => .error e
  | .like k ng pat x =>
      match tr sch d x with
      | .ok (.val cls .str nullable sql) =>
          let sql' := if ng && nullable && cls != .attr then Sql.coalesce sql (.value (.str "")) else sql
          let r := Sql.like ng sql' (likePattern k pat) (likeEsc pat)
          .ok (.bexpr (if ng && nullable && cls == .attr then .or (.cons r (.cons (.isNull sql') .nil)) else r) ng)
      | .ok .noneM => .ok .noneM
      | .ok (.val _ _ _ _) => .error (if k == .contains then .typeError else .attributeError)
      | .ok _ => .error (if k == .contains then .typeError else .attributeError)
      | .error e => .error e
  | .and l r =>
      match tr sch d l, tr sch d r with
      | .ok ml, .ok mr =>
          let a := condOf d ml; let b := condOf d mr
          .ok (.land ((flatAnd a).append (flatAnd b)) (a.nullable || b.nullable))
      | .error e, _ => .error e
      | _, .error e => .error e
  | .or l r =>
      match tr sch d l, tr sch d r with
      | .ok ml, .ok mr =>
          let a := condOf d ml; let b := condOf d mr
          .ok (.lor ((flatOr a).append (flatOr b)) (a.nullable || b.nullable))
      | .error e, _ => .error e
      | _, .error e => .error e
  | .not x =>
      match tr sch d x with
      | .ok m => .ok (negate d m)
      | .error e => .error e
  | .bin op l r =>
      match tr sch d l, tr sch d r with
      | .ok .noneM, .ok _ => .ok .noneM
      | .ok (.val _ .str n1 s1), .ok mr =>
          (match op, mr with
            | .add, .val _ .str n2 s2 => .ok (.val .expr .str (n1 || n2) (.concat s1 s2))
            | _, _ => .error .typeError)
      | .ok (.val _ t1 _ s1), .ok mr =>
          (match mr.ty with
            | .int =>
                let (rt, a, b) := coerceNum d t1 .int s1 mr.getsql
                .ok (.val .expr rt true (.ar op a b))
            | .bool =>
                let (rt, a, b) := coerceNum d t1 .bool s1 mr.getsql
                .ok (.val .expr rt true (.ar op a b))
            | _ => .error .typeError)
      | .ok _, .ok _ => .error .typeError
      | .error e, _ => .error e
      | _, .error e => .error e
  | .neg x =>
      match tr sch d x with
      | .ok .noneM => .ok .noneM
      | .ok (.val _ .str _ _) => .error .typeError
      | .ok (.val _ t n s) => .ok (.val .expr t n (.neg s))
      | .ok _ => .error .typeError
      | .error e => .error e
  | .abs x =>
      match tr sch d x with
      | .ok .noneM => .ok .noneM
      | .ok (.val _ .str _ _) => .error .typeError
      | .ok (.val _ t n s) => .ok (.val .expr t n (.abs s))
      | .ok _ => .error .typeError
      | .error e => .error e
  | .len x =>
      match tr sch d x with
      | .ok .noneM => .ok .noneM
      | .ok (.val _ .str _ s) => .ok (.val .expr .int true (.length s))
      | .ok _ => .error .typeError
      | .error e => .error e
  | .ite c t e =>
      match tr sch d c, tr sch d t, tr sch d e with
      | .ok mc, .ok mt, .ok me =>
          (match mc with
            | .val _ .int _ _ => .error .attributeError      -- NumericMixin.nonzero() result has no `aggregated`
            | .noneM => .error .attributeError               -- NoneMonad() likewise
            | _ =>
              let test := condOf d mc
              match mt.ty, me.ty with
              | .none, _ => .error .notImplemented
              | _, .none => .error .notImplemented
              | .str, .str => .ok (.val .expr .str (test.nullable || mt.nullable || me.nullable) (.case test.getsql mt.getsql me.getsql))
              | .str, _ => .error .notImplemented
              | _, .str => .error .notImplemented
              | .bool, .bool => .ok (.val .expr .bool (test.nullable || mt.nullable || me.nullable) (.case test.getsql mt.getsql me.getsql))
              | _, _ => .ok (.val .expr .int (test.nullable || mt.nullable || me.nullable) (.case test.getsql mt.getsql me.getsql)))
      | .error e, _, _ => .error e
      | _, .error e, _ => .error e
      | _, _, .error e => .error e

/-- `SQLTranslator.init`: the conditions one `if` clause (or the body of a lambda given to `Entity.select`) appends to
    `translator.conditions` -/
def conditions (sch : Schema) (d : Dialect) (e : Expr) : Except TrErr SqlList :=
  match tr sch d e with
  | .ok m => .ok (flatAnd (condOf d m))
  | .error x => .error x

/-- the WHERE clause (`SQLBuilder.WHERE` joins the conditions with AND) -/
def whereSql (sch : Schema) (d : Dialect) (e : Expr) : Except TrErr Sql :=
  match conditions sch d e with
  | .ok cs => .ok (.and cs)
  | .error x => .error x

/-- column of a projection `select(<expr> for e in E)` -/
def projection (sch : Schema) (d : Dialect) (e : Expr) : Except TrErr Sql :=
  match tr sch d e with
  | .ok m => .ok m.getsql
  | .error x => .error x

/-! ## the fragment covered by the theorems (decidable; printed in the evidence) -/

/-- expressions that denote a value (their monad is a Numeric*/String* monad), as opposed to conditions -/
def valueSorted : Expr → Bool
  | .attr _ => true | .cInt _ => true | .cStr _ => true | .cBool _ => true | .param _ => true
  | .bin _ _ _ => true | .neg _ => true | .abs _ => true | .len _ => true | .ite _ _ _ => true
  | _ => false

/-- syntactically never missing -/
def nn (sch : Schema) : Expr → Bool
  | .attr n => match sch.attr n with
    | some (_, nl) => !nl
    | none => false
  | .cInt _ => true | .cStr _ => true | .cBool _ => true | .param _ => true
  | .bin _ l r => nn sch l && nn sch r
  | .neg x => nn sch x | .abs x => nn sch x | .len x => nn sch x
  | .ite _ t e => nn sch t && nn sch e
  | _ => false

/-- conditions whose SQL is unknown exactly when the Python reading is unknown (no truth test of a possibly missing value inside) -/
def exact (sch : Schema) : Expr → Bool
  | .cmp _ _ _ => true | .inList _ _ _ => true | .like _ _ _ _ => true
  | .and l r => exact sch l && exact sch r
  | .or l r => exact sch l && exact sch r
  | .not _ => true
  | e => nn sch e

def MTy.isNum : MTy → Bool
  | .int => true | .bool => true | _ => false

def sameClass (a b : MTy) : Bool := (a == .str && b == .str) || (a.isNum && b.isNum)

def trTy (sch : Schema) (d : Dialect) (e : Expr) : MTy :=
  match tr sch d e with
  | .ok m => m.ty
  | .error _ => .none

/-- a constant LIKE pattern for which the backend's matcher is known to agree with Python (C06_like_const; PostgreSQL / MySQL
    treat a backslash as escape character when no ESCAPE clause is emitted) -/
def okPat (d : Dialect) (pat : String) : Bool := d == .sqlite || !pat.toList.contains '\\'

def isOrd : POp → Bool
  | .lt => true | .le => true | .gt => true | .ge => true | _ => false

def isIs : POp → Bool
  | .is_ => true | .isNot => true | _ => false

def isAttr : Expr → Bool
  | .attr _ => true
  | _ => false

/-- THE HYPOTHESIS SET of `C01_cond`.  Outside it (differential only): a condition used as a value (`e.b == (e.a > 1)`, `(x > 1) + 1`),
    `not` over an `and`/`or` that truth-tests a possibly missing value, `pat not in s` for a possibly missing `s`, `is`/`is not`
    between two values, comparisons between a number and a string, `x in (…)` with items of another type than `x`,
    `None` anywhere but as the operand of `== != is is-not`, conditional expressions whose branches have different types,
    `bool + bool`, unary minus / abs of a bool (PostgreSQL rejects them);  and everything that is not in `Expr` at all. -/
def frag (sch : Schema) (d : Dialect) : Expr → Bool
  | .attr _ => true | .cInt _ => true | .cStr _ => true | .cBool _ => true | .param _ => true
  | .cNone => false
  | .cmp op l r =>
      if isNoneLit r then !isOrd op && valueSorted l && frag sch d l
      else if isNoneLit l then !isOrd op && valueSorted r && frag sch d r
      else !isIs op && valueSorted l && valueSorted r && frag sch d l && frag sch d r && sameClass (trTy sch d l) (trTy sch d r)
  | .inList _ x items =>
      valueSorted x && frag sch d x && items.all (fun it => trTy sch d x == litTy it)
  | .like _ ng pat x => valueSorted x && frag sch d x && (!ng || nn sch x) && okPat d pat
  | .and l r => frag sch d l && frag sch d r
  | .or l r => frag sch d l && frag sch d r
  | .not x =>
      frag sch d x && (valueSorted x || exact sch x)
  | .bin _ l r => valueSorted l && valueSorted r && frag sch d l && frag sch d r && !(trTy sch d l == .bool && trTy sch d r == .bool)
  | .neg x => valueSorted x && frag sch d x && trTy sch d x == .int
  | .abs x => valueSorted x && frag sch d x && trTy sch d x == .int
  | .len x => valueSorted x && frag sch d x
  | .ite c t e => frag sch d c && frag sch d t && frag sch d e && valueSorted t && valueSorted e && trTy sch d t == trTy sch d e

/-! ## the row as the backend stores it -/

def encS (d : Dialect) : Scalar → Val
  | .int i => .int i
  | .str s => .str s
  | .bool b => if d.isPg then .bool b else .int (boolInt b)

def encV (d : Dialect) : Option Scalar → Val
  | none => .null
  | some s => encS d s

def senv (d : Dialect) (env : PEnv) : SEnv where
  col n := encV d (env.col n)
  par n := encS d (env.par n)

end PonyVerif.Model.Q
