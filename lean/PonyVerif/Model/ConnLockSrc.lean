/-
  C19: a small statement language for the provider-level methods of pony/orm/dbproviders/sqlite.py and
  pony/orm/dbapiprovider.py, and its interpretation in the monad of `Model/ConnLock.lean`.

  `harness/gen_c19.py` parses the CURRENT source of these methods on every run and writes them as terms of `Stmt`
  into `Gen/ConnLockSrc.lean` (a statement form it does not know makes the generation fail: fail closed).
  `Props/C19.lean` proves, for each method, that the interpretation of the regenerated term IS the hand-written model
  function (`C19_src_*`), so the theorems about the model are theorems about the methods as they are written today.
  Core Lean only.
-/
import PonyVerif.Model.ConnLock
namespace PonyVerif.Model.ConnLock.Src

/-- boolean expressions the methods test -/
inductive BExp
  | lit (b : Bool)        -- a local variable bound by `letB` / `letFk`
  | cacheNotNone          -- `cache is not None`            (the session layer always passes its cache: true)
  | cacheInTx             -- `cache.in_transaction`
  | cacheImmediate        -- `cache.immediate`
  | savedFkTruthy         -- `cache.saved_fk_state`
  | savedFkIsNone         -- `cache.saved_fk_state is None`
  | sessionDdl            -- `db_session is not None and db_session.ddl`   (db_session = cache.db_session)
  | conIsPoolCon          -- `con is pool.con`
  | poolIsMemory          -- `pool.is_shared_memory_db or pool.filename == ':memory:'`   (file database: false)
  | not (a : BExp) | and (a b : BExp) | or (a b : BExp)

/-- calls -/
inductive Prim
  | preAcquire | txAcquire | preRelease | txRelease       -- provider.[pre_]transaction_lock.acquire() / .release()
  | acquireLock | releaseLock                              -- provider.acquire_lock() / provider.release_lock()
  | cursor | execute (q : Sql) | conCommit | conRollback | conClose     -- DB-API calls on `connection` / `con`
  | dbapiCommit | dbapiRollback | dbapiDrop | dbapiRelease -- DBAPIProvider.<m>(provider, connection, cache)
  | providerDrop                                           -- provider.drop(connection, cache)     (virtual: SQLiteProvider.drop)
  | poolRelease | poolDrop                                 -- provider.pool.release(connection) / [provider.]pool.drop(con)
  | basePoolDrop                                           -- Pool.drop(pool, con)

inductive Stmt
  | skip
  | seq (a b : Stmt)
  | call (p : Prim)
  | letB (e : BExp) (k : Bool → Stmt)     -- x = <boolean expression>; rest of the block
  | letFk (k : Bool → Stmt)               -- fk = cursor.fetchone(); if fk is not None: fk = fk[0]; rest of the block
  | setInTx (b : Bool)                    -- cache.in_transaction = b
  | setSavedFk (e : BExp)                 -- cache.saved_fk_state = bool(e)
  | setPoolConNone                        -- pool.con = None
  | ite (c : BExp) (t e : Stmt)
  | assert (c : BExp)
  | tryFinally (b f : Stmt)
  | tryExcept (b h : Stmt)                -- try: b   except: h; raise
  | wrapped (b : Stmt)                    -- @wrap_dbapi_exceptions

def eval (cf : Cfg) (con : Nat) (s : St) : BExp → Bool
  | .lit b => b
  | .cacheNotNone => true
  | .cacheInTx => s.cache.inTx
  | .cacheImmediate => s.cache.immediate
  | .savedFkTruthy => s.cache.savedFk == some true
  | .savedFkIsNone => s.cache.savedFk.isNone
  | .sessionDdl => cf.ddl
  | .conIsPoolCon => s.poolCon = some con
  | .poolIsMemory => false
  | .not a => !(eval cf con s a)
  | .and a b => eval cf con s a && eval cf con s b
  | .or a b => eval cf con s a || eval cf con s b

def prim (cf : Cfg) (con : Nat) : Prim → M Unit
  | .preAcquire => preAcquire | .txAcquire => txAcquire | .preRelease => preRelease | .txRelease => releaseLock
  | .acquireLock => acquireLock | .releaseLock => releaseLock
  | .cursor => conCursor cf con | .execute q => conExecute cf con q | .conCommit => conCommit cf con
  | .conRollback => conRollback cf con | .conClose => conClose cf con
  | .dbapiCommit => baseCommit cf con | .dbapiRollback => baseRollback cf con | .dbapiDrop => baseDrop cf con
  | .dbapiRelease => baseRelease cf con
  | .providerDrop => provDrop cf con
  | .poolRelease => poolRelease cf con | .poolDrop => poolDrop cf con | .basePoolDrop => poolDrop cf con

def exec (cf : Cfg) (con : Nat) : Stmt → M Unit
  | .skip => pure ()
  | .seq a b => do exec cf con a; exec cf con b
  | .call p => prim cf con p
  | .letB e k => do let s ← getS; exec cf con (k (eval cf con s e))
  | .letFk k => do let s ← getS; exec cf con (k s.fk)
  | .setInTx b => modC (fun c => { c with inTx := b })
  | .setSavedFk e => do let s ← getS; modC (fun c => { c with savedFk := some (eval cf con s e) })
  | .setPoolConNone => modS (fun s => { s with poolCon := none, dirty := false })
  | .ite c t e => do let s ← getS; if eval cf con s c then exec cf con t else exec cf con e
  | .assert c => do let s ← getS; assertM (eval cf con s c)
  | .tryFinally b f => ConnLock.tryFinally (exec cf con b) (exec cf con f)
  | .tryExcept b h => ConnLock.tryCatch (exec cf con b) (fun e => do exec cf con h; raise e)
  | .wrapped b => wrap (exec cf con b)

end PonyVerif.Model.ConnLock.Src
