/-
  C36 — hand model of the connection pool under `os.fork()`.

  Modelled code (as written):
    pony/orm/dbapiprovider.py  class Pool: __init__ (con = pid = None), connect (pid check, forked_connections,
                               _connect, pid := getpid), release (assert; con.rollback()), drop (assert; con := None; close),
                               disconnect (con := None; close)
    pony/orm/dbproviders/sqlite.py  class SQLitePool: __init__ (does NOT call Pool.__init__: sets con = None only, the
                               attribute `pid` does not exist until the first connect), drop / disconnect overrides for
                               in-memory databases (drop = rollback only, disconnect = nothing)
    pony/orm/core.py           SessionCache.connection (`held`): connect asserts it is None; close()/release hand it back.
  A thread of a process is a record (`Pool` is thread-local); `fork` duplicates the record of the forking THREAD (memory is
  copied, the other threads do not exist in the child) and the child gets a new pid; `spawn` starts a thread with a fresh record.  A connection carries a serial number and the pid of the process that created it (the real harness records
  `os.getpid()` in the connection factory).  Logs (`returned`, `stmts`, `closed`) are ghost state used to state the theorems.
  Not modelled: that `forked_connections` is ONE list per process shared by its threads (here: per record), failure of `con.rollback()` inside release,
  `OraPool` (same pid test, on a SessionPool; cannot be run here).
  Core Lean only.
-/
namespace PonyVerif.Model.ForkPool

structure Conn where
  serial : Nat
  creator : Nat
  deriving DecidableEq, Repr

inductive Kind where
  | base          -- dbapiprovider.Pool (PostgreSQL, MySQL, …)
  | sqliteFile    -- SQLitePool on a file
  | sqliteMemory  -- SQLitePool on ':memory:' / shared memory
  deriving DecidableEq, Repr

structure Pool where
  con : Option Conn
  pid : Option Nat
  pidAttr : Bool                       -- does the attribute `pool.pid` exist? (SQLitePool.__init__ never sets it)
  forked : List (Conn × Option Nat)    -- Pool.forked_connections (class attribute; per process after a fork)
  deriving DecidableEq, Repr

structure Proc where
  pid : Nat                  -- os.getpid()
  tid : Nat                  -- the thread: `Pool` is a `threading.local` subclass, every thread has its own record (0 = main thread)
  pool : Pool
  held : Option Conn         -- SessionCache.connection: the connection checked out by the running session
  fresh : Bool               -- ghost: this process has called connect (successfully or not) since it came into being (root: true)
  deriving DecidableEq, Repr

/-- operations a process performs on its own record -/
inductive Act where
  | connect      -- SessionCache.connect → provider.connect → Pool.connect
  | connectFail      -- the same call, but `pool._connect()` raises before a connection object exists (database file
                     --   missing, server unreachable, `dbapi.connect` failing) — if `_connect` is reached at all
  | connectInitFail  -- the same call, but the new connection is created and its initialisation raises
                     --   (SQLitePool._connect since f4e02d2: `con.close(); raise`, `pool.con` is not assigned)
  | stmt         -- a statement executed by the session on its checked-out connection
  | release      -- SessionCache.close/release → Pool.release(held)
  | drop         -- provider.drop(held) → Pool.drop(held)
  | disconnect   -- Database.disconnect → Pool.disconnect
  deriving DecidableEq, Repr

inductive Ev where
  | act (p t : Nat) (a : Act)     -- thread `t` of process `p` performs `a` on ITS record
  | fork (p t : Nat)              -- thread `t` of process `p` calls os.fork(): the child has this one thread (and its record) only
  | spawn (p t : Nat)             -- process `p` starts thread `t`: a fresh record (`Pool.__init__` runs again in every thread)
  deriving DecidableEq, Repr

def Ev.actor : Ev → Nat × Nat
  | .act p t _ => (p, t)
  | .fork p t => (p, t)
  | .spawn p t => (p, t)

/-- what one local step did (ghost outputs) -/
structure Out where
  returned : Option Conn := none     -- value returned by Pool.connect
  isNew : Bool := false
  stmts : List Conn := []            -- statements (incl. the ROLLBACK of release) went to these connections
  closed : List Conn := []           -- close() was called on these
  attrError : Bool := false          -- `pool.pid` read while the attribute does not exist
  assertError : Bool := false        -- one of the `assert` statements failed
  failed : Bool := false             -- `pool._connect()` raised: Pool.connect propagated the exception
  staleDisconnect : Bool := false    -- discipline G2 broken: disconnect by a process that has not connected since the fork
  deriving Repr

def initPool : Kind → Pool
  | .base => { con := none, pid := none, pidAttr := true, forked := [] }
  | _ => { con := none, pid := none, pidAttr := false, forked := [] }

/-- `Pool.connect` for the process with pid `me`; `serial` is the serial number a new connection would get -/
def poolConnect (me serial : Nat) (pl : Pool) : Pool × Out :=
  match pl.con with
  | some c =>
    if !pl.pidAttr then (pl, { attrError := true })          -- AttributeError: nothing changed
    else if pl.pid ≠ some me then
      -- forked: park the inherited connection (never closed), open a new one
      let n : Conn := { serial := serial, creator := me }
      ({ pl with con := some n, pid := some me, pidAttr := true, forked := pl.forked ++ [(c, pl.pid)] },
       { returned := some n, isNew := true })
    else (pl, { returned := some c, isNew := false })
  | none =>
    let n : Conn := { serial := serial, creator := me }
    ({ pl with con := some n, pid := some me, pidAttr := true }, { returned := some n, isNew := true })

/-- `Pool.connect` when `pool._connect()` raises (if it is reached): the pid test and the parking happen BEFORE `_connect`
    (`pool.con = pool.pid = None`), `pool.pid = pid` AFTER it — so the exception leaves `con = None`.
    `initFail`: the connection object exists when the failure happens; SQLitePool closes it and does not assign `pool.con`
    (for the base pool `_connect` is the single call `dbapi_module.connect`, there is no separate initialisation). -/
def poolConnectFail (k : Kind) (initFail : Bool) (me serial : Nat) (pl : Pool) : Pool × Out :=
  let n : Conn := { serial := serial, creator := me }
  let cl : List Conn := if initFail && k ≠ .base then [n] else []
  match pl.con with
  | some c =>
    if !pl.pidAttr then (pl, { attrError := true })
    else if pl.pid ≠ some me then
      ({ pl with con := none, pid := none, pidAttr := true, forked := pl.forked ++ [(c, pl.pid)] }, { failed := true, closed := cl })
    else (pl, { returned := some c, isNew := false })      -- pooled connection of this process: `_connect` is not called
  | none => (pl, { failed := true, closed := cl })

/-- `SessionCache.connect` around a pool-level connect `f` -/
def sessConnect (q : Proc) (f : Pool → Pool × Out) : Proc × Out :=
  match q.held with
  | some _ => (q, { assertError := true })     -- `assert cache.connection is None`
  | none =>
    let r := f q.pool
    ({ q with pool := r.1, held := r.2.returned, fresh := q.fresh || r.2.returned.isSome || r.2.failed }, r.2)

def localStep (k : Kind) (serial : Nat) (q : Proc) : Act → Proc × Out
  | .connect => sessConnect q (poolConnect q.pid serial)
  | .connectFail => sessConnect q (poolConnectFail k false q.pid serial)
  | .connectInitFail => sessConnect q (poolConnectFail k true q.pid serial)
  | .stmt =>
    match q.held with
    | some c => (q, { stmts := [c] })
    | none => (q, {})
  | .release =>
    match q.held with
    | none => (q, {})
    | some c =>
      if q.pool.con = some c then ({ q with held := none }, { stmts := [c] })     -- con.rollback()
      else ({ q with held := none }, { assertError := true })
  | .drop =>
    match q.held with
    | none => (q, {})
    | some c =>
      if k = .sqliteMemory then ({ q with held := none }, { stmts := [c] })        -- SQLitePool.drop: con.rollback() only, no assert
      else if q.pool.con = some c then
        ({ q with held := none, pool := { q.pool with con := none } }, { closed := [c] })
      else ({ q with held := none }, { assertError := true })
  | .disconnect =>
    if k = .sqliteMemory then (q, { staleDisconnect := !q.fresh })
    else
      match q.pool.con with
      | none => (q, { staleDisconnect := !q.fresh })
      | some c => ({ q with pool := { q.pool with con := none } }, { closed := [c], staleDisconnect := !q.fresh })

structure World where
  kind : Kind
  procs : List Proc
  nextPid : Nat
  nextSerial : Nat
  returned : List (Nat × Conn) := []     -- (process, connection) for every value Pool.connect returned
  stmts : List (Nat × Conn) := []        -- (process, connection) for every statement
  closed : List (Nat × Conn) := []       -- (process, connection) for every close()
  attrErrors : Nat := 0
  assertErrors : Nat := 0
  forkWhileHeld : Bool := false          -- discipline G1 broken: a fork happened while a connection was checked out
  staleDisconnect : Bool := false        -- discipline G2 broken
  deriving Repr

def init (k : Kind) : World :=
  { kind := k, procs := [{ pid := 0, tid := 0, pool := initPool k, held := none, fresh := true }], nextPid := 1, nextSerial := 0 }

def sel (p t : Nat) (q : Proc) : Bool := q.pid == p && q.tid == t

def outsOf (w : World) (p t : Nat) (a : Act) : List Out :=
  w.procs.filterMap (fun q => if sel p t q then some (localStep w.kind w.nextSerial q a).2 else none)

def step (w : World) : Ev → World
  | .act p t a =>
    let outs := outsOf w p t a
    { w with
      procs := w.procs.map (fun q => if sel p t q then (localStep w.kind w.nextSerial q a).1 else q)
      nextSerial := w.nextSerial + 1
      returned := w.returned ++ (outs.filterMap (·.returned)).map (fun c => (p, c))
      stmts := w.stmts ++ (outs.flatMap (·.stmts)).map (fun c => (p, c))
      closed := w.closed ++ (outs.flatMap (·.closed)).map (fun c => (p, c))
      attrErrors := w.attrErrors + (outs.filter (·.attrError)).length
      assertErrors := w.assertErrors + (outs.filter (·.assertError)).length
      staleDisconnect := w.staleDisconnect || outs.any (·.staleDisconnect) }
  | .fork p t =>
    let kids := (w.procs.filter (sel p t)).map (fun q => { q with pid := w.nextPid, fresh := false })
    { w with
      procs := w.procs ++ kids
      nextPid := w.nextPid + 1
      forkWhileHeld := w.forkWhileHeld || kids.any (fun q => q.held.isSome) }
  | .spawn p t =>
    if w.procs.any (fun q => q.pid == p) && !w.procs.any (sel p t) then
      { w with procs := w.procs ++ [{ pid := p, tid := t, pool := initPool w.kind, held := none, fresh := true }] }
    else w

def run (w : World) (evs : List Ev) : World := evs.foldl step w

end PonyVerif.Model.ForkPool
