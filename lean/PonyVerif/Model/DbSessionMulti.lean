/-
  C18 — several databases in one db_session: executable model of the module-level `commit()` and `rollback()` of
  pony/orm/core.py over the list of session caches `_get_caches()` (one cache per database the session touched), of
  `SessionCache.commit` / `SessionCache.rollback` as far as they decide what stays committed, and of the outermost
  `_commit_or_rollback` on top of them.  Core Lean only.

  Mirrored:
    `_get_caches`        caches sorted by (database.priority, cache.num), highest first — the head is the primary cache
    `commit()`           flush every cache (a failing flush: `rollback_and_reraise`); commit the primary cache
                         (failure: roll the others back, CommitException); then commit the others one by one, collecting
                         failures (PartialCommitException)
    `rollback()`         roll every cache back, collecting failures (RollbackException)
    `SessionCache.commit`   nothing pending: nothing to do; provider commit fails: `cache.rollback()` and re-raise
    `SessionCache.rollback` = `close(rollback=True)`: the cache leaves `local.db2cache` first; if the provider's rollback
                         fails the connection is dropped (closed), so the open transaction is discarded all the same
    `_commit_or_rollback`   can_commit: `commit()`, then release; otherwise `rollback()`, whose exception is swallowed
                         (`exc_type` is not None whenever can_commit is False)
  Fault oracle: per database, whether its flush / its provider commit / its provider rollback raises.
-/
namespace PonyVerif.Model.DbSessionMulti

abbrev Write := Nat

inductive Err where
  | flushErr (db : Nat)       -- the exception of the failing flush, re-raised by `rollback_and_reraise`
  | commitExc                 -- CommitException: the primary commit failed
  | partialCommit             -- PartialCommitException: the primary commit succeeded, another one failed
  | rollbackExc               -- RollbackException
  | releaseErr (db : Nat)     -- `cache.release()`: the pool's `con.rollback()` failed after everything was committed
  deriving DecidableEq, Repr, Inhabited

structure Cache where
  db : Nat
  priority : Int := 0
  num : Nat := 0                    -- creation order of the cache (`num_counter`)
  pending : List Write := []
  committed : List Write := []      -- the database behind the cache
  alive : Bool := true              -- still in `local.db2cache`
  deriving DecidableEq, Repr, Inhabited

structure Faults where
  flush : Nat → Bool := fun _ => false
  commit : Nat → Bool := fun _ => false
  rollback : Nat → Bool := fun _ => false
  deriving Inhabited

/-- `key(a) > key(b)` for the sort of `_get_caches` (reverse=True) -/
def before (a b : Cache) : Bool :=
  a.priority > b.priority || (a.priority == b.priority && a.num > b.num)

def insertSorted (c : Cache) : List Cache → List Cache
  | [] => [c]
  | x :: xs => if before c x then c :: x :: xs else x :: insertSorted c xs

/-- `_get_caches()` -/
def getCaches (cs : List Cache) : List Cache :=
  (cs.filter (·.alive)).foldr insertSorted []

/-- state of a cache after `SessionCache.rollback()` (whether or not the provider's rollback raised) -/
def rolledBack (c : Cache) : Cache := { c with pending := [], alive := false }

/-- does `SessionCache.rollback()` raise? (only a cache that did something has a connection to roll back) -/
def rollbackRaises (f : Faults) (c : Cache) : Bool := f.rollback c.db

/-- `SessionCache.commit()`: new state and whether it raised -/
def cacheCommit (f : Faults) (c : Cache) : Cache × Bool :=
  if c.pending = [] then (c, false)
  else if f.commit c.db then (rolledBack c, true)
  else ({ c with committed := c.committed ++ c.pending, pending := [] }, false)

/-- does `SessionCache.flush()` raise? -/
def flushRaises (f : Faults) (c : Cache) : Bool := c.pending ≠ [] && f.flush c.db

/-- module-level `rollback()` over the ordered caches -/
def rollbackAll (f : Faults) (cs : List Cache) : List Cache × Option Err :=
  (cs.map rolledBack, if cs.any (rollbackRaises f) then some .rollbackExc else none)

/-- module-level `commit()` over the ordered caches (head = primary) -/
def commitAll (f : Faults) (cs : List Cache) : List Cache × Option Err :=
  match cs with
  | [] => ([], none)
  | primary :: others =>
    match cs.find? (flushRaises f) with
    | some c => ((rollbackAll f cs).1, some (.flushErr c.db))        -- `rollback_and_reraise`: the flush error wins
    | none =>
      let p := cacheCommit f primary
      if p.2 then (p.1 :: others.map rolledBack, some .commitExc)
      else
        let os := others.map (cacheCommit f)
        (p.1 :: os.map (·.1), if os.any (·.2) then some .partialCommit else none)

/-- `for cache in _get_caches(): cache.release()`: `Pool.release` rolls the connection back; if that fails the loop stops:
    the caches after the failing one stay in `local.db2cache` -/
def releaseAll (f : Faults) : List Cache → List Cache × Option Err
  | [] => ([], none)
  | c :: cs =>
    if rollbackRaises f c then ({ c with alive := false } :: cs, some (.releaseErr c.db))
    else let r := releaseAll f cs; ({ c with alive := false } :: r.1, r.2)

/-- `_commit_or_rollback` of the outermost session over the ordered caches: `canCommit` as decided from the exception;
    returns the caches and the exception `__exit__` raises itself -/
def exitSession (f : Faults) (canCommit : Bool) (cs : List Cache) : List Cache × Option Err :=
  if canCommit then
    let r := commitAll f cs
    match r.2 with
    | none => releaseAll f r.1                                         -- `for cache in _get_caches(): cache.release()`
    | some e => (r.1, some e)
  else ((rollbackAll f cs).1, none)                                    -- `except: if exc_type is None: raise`

end PonyVerif.Model.DbSessionMulti
