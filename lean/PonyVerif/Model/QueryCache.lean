/-
  Model/QueryCache.lean — the query-result cache of a session across flushes (property C10).

  `cache.query_results` maps a query key to the result computed for it.  Abstraction: ONE query key; the database state of the
  session's transaction is a version number (every write statement of a flush makes a new version); a cached result is the
  version it was computed on.  A result is right iff it is the current version.
  Mirrors pony/orm/core.py
    Query._actual_fetch / Query.count / ... : look the key up in cache.query_results, else run the SQL and store the result  -> `query`
    SessionCache.flush: `if not cache.modified: return`, then rounds of the events listed, in SOURCE ORDER, by the generated
      `Gen.FlushQueryCache.flushEvents` (before_* hooks - they may run the query, flushing is disabled inside them -,
      query_results.clear(), the writes, the after_* hooks - they may run the query as well)                                    -> `round`, `flush`
    prepare_connection_for_query_execution: a query of the application flushes first when the session is modified              -> `read`
  The order of the events is NOT written here: it is regenerated from the source on every run (harness/gen_c10.py).  Core Lean only.
-/
import PonyVerif.Gen.FlushQueryCache
namespace PonyVerif.Model.QueryCache
open PonyVerif.Gen.FlushQueryCache

structure St where
  db : Nat              -- version of the database as the session's transaction sees it
  qc : Option Nat       -- cache.query_results[key]: the version the stored result was computed on
  pending : Bool        -- cache.modified
deriving DecidableEq, Repr

/-- the query through the result cache: a stored result is handed out, else the SQL runs and its result is stored -/
def query (s : St) : St × Nat :=
  match s.qc with
  | some v => (s, v)
  | none => ({ s with qc := some s.db }, s.db)

/-- one event of a flush round; `qb` / `qa`: the before_* / after_* hooks of this round run the query -/
def ev (qb qa : Bool) (s : St) : FlushEv → St
  | .hooks => if qb then (query s).1 else s
  | .clearQueryResults => { s with qc := none }
  | .write => { s with db := s.db + 1 }
  | .afterHooks => if qa then (query s).1 else s

/-- one round of the flush loop, events in the order given -/
def round (evs : List FlushEv) (s : St) (q : Bool × Bool) : St := evs.foldl (ev q.1 q.2) s

/-- `SessionCache.flush`: nothing when the session is not modified; else the rounds (after_* hooks may modify again: any number of
    rounds, each with hooks that query or not), after which nothing is pending -/
def flush (evs : List FlushEv) (rounds : List (Bool × Bool)) (s : St) : St :=
  if !s.pending then s else { rounds.foldl (round evs) s with pending := false }

inductive Op where
  | modify                                   -- any call that changes an object: cache.modified = True, nothing written yet
  | flush (rounds : List (Bool × Bool))      -- explicit flush / commit-and-continue; at least one round runs when modified
  | read (rounds : List (Bool × Bool))       -- a query of the application: implicit flush when modified, then the query
deriving Repr

/-- a step; a read yields (the answer, the version of the database at that moment) -/
def step (evs : List FlushEv) (s : St) : Op → St × Option (Nat × Nat)
  | .modify => ({ s with pending := true }, none)
  | .flush rs => (flush evs ((true, false) :: rs) s, none)       -- (the first round's hooks run the query: the adverse case)
  | .read rs =>
    let s1 := flush evs ((true, false) :: rs) s
    let r := query s1
    (r.1, some (r.2, s1.db))

def run (evs : List FlushEv) : St → List Op → List (Nat × Nat)
  | _, [] => []
  | s, op :: ops =>
    let r := step evs s op
    match r.2 with
    | some a => a :: run evs r.1 ops
    | none => run evs r.1 ops

/-- no stale entry: the cache is empty or holds the result for the current version -/
def Fresh (s : St) : Prop := s.qc = none ∨ s.qc = some s.db

end PonyVerif.Model.QueryCache
