/-
  C31 — hand model of entity pickling (`pony/orm/core.py`), as written:

      def __reduce__(obj):
          if obj._status_ in del_statuses: throw(OperationWithDeletedObjectError, ...)
          if obj._status_ in ('created', 'modified'): throw(OrmError, '... has to be stored in DB before it can be pickled')
          d = {'__class__': obj.__class__}
          for attr, val in obj._vals_.items():
              if not attr.is_collection: d[attr.name] = val
          return unpickle_entity, (d,)

      def unpickle_entity(d):
          entity = d.pop('__class__'); cache = entity._database_._get_cache()
          pkval = ...                                              # from d
          obj = entity._get_from_identity_map_(pkval, 'loaded')    # the session's object for that key, or a new 'loaded' one
          if obj._status_ in del_statuses: return obj
          avdict = {attr: val for attr, val in d.items() if attr.pk_offset is None}
          obj._db_set_(avdict, unpickling=True)
          return obj

      def _db_set_(obj, avdict, unpickling=False):
          for attr, new_dbval in list(avdict.items()):
              old_dbval = obj._dbvals_.get(attr, NOT_LOADED)
              if old_dbval is not NOT_LOADED:
                  if unpickling or ...: del avdict[attr]; continue   # an attribute the session has ALREADY loaded keeps the session's value
          ... the remaining (not yet loaded) attributes are set from the pickle ...

  An object is its key, its status and the association list of its loaded non-collection, non-key attribute values; a
  session is its identity map.  Values are opaque (`Nat`).  Relationship side effects of `_db_set_` (reverse collections)
  and cycles between pickled objects (the recorded known finding) are outside this model.  Core Lean only.
-/
namespace PonyVerif.Model.Pickle

inductive Status where
  | created | modified | loaded | inserted | updated | markedToDelete | deleted | cancelled
  deriving DecidableEq, Repr

def Status.isDel : Status → Bool
  | .markedToDelete | .deleted | .cancelled => true
  | _ => false

structure Obj where
  pk : Nat
  status : Status
  vals : List (String × Nat)
  deriving DecidableEq, Repr

structure Pickled where
  pk : Nat
  d : List (String × Nat)
  deriving DecidableEq, Repr

abbrev Session := List Obj

/-- `Entity.__reduce__` -/
def reduce (o : Obj) : Except String Pickled :=
  if o.status.isDel then .error "OperationWithDeletedObjectError"
  else if o.status = .created ∨ o.status = .modified then .error "OrmError"
  else .ok { pk := o.pk, d := o.vals }

/-- `_db_set_(avdict, unpickling=True)`: attributes the object has already loaded keep their value, the others are set -/
def setMissing (vals d : List (String × Nat)) : List (String × Nat) :=
  vals ++ d.filter (fun e => (vals.lookup e.1).isNone)

/-- `unpickle_entity` in the session `s`: the resulting session and the object handed back -/
def unpickle (s : Session) (p : Pickled) : Session × Obj :=
  match s.find? (fun o => o.pk == p.pk) with
  | none =>
    let o : Obj := { pk := p.pk, status := .loaded, vals := setMissing [] p.d }
    (s ++ [o], o)
  | some o =>
    if o.status.isDel then (s, o)
    else
      let o' : Obj := { o with vals := setMissing o.vals p.d }
      (s.map (fun x => if x.pk == p.pk then o' else x), o')

/-! ### pickling a query result (`QueryResult.__getstate__` / `_get_items`, `Query.__reduce__`), as written:

      def _get_items(self):
          if self._items is None: self._items = self._query._actual_fetch(self._limit, self._offset)
          return self._items
      def __getstate__(self): return self._get_items(), self._limit, self._offset, self._expr_type, self._col_names

    `full` is the complete ordered result of the query; a result object either has not fetched yet (`items = none`: lazy
    results of `page` / `limit`) or holds what an earlier fetch of ITS window returned. -/

/-- SQL `LIMIT l OFFSET o` on the ordered result (`none` = unbounded / 0) — the window `_actual_fetch(limit, offset)` returns -/
def fetchWindow (limit offset : Option Nat) (full : List α) : List α :=
  let d := full.drop (offset.getD 0)
  match limit with
  | none => d
  | some l => d.take l

structure QResult (α : Type) where
  limit : Option Nat
  offset : Option Nat
  items : Option (List α)

/-- the rows `__getstate__` puts into the pickle -/
def getstateRows (full : List α) (r : QResult α) : List α :=
  match r.items with
  | some l => l
  | none => fetchWindow r.limit r.offset full

/-- a result object as the API hands it out for the query: lazy, or materialised by fetching its own window -/
def QResult.wellFormed (full : List α) (r : QResult α) : Prop :=
  r.items = none ∨ r.items = some (fetchWindow r.limit r.offset full)

end PonyVerif.Model.Pickle
