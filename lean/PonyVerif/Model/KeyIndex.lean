/-
  Model/KeyIndex.lean — the session's key indexes (`SessionCache.indexes`) over an object store (properties C11, C14).

  Mirrors, for ONE entity hierarchy (a root class and its subclasses share the primary-key index and the keys), the
  index maintenance of pony/orm/core.py as it is now (after the repairs 19b6b9f and 47bba9f):

    SessionCache.update_simple_index / update_composite_index       -> updKey          (same function on key tuples)
    SessionCache.db_update_simple_index / db_update_composite_index -> updKey          (`pop(old, None)` instead of `del`)
    the `undo` lists of Attribute.__set__ / Entity.set              -> updKeysGo (trail) / undoKeys
    Entity.__init__ (key checks, identity map, undo, index part)    -> create
    EntityMeta._get_from_identity_map_ ('created' / 'loaded', class refinement) -> create / idmapLoaded
    EntityMeta._fetch_objects (one row) + Entity._db_set_ ; unpickle_entity     -> load / dbSet
    EntityMeta._get_by_raw_pkval_ (reference found in another row)  -> seed
    Attribute.__set__ and Entity.set (index part, status / write bits, undo)    -> setAttrs
    Attribute.__get__ (read bit)                                    -> read
    Entity._delete_ (index removal; `created` -> `cancelled` frees the primary key) -> delete
    a cascading Entity._delete_ refused after its nested deletes ran (undo_list / undo_funcs)   -> cascadeFail / undoDelete
    Entity._save_created_ (auto pk: `setdefault(new_id, obj)`), _update_dbvals_, _save_updated_, _save_deleted_ -> saveCreated/…
    EntityMeta._find_in_cache_ (pk, simple keys, composite keys, status / value checks, read bits) -> find
    … its 4th way, through the reverse one-to-one attribute of a search value                  -> findVia
    EntityProxy._get_object                                         -> proxy

  Key values are tuples (`List Int`); a simple key is the 1-tuple.  `None` / not-loaded parts exempt a key (`kv = none`).
  A key tuple is computed from `_vals_` with `get_val(attr)` exactly as the code does (a not-loaded part reads as `None`).
  Objects are numbered in creation order; the number IS the identity (`is`) of the Python object.
  Not modelled: relationships (a constructor that fails inside a relationship update is the input flag `lateFail`),
  volatile attributes, `for_update`, hooks, lazy attributes.  Subclasses add no key attributes.
  Core Lean only (linked into the driver).
-/
namespace PonyVerif.Model.KeyIndex

abbrev ObjId := Nat
abbrev KeyVal := List Int

/-! ## 1. one index: `cache.indexes[key]`, a finite map key tuple → object -/

abbrev Index := List (KeyVal × ObjId)

namespace Index
def get : Index → KeyVal → Option ObjId
  | [], _ => none
  | (k', o) :: r, k => if k' = k then some o else get r k
def erase (ix : Index) (k : KeyVal) : Index := ix.filter fun p => decide (p.1 ≠ k)
def set (ix : Index) (k : KeyVal) (o : ObjId) : Index := (k, o) :: erase ix k
def eraseOpt (ix : Index) : Option KeyVal → Index
  | none => ix
  | some k => erase ix k
def setOpt (ix : Index) (k : Option KeyVal) (o : ObjId) : Index :=
  match k with
  | none => ix
  | some k => set ix k o
end Index

/-! ## 2. schema, objects, session -/

structure Schema where
  nattrs : Nat                  -- non-pk attributes 0 .. nattrs-1 (Optional(int))
  keys : List (List Nat)        -- `_simple_keys_` (1-element lists, attribute order) followed by `_composite_keys_`
  parent : List (Option Nat)    -- direct base of class i (class 0 is the root)
  classBitsDiffer : Bool := false   -- some subclass numbers the read/write bits of its base's attributes differently
deriving Repr

def isSubFuel (parent : List (Option Nat)) : Nat → Nat → Nat → Bool
  | 0, c, d => c == d
  | f+1, c, d => c == d || match parent[c]? with
      | some (some p) => isSubFuel parent f p d
      | _ => false

/-- `issubclass(c, d)` -/
def Schema.isSub (sch : Schema) (c d : Nat) : Bool := isSubFuel sch.parent sch.parent.length c d

inductive Status
  | created | loaded | modified | inserted | updated | markedToDelete | deleted | cancelled
deriving DecidableEq, Repr, Inhabited

/-- `status in del_statuses` -/
def Status.isDel : Status → Bool
  | .markedToDelete | .deleted | .cancelled => true
  | _ => false

/-- still entitled to its primary-key index entry: `cancelled` (delete of a created object) and `deleted`
    (`_save_deleted_`) pop it; `marked_to_delete` keeps it until the DELETE is flushed -/
def Status.holdsPk : Status → Bool
  | .deleted | .cancelled => false
  | _ => true

/-- `obj._vals_.get(attr, NOT_LOADED)` -/
inductive Slot
  | notLoaded
  | val (v : Option Int)
deriving DecidableEq, Repr, Inhabited

/-- `get_val(attr)` as used for keys: `None` and not-loaded both read as `None` -/
def Slot.key : Slot → Option Int
  | .val (some v) => some v
  | _ => none

structure Obj where
  cls : Nat
  status : Status
  pk : Option KeyVal          -- `_pkval_` (None: auto primary key not assigned yet)
  vals : Nat → Slot           -- `_vals_`
  dbvals : Nat → Slot         -- `_dbvals_`
  rbits : Nat → Bool
  wbits : Nat → Bool
  isNew : Bool                -- `_wbits_ is None` (status created)
  isSeed : Bool               -- `obj in cache.seeds[pk_attrs]`

instance : Inhabited Obj := ⟨⟨0, .cancelled, none, fun _ => .notLoaded, fun _ => .notLoaded, fun _ => false, fun _ => false, false, false⟩⟩

structure Sess where
  n : Nat                     -- objects are 0 .. n-1
  obj : ObjId → Obj
  pkIx : Index                -- `cache.indexes[entity._pk_attrs_]`
  ixs : Nat → Index           -- `cache.indexes[key i]`
  queue : List ObjId          -- `objects_to_save` without its `None` holes

def Sess.empty : Sess := ⟨0, fun _ => default, [], fun _ => [], []⟩

def setObj (f : ObjId → Obj) (o : ObjId) (ob : Obj) : ObjId → Obj := fun o' => if o' = o then ob else f o'
def setIx (f : Nat → Index) (i : Nat) (ix : Index) : Nat → Index := fun i' => if i' = i then ix else f i'

/-- tuple of one key from a value function; `none` when a part is `None` / not loaded (`if None in vals: continue`) -/
def keyval (vals : Nat → Slot) : List Nat → Option KeyVal
  | [] => some []
  | a :: r => match (vals a).key, keyval vals r with
      | some v, some t => some (v :: t)
      | _, _ => none

/-- value of key number `i` (none for an undeclared key; a key has at least one attribute) -/
def kv (sch : Schema) (vals : Nat → Slot) (i : Nat) : Option KeyVal :=
  match sch.keys[i]? with
  | some (a :: r) => keyval vals (a :: r)
  | _ => none

inductive Err
  | cacheIndex          -- CacheIndexError
  | constraint          -- the relationship update inside the constructor raised (`lateFail`)
  | deletedObject       -- OperationWithDeletedObjectError
  | integrity           -- TransactionIntegrityError
  | unrepeatable        -- UnrepeatableReadError
  | classChange         -- TransactionError 'Unexpected class change'
  | notImplemented      -- NotImplementedError (class refinement of an object with read/write bits)
  | assertion           -- AssertionError
  | objectNotFound      -- ObjectNotFound
  | needLoad            -- the call would query the database (outside this op: the engine sends a `load` first)
  | badOp               -- the op does not apply (no such object / wrong status): engine bug
deriving DecidableEq, Repr

structure Res where
  err : Option Err := none
  yield : Option ObjId := none     -- the object the call returns, if any
deriving Repr

/-! ## 3. `update_simple_index` / `update_composite_index` and their `db_` variants, with the undo list -/

/-- one index, one object: old tuple → new tuple.  `none` = CacheIndexError / TransactionIntegrityError
    (`obj2 = cache_index.setdefault(new, obj); if obj2 is not obj: throw`), thrown BEFORE the old entry is removed. -/
def updKey (ix : Index) (o : ObjId) (prev new : Option KeyVal) : Option Index :=
  if prev = new then some ix
  else match new with
    | none => some (ix.eraseOpt prev)
    | some nv => match ix.get nv with
        | none => some ((ix.set nv o).eraseOpt prev)
        | some o2 => if o2 = o then some (ix.eraseOpt prev) else none

abbrev Trail := List (Nat × Option KeyVal × Option KeyVal)      -- `undo.append((cache_index, old_key, new_key))`

structure KRes where
  ixs : Nat → Index
  trail : Trail
  ok : Bool

/-- the keys are visited in order; the first conflict stops the loop (the exception) -/
def updKeysGo (o : ObjId) (prev new : Nat → Option KeyVal) : List Nat → KRes → KRes
  | [], r => r
  | i :: ks, r =>
      match updKey (r.ixs i) o (prev i) (new i) with
      | none => { r with ok := false }
      | some ix' => updKeysGo o prev new ks
          { r with ixs := setIx r.ixs i ix', trail := if prev i = new i then r.trail else r.trail ++ [(i, prev i, new i)] }

/-- `for cache_index, old_key, new_key in undo: if new_key is not None: del cache_index[new_key];
     if old_key is not None: cache_index[old_key] = obj` -/
def undoKeys (o : ObjId) : Trail → (Nat → Index) → (Nat → Index)
  | [], ixs => ixs
  | (i, prev, new) :: t, ixs => undoKeys o t (setIx ixs i (((ixs i).eraseOpt new).setOpt prev o))

/-! ## 4. the calls -/

def allKeys (sch : Schema) : List Nat := List.range sch.keys.length

/-- `if val in cache_indexes[attr]: throw(CacheIndexError)` over the simple keys, then the composite keys -/
def keyTaken (sch : Schema) (s : Sess) (vf : Nat → Slot) : Bool :=
  (allKeys sch).any fun i => match kv sch vf i with
    | some v => ((s.ixs i).get v).isSome
    | none => false

/-- `_get_from_identity_map_(pkval, 'created')`: an object with this primary key is already in the session -/
def pkTaken (s : Sess) (pk : Option KeyVal) : Bool :=
  match pk with
  | some k => (s.pkIx.get k).isSome
  | none => false

/-- the identity map's undo closure: `if pkval is not None and cache_index.get(pkval) is obj: del cache_index[pkval]` -/
def undoIdmap (ix : Index) (pk : Option KeyVal) (o : ObjId) : Index :=
  match pk with
  | some k => if ix.get k = some o then ix.erase k else ix
  | none => ix

/-- `Entity.__init__` -/
def create (sch : Schema) (s : Sess) (cls : Nat) (pk : Option KeyVal) (vals : List (Option Int)) (lateFail : Bool) : Sess × Res :=
  let vf : Nat → Slot := fun a => .val ((vals[a]?).join)
  if keyTaken sch s vf then (s, { err := some .cacheIndex })
  else if pkTaken s pk then (s, { err := some .cacheIndex })
  else
    let o := s.n
    let pk1 := s.pkIx.setOpt pk o                 -- `cache_index[pkval] = obj` inside the identity map
    if lateFail then
      -- a relationship update raised — inside `_get_from_identity_map_` itself (the `update_reverse` of a PRIMARY-KEY attribute
      -- that is a relationship: owner occupied 'Cannot unlink', owner deleted) or later in `__init__` — after the primary-key
      -- index was written: `for undo_func in reversed(undo_funcs)` runs the identity map's undo closure, which therefore has to be
      -- registered BEFORE that loop (also `cache.objects.discard(obj)`)
      ({ s with pkIx := undoIdmap pk1 pk o }, { err := some .constraint })
    else
      let ob : Obj := { cls := cls, status := .created, pk := pk, vals := vf, dbvals := fun _ => .notLoaded,
                        rbits := fun _ => false, wbits := fun _ => false, isNew := true, isSeed := false }
      ({ n := s.n + 1, obj := setObj s.obj o ob,
         pkIx := pk1.setOpt pk o,                 -- `cache_indexes[entity._pk_attrs_][pkval] = obj`
         ixs := fun i => (s.ixs i).setOpt (kv sch vf i) o,   -- `for key, vals in indexes_update.items(): cache_indexes[key][vals] = obj`
         queue := s.queue ++ [o] }, { yield := some o })

def anyBits (sch : Schema) (ob : Obj) : Bool := (List.range sch.nattrs).any fun a => ob.rbits a || ob.wbits a

/-- `_get_from_identity_map_(pkval, 'loaded')` -/
def idmapLoaded (sch : Schema) (s : Sess) (cls : Nat) (pk : KeyVal) : Except Err (Sess × ObjId) :=
  match s.pkIx.get pk with
  | some o =>
      let ob := s.obj o
      if ob.cls = cls then .ok (s, o)
      else if sch.isSub ob.cls cls then .ok (s, o)
      else if !sch.isSub cls ob.cls then .error .classChange
      -- `(obj._rbits_ or obj._wbits_) and any(entity._bits_.get(attr) != bit …)`: the bits would mean other attributes
      else if anyBits sch ob && sch.classBitsDiffer then .error .notImplemented
      else .ok ({ s with obj := setObj s.obj o { ob with cls := cls } }, o)      -- `obj.__class__ = entity`
  | none =>
      let o := s.n
      let ob : Obj := { cls := cls, status := .loaded, pk := some pk, vals := fun _ => .notLoaded, dbvals := fun _ => .notLoaded,
                        rbits := fun _ => false, wbits := fun _ => false, isNew := false, isSeed := true }
      .ok ({ s with n := s.n + 1, obj := setObj s.obj o ob, pkIx := s.pkIx.set pk o }, o)

/-- `_get_by_raw_pkval_`: a reference column of another entity's row names this primary key -/
def seed (sch : Schema) (s : Sess) (cls : Nat) (pk : KeyVal) : Sess × Res :=
  match idmapLoaded sch s cls pk with
  | .error e => (s, { err := some e })
  | .ok (s1, o) => (s1, { yield := some o })

/-- first loop of `_db_set_`: the entries of `avdict` that survive — equal to the known database value (or any known
    value when unpickling) are dropped; `rowv a = notLoaded` = attribute not in `avdict` -/
def dbEff (sch : Schema) (ob : Obj) (rowv : Nat → Slot) (unpickling : Bool) (a : Nat) : Bool :=
  decide (a < sch.nattrs) && decide (rowv a ≠ .notLoaded) &&
    !(decide (ob.dbvals a ≠ .notLoaded) && (unpickling || decide (ob.dbvals a = rowv a)))

/-- `new_vals` merged into `_vals_`: `if wbits & bit: del new_vals[attr]` -/
def dbNewVals (sch : Schema) (ob : Obj) (rowv : Nat → Slot) (u : Bool) : Nat → Slot :=
  fun a => if dbEff sch ob rowv u a && !ob.wbits a then rowv a else ob.vals a

/-- the object when the second loop stops at attribute `a0` (read bit set): `_dbvals_` of the earlier ones is overwritten -/
def dbObjStop (sch : Schema) (ob : Obj) (rowv : Nat → Slot) (u : Bool) (a0 : Nat) : Obj :=
  { ob with isSeed := false, dbvals := fun a => if dbEff sch ob rowv u a && decide (a < a0) then rowv a else ob.dbvals a }

/-- the object after the second loop: `obj._dbvals_[attr] = new_dbval` -/
def dbObjDb (sch : Schema) (ob : Obj) (rowv : Nat → Slot) (u : Bool) : Obj :=
  { ob with isSeed := false, dbvals := fun a => if dbEff sch ob rowv u a then rowv a else ob.dbvals a }

/-- `Entity._db_set_(avdict)` -/
def dbSet (sch : Schema) (s : Sess) (o : ObjId) (rowv : Nat → Slot) (unpickling : Bool) : Sess × Option Err :=
  let ob := s.obj o
  match (List.range sch.nattrs).find? (fun a => dbEff sch ob rowv unpickling a && ob.rbits a) with
  | some a0 =>
      -- `if rbits & bit: throw(UnrepeatableReadError)` (`assert old_dbval is not NOT_LOADED` first)
      ({ s with obj := setObj s.obj o (dbObjStop sch ob rowv unpickling a0) },
       some (if ob.dbvals a0 = .notLoaded then .assertion else .unrepeatable))
  | none =>
      -- `db_update_simple_index` for the unique attributes, then `db_update_composite_index`: NO undo list
      let r := updKeysGo o (kv sch ob.vals) (kv sch (dbNewVals sch ob rowv unpickling)) (allKeys sch) ⟨s.ixs, [], true⟩
      if r.ok then
        ({ s with obj := setObj s.obj o { dbObjDb sch ob rowv unpickling with vals := dbNewVals sch ob rowv unpickling },
                  ixs := r.ixs }, none)                                  -- `obj._vals_.update(new_vals)`
      else ({ s with obj := setObj s.obj o (dbObjDb sch ob rowv unpickling), ixs := r.ixs }, some .integrity)

/-- `entity._set_rbits(objects, attrs)` for one object -/
def setRbits (ob : Obj) (attrs : List Nat) : Obj :=
  if ob.isNew then ob else { ob with rbits := fun a => ob.rbits a || (attrs.contains a && !ob.wbits a) }

structure Row where
  cls : Nat
  pk : KeyVal
  vals : List Slot        -- per attribute; `notLoaded` = column not in the result set
deriving Repr

/-- one row of `_fetch_objects` (`unpickling = false`) or `unpickle_entity` (`unpickling = true`) -/
def load (sch : Schema) (s : Sess) (row : Row) (used : List Nat) (unpickling : Bool) : Sess × Res :=
  match idmapLoaded sch s row.cls row.pk with
  | .error e => (s, { err := some e })
  | .ok (s1, o) =>
      let ob := s1.obj o
      if ob.status.isDel then (s1, { yield := if unpickling then some o else none })   -- `continue` / `return obj`
      else if ob.status = .created then (s1, { err := some .assertion })
      else
        let rowv : Nat → Slot := fun a => (row.vals[a]?).getD .notLoaded
        match dbSet sch s1 o rowv unpickling with
        | (s2, some e) => (s2, { err := some e })
        | (s2, none) => ({ s2 with obj := setObj s2.obj o (setRbits (s2.obj o) used) }, { yield := some o })

def lookupChange (changes : List (Nat × Option Int)) (a : Nat) : Option (Option Int) :=
  match changes with
  | [] => none
  | (a', v) :: r => if a' = a then some v else lookupChange r a

/-- `_vals_` after the assignment -/
def chVals (ob : Obj) (changes : List (Nat × Option Int)) : Nat → Slot :=
  fun a => match lookupChange changes a with
    | some v => .val v
    | none => ob.vals a

/-- status / write bits after the assignment (`created` objects have no write bits and keep their status) -/
def chObj (ob : Obj) (changes : List (Nat × Option Int)) : Obj :=
  if ob.isNew then { ob with vals := chVals ob changes }
  else { ob with vals := chVals ob changes, wbits := fun a => ob.wbits a || (lookupChange changes a).isSome, status := .modified }

/-- `Attribute.__set__` (one change) and `Entity.set(**kwargs)` (several): status / write bits, the key loop with its
    undo list, then `_vals_.update` -/
def setAttrs (sch : Schema) (s : Sess) (o : ObjId) (changes : List (Nat × Option Int)) : Sess × Res :=
  if o ≥ s.n then (s, { err := some .badOp })
  else
    let ob := s.obj o
    if ob.status.isDel then (s, { err := some .deletedObject })
    else
      let queueM := if ob.isNew || ob.status = .modified then s.queue else s.queue ++ [o]
      let r := updKeysGo o (kv sch ob.vals) (kv sch (chVals ob changes)) (allKeys sch) ⟨s.ixs, [], true⟩
      if r.ok then ({ s with obj := setObj s.obj o (chObj ob changes), ixs := r.ixs, queue := queueM }, {})
      else
        -- `except: for undo_func in reversed(undo_funcs): undo_func()`: status, wbits, objects_to_save and the indexes go back
        ({ s with ixs := undoKeys o r.trail r.ixs }, { err := some .cacheIndex })

/-- `Attribute.__get__` of a loaded attribute -/
def read (s : Sess) (o : ObjId) (a : Nat) : Sess × Res :=
  if o ≥ s.n then (s, { err := some .badOp })
  else
    let ob := s.obj o
    if ob.status = .deleted || ob.status = .cancelled then (s, { err := some .deletedObject })
    else if ob.vals a = .notLoaded then (s, { err := some .needLoad })
    else ({ s with obj := setObj s.obj o (setRbits ob [a]) }, {})

/-- `Entity._delete_` (no relationships) -/
def delete (sch : Schema) (s : Sess) (o : ObjId) : Sess × Res :=
  if o ≥ s.n then (s, { err := some .badOp })
  else
    let ob := s.obj o
    if ob.status.isDel then (s, {})
    else
      let ixs' : Nat → Index := fun i => (s.ixs i).eraseOpt (kv sch ob.vals i)     -- `cache_index.pop(val)` per key
      if ob.status = .created then
        ({ s with obj := setObj s.obj o { ob with status := .cancelled }, ixs := ixs',
                  pkIx := s.pkIx.eraseOpt ob.pk, queue := s.queue.erase o }, {})
      else
        ({ s with obj := setObj s.obj o { ob with status := .markedToDelete }, ixs := ixs',
                  queue := s.queue.erase o ++ [o] }, {})

/-- what `undo_func` of one `_delete_` puts back: the object record (status, save position), `objects_to_save`, and
    `for cache_index, old_key in undo_list: cache_index[old_key] = obj` (primary key of a `created` object, every key tuple) -/
structure DelRec where
  o : ObjId
  noop : Bool                 -- the object was already deleted: `_delete_` returned before registering anything
  ob : Obj                    -- the object before
  queue : List ObjId          -- `objects_to_save` before

def delRec (s : Sess) (o : ObjId) : DelRec :=
  { o := o, noop := decide (o ≥ s.n) || (s.obj o).status.isDel, ob := s.obj o, queue := s.queue }

def undoDelete (sch : Schema) (s : Sess) (r : DelRec) : Sess :=
  if r.noop then s
  else { s with obj := setObj s.obj r.o r.ob, queue := r.queue,
                pkIx := s.pkIx.setOpt (if r.ob.status = .created then r.ob.pk else none) r.o,
                ixs := fun i => (s.ixs i).setOpt (kv sch r.ob.vals i) r.o }

/-- `parent._delete_()` that cascades to `children` (each `child._delete_(undo_funcs)` runs completely: index pops, status,
    queue) and is then REFUSED by a later collection (`ConstraintError`): `for undo_func in reversed(undo_funcs): undo_func()`.
    The recursion nests exactly like the reversed undo list: delete c₁, (delete c₂, (…), undo c₂), undo c₁. -/
def cascadeGo (sch : Schema) (s : Sess) : List ObjId → Sess
  | [] => s
  | c :: cs => undoDelete sch (cascadeGo sch (delete sch s c).1 cs) (delRec s c)

def cascadeFail (sch : Schema) (s : Sess) (children : List ObjId) : Sess × Res :=
  (cascadeGo sch s children, { err := some .constraint })

/-- `Entity._save_created_` after the INSERT succeeded; `newId` = the id the database generated -/
def saveCreated (s : Sess) (o : ObjId) (newId : Option Int) : Sess × Res :=
  if o ≥ s.n then (s, { err := some .badOp })
  else
    let ob := s.obj o
    if ob.status ≠ .created then (s, { err := some .badOp })
    else
      let fin (pkIx : Index) (pk : Option KeyVal) : Sess × Res :=
        -- status inserted; `_rbits_ = all`; `_wbits_ = 0`; `_update_dbvals_(True, …)`: None values become not-loaded
        let ob' : Obj :=
          { ob with
            status := .inserted, pk := pk, isNew := false,
            vals := fun a => if ob.vals a = .val none then .notLoaded else ob.vals a,
            dbvals := fun a => if ob.vals a = .val none then .notLoaded else ob.vals a,
            rbits := fun a => decide (ob.vals a ≠ .val none), wbits := fun _ => false }
        ({ s with obj := setObj s.obj o ob', pkIx := pkIx, queue := s.queue.erase o }, {})
      match ob.pk with
      | some _ => fin s.pkIx ob.pk
      | none =>
          match newId with
          | none => (s, { err := some .badOp })
          | some id =>
              -- `obj2 = cache_index.setdefault(new_id, obj); if obj2 is not obj: throw(TransactionIntegrityError)`
              match s.pkIx.get [id] with
              | some o2 => if o2 = o then fin s.pkIx (some [id]) else (s, { err := some .integrity })
              | none => fin (s.pkIx.set [id] o) (some [id])

/-- `Entity._save_updated_` after the UPDATE succeeded -/
def saveUpdated (s : Sess) (o : ObjId) : Sess × Res :=
  if o ≥ s.n then (s, { err := some .badOp })
  else
    let ob := s.obj o
    if ob.status ≠ .modified then (s, { err := some .badOp })
    else
      let ob' : Obj :=
        { ob with
          status := .updated, rbits := fun a => ob.rbits a || ob.wbits a, wbits := fun _ => false,
          dbvals := fun a => if ob.wbits a then ob.vals a else ob.dbvals a }
      ({ s with obj := setObj s.obj o ob', queue := s.queue.erase o }, {})

/-- `Entity._save_deleted_` after the DELETE: `cache.indexes[obj._pk_attrs_].pop(obj._pkval_)` -/
def saveDeleted (s : Sess) (o : ObjId) : Sess × Res :=
  if o ≥ s.n then (s, { err := some .badOp })
  else
    let ob := s.obj o
    if ob.status ≠ .markedToDelete then (s, { err := some .badOp })
    else ({ s with obj := setObj s.obj o { ob with status := .deleted }, pkIx := s.pkIx.eraseOpt ob.pk, queue := s.queue.erase o }, {})

def lookupKw (kw : List (Nat × Int)) (a : Nat) : Option Int :=
  match kw with
  | [] => none
  | (a', v) :: r => if a' = a then some v else lookupKw r a

/-- the candidate of `_find_in_cache_`: primary key, then the simple keys, then the composite keys -/
def kwVals (kw : List (Nat × Int)) : Nat → Slot :=
  fun a => match lookupKw kw a with
    | some v => .val (some v)
    | none => .notLoaded

def findCand (sch : Schema) (s : Sess) (pk : Option KeyVal) (kw : List (Nat × Int)) : Option ObjId :=
  match pk.bind s.pkIx.get with
  | some o => some o
  | none => (allKeys sch).findSome? fun i => (kv sch (kwVals kw) i).bind (s.ixs i).get

/-- the value loop of `_find_in_cache_`: `if val != attr.__get__(obj): throw(ObjectNotFound)` (the read sets the read bit) -/
def findCheck (ob : Obj) : List (Nat × Int) → Obj × Option Err
  | [] => (ob, none)
  | (a, v) :: r =>
      if ob.status = .deleted || ob.status = .cancelled then (ob, some .deletedObject)
      else if ob.vals a = .notLoaded then (ob, some .needLoad)
      else
        let ob' := setRbits ob [a]
        if ob.vals a ≠ .val (some v) then (ob', some .objectNotFound) else findCheck ob' r

/-- `_find_in_cache_(pkval, avdict)` (no `for_update`): yields the cached object, or nothing (then the database is asked) -/
def find (sch : Schema) (s : Sess) (cls : Nat) (pk : Option KeyVal) (kw : List (Nat × Int)) : Sess × Res :=
  match findCand sch s pk kw with
  | none => (s, {})
  | some o =>
      let ob := s.obj o
      if sch.parent.length > 1 && ob.isSeed then (s, { err := some .needLoad })      -- `if obj in seeds: obj._load_()`
      else if sch.parent.length > 1 && !sch.isSub ob.cls cls then (s, { err := some .objectNotFound })
      else if ob.status = .markedToDelete then (s, { err := some .objectNotFound })
      else match findCheck ob kw with
        | (ob', some e) => ({ s with obj := setObj s.obj o ob' }, { err := some e })
        | (ob', none) => ({ s with obj := setObj s.obj o (setRbits ob' (kw.map (·.1))) }, { yield := some o })

/-- `_find_in_cache_` when the primary-key index and every key index miss but a search value is an object whose reverse
    ONE-TO-ONE attribute is loaded (`obj = reverse.__get__(val)`): the candidate `via` comes from that relationship (an input
    here); the class / status / value checks are the same, and the primary key asked for is one of the compared values -/
def findVia (sch : Schema) (s : Sess) (cls : Nat) (pk : KeyVal) (via : ObjId) (kw : List (Nat × Int)) : Sess × Res :=
  if via ≥ s.n then (s, { err := some .badOp })
  else
    let ob := s.obj via
    if sch.parent.length > 1 && ob.isSeed then (s, { err := some .needLoad })
    else if sch.parent.length > 1 && !sch.isSub ob.cls cls then (s, { err := some .objectNotFound })
    else if ob.status = .markedToDelete then (s, { err := some .objectNotFound })
    else if ob.pk ≠ some pk then (s, { err := some .objectNotFound })        -- `if val != attr.__get__(obj)` for a pk attribute
    else match findCheck ob kw with
      | (ob', some e) => ({ s with obj := setObj s.obj via ob' }, { err := some e })
      | (ob', none) => ({ s with obj := setObj s.obj via (setRbits ob' (kw.map (·.1))) }, { yield := some via })

/-- `EntityProxy._get_object` for a proxy made from object `o`: `cache.indexes[pk_attrs][pkval]` if present -/
def proxy (s : Sess) (o : ObjId) : Sess × Res :=
  if o ≥ s.n then (s, { err := some .badOp })
  else match (s.obj o).pk with
    | none => (s, { err := some .badOp })
    | some k => match s.pkIx.get k with
        | some o' => (s, { yield := some o' })
        | none => (s, { err := some .needLoad })        -- falls back to `entity[pkval]`

/-- `entity._set_rbits(objects, used_attrs)` at the END of `_fetch_objects` (after all rows were processed) -/
def markRead (s : Sess) (os : List ObjId) (attrs : List Nat) : Sess × Res :=
  ({ s with obj := fun o => if os.contains o then setRbits (s.obj o) attrs else s.obj o }, {})

/-! ## 5. operations and `step` -/

inductive Op
  | create (cls : Nat) (pk : Option KeyVal) (vals : List (Option Int)) (lateFail : Bool)
  | seed (cls : Nat) (pk : KeyVal)
  | load (row : Row) (used : List Nat) (unpickling : Bool)
  | setAttrs (o : ObjId) (changes : List (Nat × Option Int))
  | read (o : ObjId) (a : Nat)
  | delete (o : ObjId)
  | saveCreated (o : ObjId) (newId : Option Int)
  | saveUpdated (o : ObjId)
  | saveDeleted (o : ObjId)
  | find (cls : Nat) (pk : Option KeyVal) (kw : List (Nat × Int))
  | proxy (o : ObjId)
  | markRead (os : List ObjId) (attrs : List Nat)
  | cascadeFail (children : List ObjId)
  | findVia (cls : Nat) (pk : KeyVal) (via : ObjId) (kw : List (Nat × Int))
deriving Repr

def stepR (sch : Schema) (s : Sess) : Op → Sess × Res
  | .create c pk vals lf => create sch s c pk vals lf
  | .seed c pk => seed sch s c pk
  | .load row used u => load sch s row used u
  | .setAttrs o ch => setAttrs sch s o ch
  | .read o a => read s o a
  | .delete o => delete sch s o
  | .saveCreated o id => saveCreated s o id
  | .saveUpdated o => saveUpdated s o
  | .saveDeleted o => saveDeleted s o
  | .find c pk kw => find sch s c pk kw
  | .proxy o => proxy s o
  | .markRead os attrs => markRead s os attrs
  | .cascadeFail cs => cascadeFail sch s cs
  | .findVia c pk via kw => findVia sch s c pk via kw

def step (sch : Schema) (s : Sess) (op : Op) : Sess := (stepR sch s op).1

def run (sch : Schema) (s : Sess) : List Op → Sess
  | [] => s
  | op :: ops => run sch (step sch s op) ops

/-! ## 6. executable check of the invariant (diagnostics for the driver; the proofs use `Inv` of Lemmas/KeyIndex) -/

def checkInv (sch : Schema) (s : Sess) : Bool :=
  -- every pk entry names an object that holds that pk and is entitled to it
  s.pkIx.all (fun p => s.pkIx.get p.1 != some p.2 ||
      (decide (p.2 < s.n) && decide ((s.obj p.2).pk = some p.1) && (s.obj p.2).status.holdsPk)) &&
  -- every entitled object with a pk is found under it
  (List.range s.n).all (fun o => match (s.obj o).pk with
      | some k => !(s.obj o).status.holdsPk || s.pkIx.get k == some o
      | none => true) &&
  (allKeys sch).all (fun i =>
    (s.ixs i).all (fun p => (s.ixs i).get p.1 != some p.2 ||
        (decide (p.2 < s.n) && !(s.obj p.2).status.isDel && decide (kv sch (s.obj p.2).vals i = some p.1))) &&
    (List.range s.n).all (fun o => match kv sch (s.obj o).vals i with
        | some v => (s.obj o).status.isDel || (s.ixs i).get v == some o
        | none => true))

end PonyVerif.Model.KeyIndex
