/-
  C07 — hand model of the value conversions between an attribute and its SQLite column:
  `validate → val2dbval → py2sql → (SQLite storage class) → sql2py → dbval2val`
  (pony/orm/dbapiprovider.py *Converter, pony/orm/dbproviders/sqlite.py SQLite*Converter,
  pony/utils/utils.py datetime2timestamp / timestamp2datetime).
  `roundMicrosT` is the typed mirror of the translated `round_microseconds_to_precision` (Gen/Micro.lean; bridge
  theorem in Props/C07.lean).  Tied to the real code on every run by harness/engines/c07.py.
  Core Lean only.
-/
namespace PonyVerif.Model.Store

/-! ### what SQLite holds -/

inductive Sql where
  | null
  | int (i : Int)               -- INTEGER (64-bit signed)
  | text (s : List Char)        -- TEXT
  | blob (b : List Nat)         -- BLOB (bytes 0..255)
  deriving Repr, DecidableEq, Inhabited

/-- what `sql2py` hands back: a value of the attribute's type, or — where the SQLite converters swallow the
    exception (`except: return val`) — the raw database value -/
inductive Loaded (α : Type) where
  | val (a : α)
  | raw (s : Sql)
  deriving Repr, DecidableEq

/-! ### decimal digits -/

def digitChar (d : Nat) : Char := Char.ofNat (48 + d)

/-- `'%0<w>d' % n` for `n < 10^w` (most significant digit first) -/
def padN : Nat → Nat → List Char
  | 0, _ => []
  | w + 1, n => padN w (n / 10) ++ [digitChar (n % 10)]

def digitVal (c : Char) : Option Nat :=
  if 48 ≤ c.toNat ∧ c.toNat ≤ 57 then some (c.toNat - 48) else none

def parseStep (acc : Option Nat) (c : Char) : Option Nat :=
  match acc, digitVal c with
  | some a, some d => some (a * 10 + d)
  | some _, none => none
  | none, _ => none

/-- value of a string of ASCII digits (none if any other character occurs) -/
def parseNat (s : List Char) : Option Nat := s.foldl parseStep (some 0)

/-- exactly `n` digits at the front of `s` -/
def takeDigits (n : Nat) (s : List Char) : Option (Nat × List Char) :=
  if s.length < n then none else
  match parseNat (s.take n) with
  | some v => some (v, s.drop n)
  | none => none

def expect (c : Char) (s : List Char) : Option (List Char) :=
  match s with
  | [] => none
  | x :: r => if x = c then some r else none

/-! ### bool, int, str, bytes -/

/-- BoolConverter: `validate = bool(val)`; sqlite3 binds a bool as INTEGER 0/1; `sql2py = bool(val)` -/
def boolToSql (b : Bool) : Sql := .int (if b then 1 else 0)
def boolFromSql : Sql → Loaded Bool
  | .int i => .val (i != 0)
  | .null => .raw .null
  | .text s => .val (!s.isEmpty)
  | .blob b => .val (!b.isEmpty)

/-- sqlite3 binds a Python int that fits 64 bits as INTEGER and raises OverflowError otherwise -/
def intToSql (i : Int) : Option Sql :=
  if -(2 ^ 63) ≤ i ∧ i < 2 ^ 63 then some (.int i) else none
/-- IntConverter.sql2py = `int(val)` -/
def intFromSql : Sql → Loaded Int
  | .int i => .val i
  | .null => .raw .null
  | .text s => .raw (.text s)
  | .blob b => .raw (.blob b)

/-- StrConverter: py2sql / sql2py are the identity; a TEXT / VARCHAR column has TEXT affinity -/
def strToSql (s : List Char) : Sql := .text s
def strFromSql : Sql → Loaded (List Char)
  | .text s => .val s
  | .null => .raw .null
  | .int i => .raw (.int i)
  | .blob b => .raw (.blob b)

/-- BlobConverter: identity; BLOB column -/
def bytesToSql (b : List Nat) : Sql := .blob b
def bytesFromSql : Sql → Loaded (List Nat)
  | .blob b => .val b
  | .null => .raw .null
  | .int i => .raw (.int i)
  | .text s => .raw (.text s)

/-! ### UUID: `py2sql = buffer(val.bytes)` (16 bytes, big endian), `sql2py = validate = UUID(bytes=val)` -/

/-- the `n` low-order bytes of `v`, most significant first (`int.to_bytes(n, 'big')`) -/
def toBytesBE : Nat → Nat → List Nat
  | 0, _ => []
  | n + 1, v => toBytesBE n (v / 256) ++ [v % 256]

/-- `int.from_bytes(b, 'big')` -/
def fromBytesBE (b : List Nat) : Nat := b.foldl (fun acc x => acc * 256 + x) 0

def uuidToSql (u : Nat) : Sql := .blob (toBytesBE 16 u)
def uuidFromSql : Sql → Loaded Nat
  | .blob b => if b.length = 16 then .val (fromBytesBE b) else .raw (.blob b)
  | .null => .raw .null
  | .int i => .raw (.int i)
  | .text s => .raw (.text s)

/-! ### date -/

structure Date where
  y : Nat
  m : Nat
  d : Nat
  deriving Repr, DecidableEq

def Date.valid (x : Date) : Prop := 1 ≤ x.y ∧ x.y ≤ 9999 ∧ 1 ≤ x.m ∧ x.m ≤ 12 ∧ 1 ≤ x.d ∧ x.d ≤ 31

/-- `SQLiteDateConverter.py2sql` = `val.isoformat()`: `YYYY-MM-DD`, the year zero-padded to four digits
    (since fix fcbaef7; before it `strftime('%Y-%m-%d')`, whose `%Y` glibc does not pad) -/
def dateToText (x : Date) : List Char :=
  padN 4 x.y ++ ('-' :: (padN 2 x.m ++ ('-' :: padN 2 x.d)))

def parseDateText (s : List Char) : Option Date :=
  match takeDigits 4 s with
  | none => none
  | some (y, s1) => match expect '-' s1 with
    | none => none
    | some s2 => match takeDigits 2 s2 with
      | none => none
      | some (m, s3) => match expect '-' s3 with
        | none => none
        | some s4 => match takeDigits 2 s4 with
          | none => none
          | some (d, s5) =>
            if s5 = [] ∧ 1 ≤ y ∧ 1 ≤ m ∧ m ≤ 12 ∧ 1 ≤ d ∧ d ≤ 31 then some ⟨y, m, d⟩ else none

def dateToSql (x : Date) : Sql := .text (dateToText x)

/-- `SQLiteDateConverter.sql2py`: `time.strptime(val[:10], '%Y-%m-%d')`, any exception → `return val`
    (modelled on zero-padded fixed-width fields, which is what `%Y` = four digits requires; day-of-month against the month
    length is not modelled — Pony never writes such a text) -/
def dateFromSql : Sql → Loaded Date
  | .text s => match parseDateText (s.take 10) with
    | some d => .val d
    | none => .raw (.text s)
  | .null => .raw .null
  | .int i => .raw (.int i)
  | .blob b => .raw (.blob b)

/-! ### microsecond rounding (typed mirror of the translated `round_microseconds_to_precision`) -/

/-- `none` = "no change is required" -/
def roundMicrosT (us p : Nat) : Option Nat :=
  if p = 0 then (if 0 ≠ us then some 0 else none)
  else if p < 6 then
    let r := 10 ^ (6 - p)
    let x := us / r * r
    if x ≠ us then some x else none
  else none

/-- the microsecond field after `validate` -/
def roundedUs (us p : Nat) : Nat :=
  match roundMicrosT us p with
  | some x => x
  | none => us

/-! ### time -/

structure Time where
  h : Nat
  mi : Nat
  s : Nat
  us : Nat
  deriving Repr, DecidableEq

def Time.valid (t : Time) : Prop := t.h < 24 ∧ t.mi < 60 ∧ t.s < 60 ∧ t.us < 1000000

/-- `TimeConverter.validate` on a `time` value with the attribute's precision -/
def timeValidate (p : Nat) (t : Time) : Time := { t with us := roundedUs t.us p }

/-- `time.isoformat()` (naive time): `HH:MM:SS` or `HH:MM:SS.ffffff` -/
def hmsText (h mi s : Nat) (rest : List Char) : List Char :=
  padN 2 h ++ (':' :: (padN 2 mi ++ (':' :: (padN 2 s ++ rest))))

def timeToText (t : Time) : List Char :=
  if t.us = 0 then hmsText t.h t.mi t.s [] else hmsText t.h t.mi t.s ('.' :: padN 6 t.us)

def parseHMS (s : List Char) : Option (Nat × Nat × Nat × List Char) :=
  match takeDigits 2 s with
  | none => none
  | some (h, s1) => match expect ':' s1 with
    | none => none
    | some s2 => match takeDigits 2 s2 with
      | none => none
      | some (mi, s3) => match expect ':' s3 with
        | none => none
        | some s4 => match takeDigits 2 s4 with
          | none => none
          | some (sec, s5) => if h < 24 ∧ mi < 60 ∧ sec < 62 then some (h, mi, sec, s5) else none

def zeros6 : List Char := ['0', '0', '0', '0', '0', '0']

/-- `%f`: one to six digits, right-padded with zeros -/
def parseFrac (f : List Char) : Option Nat :=
  if f.length = 0 ∨ 6 < f.length then none else parseNat ((f ++ zeros6).take 6)

def timeToSql (t : Time) : Sql := .text (timeToText t)

/-- `SQLiteTimeConverter.sql2py`: `strptime(val, '%H:%M:%S')` when `len(val) <= 8` else `'%H:%M:%S.%f'`; `dt.time()`;
    any exception → `return val` -/
def timeFromSql : Sql → Loaded Time
  | .text s =>
    if s.length ≤ 8 then
      match parseHMS s with
      | some (h, mi, sec, []) => if sec < 60 then .val ⟨h, mi, sec, 0⟩ else .raw (.text s)
      | some (_, _, _, _ :: _) => .raw (.text s)
      | none => .raw (.text s)
    else
      match parseHMS s with
      | some (h, mi, sec, '.' :: f) =>
        (match parseFrac f with
         | some us => if sec < 60 then .val ⟨h, mi, sec, us⟩ else .raw (.text s)
         | none => .raw (.text s))
      | some (_, _, _, []) => .raw (.text s)
      | some (_, _, _, _ :: _) => .raw (.text s)
      | none => .raw (.text s)
  | .null => .raw .null
  | .int i => .raw (.int i)
  | .blob b => .raw (.blob b)

/-! ### datetime -/

structure DateTime where
  date : Date
  time : Time
  deriving Repr, DecidableEq

def DateTime.valid (x : DateTime) : Prop := x.date.valid ∧ x.time.valid

def datetimeValidate (p : Nat) (x : DateTime) : DateTime := { x with time := timeValidate p x.time }

/-- `datetime.isoformat(' ')` -/
def isoDateTime (x : DateTime) : List Char := dateToText x.date ++ (' ' :: timeToText x.time)

/-- `pony.utils.datetime2timestamp` -/
def datetime2timestamp (x : DateTime) : List Char :=
  let result := isoDateTime x
  if result.length = 19 then result ++ ('.' :: zeros6) else result

/-- `pony.utils.timestamp2datetime`: `strptime(t[:19], '%Y-%m-%d %H:%M:%S')`,
    `microseconds = int((t[20:26] + '000000')[:6])` -/
def timestamp2datetime (t : List Char) : Option DateTime :=
  let head := t.take 19
  match parseDateText (head.take 10) with
  | none => none
  | some d => match expect ' ' (head.drop 10) with
    | none => none
    | some r => match parseHMS r with
      | some (h, mi, sec, []) =>
        (match parseNat ((((t.drop 20).take 6) ++ zeros6).take 6) with
         | some us => if sec < 60 then some ⟨d, ⟨h, mi, sec, us⟩⟩ else none
         | none => none)
      | some (_, _, _, _ :: _) => none
      | none => none

def datetimeToSql (x : DateTime) : Sql := .text (datetime2timestamp x)

/-- `SQLiteDatetimeConverter.sql2py`: `try: return timestamp2datetime(val) except: return val` -/
def datetimeFromSql : Sql → Loaded DateTime
  | .text s => match timestamp2datetime s with
    | some x => .val x
    | none => .raw (.text s)
  | .null => .raw .null
  | .int i => .raw (.int i)
  | .blob b => .raw (.blob b)

/-! ### Decimal: `quantize(Decimal(10) ** -scale)` with ROUND_HALF_EVEN (the default context) -/

/-- a finite Decimal: `(-1)^neg * coeff * 10^exp` -/
structure Dec where
  neg : Bool
  coeff : Nat
  exp : Int
  deriving Repr, DecidableEq

/-- `round-half-even (n / 10^k)` on naturals -/
def divRoundHalfEven (n k : Nat) : Nat :=
  let p := 10 ^ k
  let q := n / p
  let r := n % p
  if 2 * r < p then q else if 2 * r > p then q + 1 else if q % 2 = 0 then q else q + 1

/-- `val.quantize(Decimal(10) ** -scale)` (precision overflow — InvalidOperation — is outside the model) -/
def quantize (scale : Nat) (x : Dec) : Dec :=
  let target : Int := -(scale : Int)
  if x.exp ≥ target then { x with coeff := x.coeff * 10 ^ (x.exp - target).toNat, exp := target }
  else { x with coeff := divRoundHalfEven x.coeff (target - x.exp).toNat, exp := target }

/-! ### timedelta as text: `pony.converting.timedelta2str` / `str2timedelta` (INTERVAL literals of the non-SQLite dialects, str input of `validate`) -/

def isDigitC (c : Char) : Bool := (digitVal c).isSome

/-- `'%d' % n` for a natural number -/
def natDigits (n : Nat) : List Char :=
  if n < 10 then [digitChar n] else natDigits (n / 10) ++ [digitChar (n % 10)]
termination_by n
decreasing_by omega

/-- a normalised `datetime.timedelta`: `0 ≤ seconds < 86400`, `0 ≤ microseconds < 10^6`, days of either sign -/
structure TDelta where
  days : Int
  seconds : Nat
  us : Nat
  deriving Repr, DecidableEq

def TDelta.valid (t : TDelta) : Prop := t.seconds < 86400 ∧ t.us < 1000000
/-- the duration in microseconds -/
def TDelta.micros (t : TDelta) : Int := (t.days * 86400 + t.seconds) * 1000000 + t.us

/-- `pony.converting.timedelta2str` -/
def timedelta2str (td : TDelta) : List Char :=
  let total0 : Int := td.days * 86400 + td.seconds
  -- if td.days < 0: total_seconds = abs(total_seconds); if microseconds: total_seconds -= 1; microseconds = 1000000 - microseconds
  let total : Nat := if td.days < 0 then (if td.us ≠ 0 then (-total0).toNat - 1 else (-total0).toNat) else total0.toNat
  let us : Nat := if td.days < 0 then (if td.us ≠ 0 then 1000000 - td.us else td.us) else td.us
  let minutes0 := total / 60
  let seconds := total % 60
  let hours := minutes0 / 60
  let minutes := minutes0 % 60
  let result := natDigits hours ++ (':' :: (natDigits minutes ++ (':' :: (natDigits seconds ++ (if us ≠ 0 then '.' :: padN 6 us else [])))))
  if td.days ≥ 0 then result else '-' :: result

/-- `negative = s.startswith('-')`, and the text without that sign (`abs(int(h))`) -/
def stripNeg : List Char → Bool × List Char
  | [] => (false, [])
  | x :: r => if x = '-' then (true, r) else (false, x :: r)

/-- the unsigned part `h:m:s[.ffffff]` in microseconds -/
def parseTdBody (body : List Char) : Option Int :=
  match parseNat (body.takeWhile isDigitC), body.dropWhile isDigitC with
  | some h, ':' :: r2 =>
    (match parseNat (r2.takeWhile isDigitC), r2.dropWhile isDigitC with
     | some m, ':' :: r4 =>
       (match parseNat (r4.takeWhile isDigitC), r4.dropWhile isDigitC with
        | some sec, [] => some (((h * 3600 + m * 60 + sec : Nat) : Int) * 1000000)
        | some sec, '.' :: f =>
          (match parseNat ((f ++ zeros6).take 6) with
           | some us => some (((h * 3600 + m * 60 + sec : Nat) : Int) * 1000000 + (us : Int))
           | none => none)
        | _, _ => none)
     | _, _ => none)
  | _, _ => none

/-- `pony.converting.str2timedelta` on the texts `timedelta2str` writes: optional '-', `h:m:s`, optional `.ffffff`
    (`int()` of each field, `timedelta(hours=abs(h), minutes=m, seconds=s, microseconds=…)`, negated when the text starts
    with '-'); result in microseconds -/
def str2timedelta (s : List Char) : Option Int :=
  match parseTdBody (stripNeg s).2 with
  | some v => some (if (stripNeg s).1 then -v else v)
  | none => none


/-! ### SQLite column affinity: what happens to a TEXT value bound to a column of a given declared type -/

inductive Affinity where
  | integer | text | blob | real | numeric
  deriving Repr, DecidableEq

def isPrefixC : List Char → List Char → Bool
  | [], _ => true
  | _ :: _, [] => false
  | a :: p, b :: s => a == b && isPrefixC p s

def containsSub (sub : List Char) : List Char → Bool
  | [] => sub.isEmpty
  | c :: s => isPrefixC sub (c :: s) || containsSub sub s

/-- SQLite's rule (https://sqlite.org/datatype3.html §3.1) on the upper-cased declared type -/
def affinityOf (decl : List Char) : Affinity :=
  let d := decl.map Char.toUpper
  if containsSub "INT".toList d then .integer
  else if containsSub "CHAR".toList d || containsSub "CLOB".toList d || containsSub "TEXT".toList d then .text
  else if containsSub "BLOB".toList d || d.isEmpty then .blob
  else if containsSub "REAL".toList d || containsSub "FLOA".toList d || containsSub "DOUB".toList d then .real
  else .numeric

def isSpaceSql (c : Char) : Bool := c == ' ' || c == '\t' || c == '\n' || c == '\x0b' || c == '\x0c' || c == '\r'

def dropSign : List Char → List Char
  | [] => []
  | c :: r => if c == '+' || c == '-' then r else c :: r

/-- the part after the mantissa: an optional exponent `e[+-]digits` (at least one digit), then only spaces -/
def expTailOk : List Char → Bool
  | [] => true
  | c :: r =>
    if c == 'e' || c == 'E' then
      let r1 := dropSign r
      !(r1.takeWhile isDigitC).isEmpty && ((r1.dropWhile isDigitC).dropWhile isSpaceSql).isEmpty
    else ((c :: r).dropWhile isSpaceSql).isEmpty

/-- is the whole text a well-formed integer or real literal (what makes SQLite convert it in a numeric column) -/
def looksNumeric (s : List Char) : Bool :=
  let s2 := dropSign (s.dropWhile isSpaceSql)
  let ip := s2.takeWhile isDigitC
  let r1 := s2.dropWhile isDigitC
  match r1 with
  | '.' :: r =>
    let fp := r.takeWhile isDigitC
    if ip.isEmpty && fp.isEmpty then false else expTailOk (r.dropWhile isDigitC)
  | r => if ip.isEmpty then false else expTailOk r

/-- storage class of a bound TEXT value: `true` = stays TEXT, `false` = converted to INTEGER/REAL -/
def textStaysText (a : Affinity) (s : List Char) : Bool :=
  match a with
  | .text => true
  | .blob => true
  | .integer => !looksNumeric s
  | .real => !looksNumeric s
  | .numeric => !looksNumeric s




/-! ### int arrays: `json.dumps(items, separators=(',', ':'), …)` / `json.loads` on SQLite (SQLiteArrayConverter) -/

/-- `repr` of a Python int -/
def intText (i : Int) : List Char :=
  if i < 0 then '-' :: natDigits (-i).toNat else natDigits i.toNat

/-- one integer token: optional '-', then only digits (at least one) -/
def parseIntTok (t : List Char) : Option Int :=
  match t with
  | [] => none
  | c :: r =>
    if c = '-' then
      (if r.isEmpty then none else match parseNat r with
        | some n => some (-(n : Int))
        | none => none)
    else match parseNat (c :: r) with
      | some n => some (n : Int)
      | none => none

/-- split at every ',' -/
def splitComma : List Char → List (List Char)
  | [] => [[]]
  | c :: r =>
    if c = ',' then [] :: splitComma r
    else match splitComma r with
      | [] => [[c]]
      | t :: ts => (c :: t) :: ts

def joinComma : List (List Char) → List Char
  | [] => []
  | [t] => t
  | t :: u :: ts => t ++ (',' :: joinComma (u :: ts))

/-- `dumps(items)` for a list of ints: `[1,-2,3]` -/
def dumpsIntArray (l : List Int) : List Char := '[' :: (joinComma (l.map intText) ++ [']'])

/-- `json.loads` on such a text (only the shape `dumps` writes: no spaces, no nesting) -/
def loadsIntArray (s : List Char) : Option (List Int) :=
  match s with
  | '[' :: r =>
    (match r.getLast? with
     | some ']' =>
       let inner := r.dropLast
       if inner.isEmpty then some [] else (splitComma inner).mapM parseIntTok
     | _ => none)
  | _ => none



/-! ### JSON string literals as `json.dumps(…, ensure_ascii=False)` writes and `json.loads` reads them
    (str arrays and Json string values on SQLite) -/

def hexDigit (n : Nat) : Char := if n < 10 then Char.ofNat (48 + n) else Char.ofNat (87 + n)

def hexVal (c : Char) : Option Nat :=
  let n := c.toNat
  if 48 ≤ n ∧ n ≤ 57 then some (n - 48)
  else if 97 ≤ n ∧ n ≤ 102 then some (n - 87)
  else if 65 ≤ n ∧ n ≤ 70 then some (n - 55)
  else none

/-- `json.encoder.ESCAPE_DCT`: `"` `\` and the control characters; everything else (any code point ≥ 0x20) is written as it is -/
def escChar (c : Char) : List Char :=
  if c = '"' then ['\\', '"']
  else if c = '\\' then ['\\', '\\']
  else if c = '\n' then ['\\', 'n']
  else if c = '\r' then ['\\', 'r']
  else if c = '\t' then ['\\', 't']
  else if c = '\x08' then ['\\', 'b']
  else if c = '\x0c' then ['\\', 'f']
  else if c.toNat < 32 then ['\\', 'u', '0', '0', hexDigit (c.toNat / 16), hexDigit (c.toNat % 16)]
  else [c]

def escBody (s : List Char) : List Char := s.flatMap escChar

/-- `json.dumps(s)` for a str -/
def encodeJsonStr (s : List Char) : List Char := '"' :: (escBody s ++ ['"'])

/-- `json.decoder.scanstring` (strict) after the opening quote: the decoded text and what follows the closing quote -/
def decodeBody : List Char → Option (List Char × List Char)
  | [] => none
  | c :: r =>
    if c = '"' then some ([], r)
    else if c = '\\' then
      match r with
      | [] => none
      | e :: r2 =>
        if e = 'u' then
          match r2 with
          | a :: b :: c3 :: d :: r3 =>
            (match hexVal a, hexVal b, hexVal c3, hexVal d, decodeBody r3 with
             | some x1, some x2, some x3, some x4, some (t, rest) => some (Char.ofNat (((x1 * 16 + x2) * 16 + x3) * 16 + x4) :: t, rest)
             | _, _, _, _, _ => none)
          | _ => none
        else
          let lit : Option Char :=
            if e = '"' then some '"' else if e = '\\' then some '\\' else if e = '/' then some '/'
            else if e = 'n' then some '\n' else if e = 'r' then some '\r' else if e = 't' then some '\t'
            else if e = 'b' then some '\x08' else if e = 'f' then some '\x0c' else none
          match lit, decodeBody r2 with
          | some ch, some (t, rest) => some (ch :: t, rest)
          | _, _ => none
    else if c.toNat < 32 then none
    else match decodeBody r with
      | some (t, rest) => some (c :: t, rest)
      | none => none

/-- `dumps(items)` for a list of str -/
def dumpsStrArray (l : List (List Char)) : List Char := '[' :: (joinComma (l.map encodeJsonStr) ++ [']'])

/-- the items after `[`: string literals separated by ',' up to the closing ']' -/
def parseStrItems : Nat → List Char → Option (List (List Char))
  | 0, _ => none
  | fuel + 1, s =>
    match s with
    | [] => none
    | q :: r =>
      if q = '"' then
        match decodeBody r with
        | some (t, rest) =>
          (match rest with
           | [] => none
           | d :: rest2 =>
             if d = ',' then (match parseStrItems fuel rest2 with
               | some ts => some (t :: ts)
               | none => none)
             else if d = ']' ∧ rest2 = [] then some [t] else none)
        | none => none
      else none

def loadsStrArray (s : List Char) : Option (List (List Char)) :=
  match s with
  | [] => none
  | b :: r => if b = '[' then (if r = [']'] then some [] else parseStrItems r.length r) else none


/-! ### inline constants of a query (`SQLiteValue.__str__`): the literal written into the SQL text for a value -/

/-- `self.quote_str(datetime2timestamp(value))` (between the quotes) -/
def constDatetimeText (x : DateTime) : List Char := datetime2timestamp x
/-- `self.quote_str(str(value))` for a date: `str(date)` is `isoformat()` -/
def constDateText (x : Date) : List Char := dateToText x
/-- `self.quote_str(value.isoformat())` for a time -/
def constTimeText (t : Time) : List Char := timeToText t

end PonyVerif.Model.Store
