/-
  C26 — executable model of pony/orm/dbschema.py (DBSchema / Table / Column / DBIndex / ForeignKey registries and
  their duplicate checks, `order_tables_to_create`, `get_objects_to_create`) and of the naming functions of
  pony/orm/dbapiprovider.py (`normalize_name`, `get_default_*_name`) with the per-dialect overrides.

  Names are `List Char` (Python `str` restricted to ASCII: `str.lower/upper` are modelled by `Char.toLower/toUpper`).
  The object graph of dbschema.py (Table objects holding dicts of Column/Index/ForeignKey objects) is flattened into
  relations keyed by table name; Python dicts keep insertion order, so do the lists.  The *checks* are performed in
  the order in which the Python constructors perform them.
  Every stored name carries a ghost provenance tag `Src` (not present in Pony): `norm` = result of `normalize_name`,
  `explicit` = given verbatim by the user, `suffixed` = something was appended to a name after normalisation.
  Core Lean only.
-/
namespace PonyVerif.Model.Schema

abbrev Name := List Char

inductive Dialect | sqlite | postgres | mysql | oracle
  deriving DecidableEq, Repr, Inhabited

/-- `provider.max_name_len` (dbapiprovider.py:104 default 128 is overridden by all four providers) -/
def maxNameLen : Dialect → Nat
  | .sqlite => 1024 | .postgres => 63 | .mysql => 64 | .oracle => 30

def lower (n : Name) : Name := n.map Char.toLower
def upper (n : Name) : Name := n.map Char.toUpper

/-- `provider.normalize_name`: `name[:max_name_len]`, then `.lower()` (PostgreSQL, MySQL) / `.upper()` (Oracle) -/
def normalizeName (d : Dialect) (n : Name) : Name :=
  let t := n.take (maxNameLen d)
  match d with
  | .sqlite => t
  | .postgres => lower t
  | .mysql => lower t
  | .oracle => upper t

/-- does the schema class emit `CONSTRAINT name FOREIGN KEY` / `ALTER TABLE ADD` (False only for SQLiteSchema) -/
def namedForeignKeys : Dialect → Bool
  | .sqlite => false | _ => true

def str (s : String) : Name := s.toList
/-- the literal fragments of the name templates, as explicit character lists (kernel-friendly) -/
def sPk : Name := ['p', 'k', '_']
def sUnq : Name := ['u', 'n', 'q', '_']
def sIdx : Name := ['i', 'd', 'x', '_']
def sFk : Name := ['f', 'k', '_']
def sU : Name := ['_']
def sUU : Name := ['_', '_']
def sU2 : Name := ['_', '2']

def joinWith (sep : Name) : List Name → Name
  | [] => []
  | [x] => x
  | x :: xs => x ++ sep ++ joinWith sep xs

/-- `get_default_index_name` (table names are plain strings here, so `base_name` is the identity) -/
def defaultIndexName (d : Dialect) (tname : Name) (cols : List Name) (isPk isUnique m2m : Bool) : Name :=
  let raw :=
    if isPk then sPk ++ tname
    else if isUnique then sUnq ++ tname ++ sUU ++ joinWith (sU) cols
    else if m2m then sIdx ++ tname
    else sIdx ++ tname ++ sUU ++ joinWith (sU) cols
  normalizeName d (lower raw)

/-- `get_default_fk_name` -/
def defaultFkName (d : Dialect) (child : Name) (cols : List Name) : Name :=
  normalizeName d (lower (sFk ++ child ++ sUU ++ joinWith (sUU) cols))

/-- `get_default_entity_table_name` -/
def defaultEntityTableName (d : Dialect) (ent : Name) : Name := normalizeName d ent

/-- `get_default_m2m_table_name` -/
def defaultM2mTableName (d : Dialect) (ent attr revEnt : Name) (symmetric : Bool) : Name :=
  normalizeName d (if symmetric then ent ++ sU ++ attr else ent ++ sU ++ revEnt)

/-- `get_default_column_names(attr, reverse_pk_columns)` -/
def defaultColumnNames (d : Dialect) (attr : Name) : Option (List Name) → List Name
  | none => [normalizeName d attr]
  | some [_] => [normalizeName d attr]
  | some cols => cols.map (fun c => normalizeName d (attr ++ sU ++ c))

/-- `get_default_m2m_column_names(entity)` with `columns = entity._get_pk_columns_()` -/
def defaultM2mColumnNames (d : Dialect) (ent : Name) (pkCols : List Name) : List Name :=
  match pkCols with
  | [_] => [normalizeName d (lower ent)]
  | cols => cols.map (fun c => normalizeName d (lower ent ++ sU ++ c))

/-! ### the schema registries -/

inductive Src | norm | explicit | suffixed
  deriving DecidableEq, Repr, Inhabited

/-- `column.is_pk` / `index.is_pk`: `False`, `True` or the string `'auto'` -/
inductive PkKind | no | yes | auto
  deriving DecidableEq, Repr, Inhabited

structure Table where
  name : Name
  src : Src
  isM2m : Bool            -- `bool(table.m2m)`
  entities : List Name    -- `table.entities` (names), in insertion order
  root : Option Name      -- `_root_` of the entities mapped to the table
  pkSet : Bool            -- `table.pk_index is not None`
  deriving Repr, Inhabited

structure Column where
  table : Name
  name : Name
  src : Src
  notNull : Bool
  isPk : PkKind
  isPkPart : Bool
  isUnique : Bool
  deriving Repr, Inhabited

structure Index where
  table : Name
  name : Option Name
  src : Src
  cols : List Name
  isPk : PkKind
  isUnique : Bool
  deriving Repr, Inhabited

structure Fk where
  table : Name            -- child table
  name : Option Name
  src : Src
  cols : List Name
  parent : Name
  parentCols : List Name
  deriving Repr, Inhabited

structure Schema where
  tables : List Table := []
  columns : List Column := []
  indexes : List Index := []
  fks : List Fk := []
  /-- keys of `schema.names` (tables and named constraints share it); `schema.constraints` is the sub-dict of the
      constraint names and its own duplicate check is unreachable (`assert name not in schema.names` precedes it) -/
  names : List Name := []
  deriving Repr, Inhabited

structure Err where
  cls : String
  tag : String
  deriving Repr, DecidableEq, Inhabited

def tableNames (s : Schema) : List Name := s.tables.map (·.name)
def findTable (s : Schema) (n : Name) : Option Table := s.tables.find? (·.name == n)
def tableCols (s : Schema) (t : Name) : List Column := s.columns.filter (·.table == t)
def tableIdx (s : Schema) (t : Name) : List Index := s.indexes.filter (·.table == t)
def tableFks (s : Schema) (t : Name) : List Fk := s.fks.filter (·.table == t)

/-- all names registered in the shared name space: tables, named indexes, named foreign keys -/
def objNames (s : Schema) : List Name :=
  s.tables.map (·.name) ++ s.indexes.filterMap (·.name) ++ s.fks.filterMap (·.name)

/-- `Table.__init__` -/
def addTable (s : Schema) (name : Name) (src : Src) (entity : Option (Name × Name)) : Except Err Schema :=
  if name ∈ tableNames s then .error ⟨"DBSchemaError", "table-exists"⟩
  else if name ∈ s.names then .error ⟨"DBSchemaError", "table-name-in-use"⟩
  else
    let t : Table := { name := name, src := src, isM2m := false,
                       entities := match entity with | some (e, _) => [e] | none => [],
                       root := entity.map (·.2), pkSet := false }
    .ok { s with tables := s.tables ++ [t], names := s.names ++ [name] }

def updTable (s : Schema) (n : Name) (f : Table → Table) : Schema :=
  { s with tables := s.tables.map (fun t => if t.name == n then { f t with name := t.name } else t) }

/-- `Table.add_entity`: the hierarchy check, then `assert '_table_options_' not in entity.__dict__`
    (`_check_table_options_` has put `_table_options_` into the `__dict__` of every root entity, so the assertion
    fails exactly for root entities — reachable when the table has no entities, i.e. is a many-to-many table) -/
def addEntity (s : Schema) (t : Table) (ent root : Name) : Except Err Schema :=
  if t.entities ≠ [] ∧ t.root ≠ some root then .error ⟨"MappingError", "different-hierarchy"⟩
  else if ent = root then .error ⟨"AssertionError", "table-options-of-root-entity"⟩
  else .ok (updTable s t.name (fun t => { t with entities := t.entities ++ [ent], root := some root }))

/-- `Column.__init__` -/
def addColumn (s : Schema) (t : Name) (name : Name) (src : Src) (notNull : Bool) : Except Err Schema :=
  if t ∉ tableNames s then .error ⟨"Precondition", "no-such-table"⟩
  else if (tableCols s t).any (·.name == name) then .error ⟨"DBSchemaError", "column-exists"⟩
  else .ok { s with columns := s.columns ++ [{ table := t, name := name, src := src, notNull := notNull,
                                               isPk := .no, isPkPart := false, isUnique := false }] }

/-- the `index_name` argument of `add_index` / the `index` option of an attribute: `None`, `False`, `True`, a string -/
inductive IdxArg | none | false | true | name (n : Name)
  deriving Repr, DecidableEq, Inhabited

def orPk : PkKind → PkKind → PkKind
  | .no, k => k
  | k, _ => k

/-- `name is not None and name in schema.names` -/
def nameTaken (s : Schema) : Option Name → Bool
  | some n => s.names.contains n
  | none => false

/-- `table.pk_index = index` -/
def setPk (s : Schema) (t : Name) (isPk : PkKind) : Schema :=
  if isPk ≠ .no then updTable s t (fun t => { t with pkSet := true }) else s

/-- `column.is_pk = column.is_pk or (len(columns) == 1 and is_pk)` etc. for the columns of the new index -/
def flagColumns (columns : List Column) (t : Name) (cols : List Name) (isPk : PkKind) (uniq : Bool) : List Column :=
  columns.map (fun c =>
    if c.table == t && cols.contains c.name then
      { c with isPk := orPk c.isPk (if cols.length == 1 then isPk else .no),
               isPkPart := c.isPkPart || (isPk != .no),
               isUnique := c.isUnique || (uniq && cols.length == 1) }
    else c)

/-- the part of `DBIndex.__init__` after all checks: register the name, update the column flags, store the index -/
def commitIndex (s : Schema) (t : Name) (nm : Option (Name × Src)) (cols : List Name) (isPk : PkKind) (uniq : Bool) : Schema :=
  { setPk s t isPk with
    names := (setPk s t isPk).names ++ (nm.map (·.1)).toList
    columns := flagColumns (setPk s t isPk).columns t cols isPk uniq
    indexes := (setPk s t isPk).indexes ++ [{ table := t, name := nm.map (·.1), src := (nm.map (·.2)).getD .norm, cols := cols,
                                              isPk := isPk, isUnique := uniq }] }

/-- the name `add_index` passes on: `True` means `None`; `None` gets the provider's default name unless primary key -/
def indexNameOf (d : Dialect) (t : Name) (arg : IdxArg) (cols : List Name) (isPk : PkKind) (isUnique : Option Bool)
    (m2m : Bool) : Option (Name × Src) :=
  match arg with
  | .name n => some (n, .explicit)
  | _ => if isPk ≠ .no then none
         else some (defaultIndexName d t cols false (isUnique.getD false) m2m, .norm)

/-- `DBIndex.__init__` (+ `Constraint.__init__`) when `columns not in table.indexes` -/
def newIndex (s : Schema) (t : Name) (tbl : Table) (nm : Option (Name × Src)) (cols : List Name) (isPk : PkKind)
    (isUnique : Option Bool) : Except Err Schema :=
  if cols = [] then .error ⟨"AssertionError", "index-no-columns"⟩
  else if isPk ≠ .no ∧ tbl.pkSet then .error ⟨"DBSchemaError", "pk-already-defined"⟩
  else if isPk ≠ .no ∧ isUnique = some false then .error ⟨"DBSchemaError", "pk-not-unique"⟩
  else if nameTaken s (nm.map (·.1)) then .error ⟨"DBSchemaError", "index-name-in-use"⟩
  else .ok (commitIndex s t nm cols isPk (if isPk ≠ .no then true else isUnique.getD false))

/-- `if index and index.name == index_name and index.is_pk == is_pk and index.is_unique == is_unique: return index`,
    otherwise `DBIndex.__init__` fails on the existing key -/
def sameIndex (s : Schema) (ix : Index) (nm : Option (Name × Src)) (cols : List Name) (isPk : PkKind)
    (isUnique : Option Bool) : Except Err Schema :=
  if ix.name = nm.map (·.1) ∧ ix.isPk = isPk ∧ some ix.isUnique = isUnique then .ok s
  else if cols = [] then .error ⟨"AssertionError", "index-no-columns"⟩
  else .error ⟨"DBSchemaError", "index-exists"⟩

/-- `Table.add_index` followed by `DBIndex.__init__` (+ `Constraint.__init__`).
    `cols` are column names; the lookup `column_dict[name]` of `get_columns` is included (KeyError). -/
def addIndex (d : Dialect) (s : Schema) (t : Name) (arg : IdxArg) (cols : List Name) (isPk : PkKind)
    (isUnique : Option Bool) (m2m : Bool) : Except Err Schema :=
  match findTable s t with
  | none => .error ⟨"Precondition", "no-such-table"⟩
  | some tbl =>
    if cols.any (fun c => !(tableCols s t).any (·.name == c)) then .error ⟨"KeyError", "no-such-column"⟩
    else if arg = .false then .error ⟨"AssertionError", "index-name-false"⟩
    else
      match (tableIdx s t).find? (·.cols == cols) with
      | some ix => sameIndex s ix (indexNameOf d t arg cols isPk isUnique m2m) cols isPk isUnique
      | none => newIndex s t tbl (indexNameOf d t arg cols isPk isUnique m2m) cols isPk isUnique

def fkNameOf (d : Dialect) (child : Name) (cols : List Name) : Option Name → Name × Src
  | some n => (n, .explicit)
  | none => (defaultFkName d child cols, .norm)

/-- the registration part of `ForeignKey.__init__` -/
def commitFk (s : Schema) (child : Name) (nm : Name × Src) (cols : List Name) (parent : Name) (parentCols : List Name) : Schema :=
  { s with names := s.names ++ [nm.1],
           fks := s.fks ++ [{ table := child, name := some nm.1, src := nm.2, cols := cols, parent := parent, parentCols := parentCols }] }

/-- `if index_name is not False: if all(columns[:n] != child_columns for columns in child_table.indexes): add_index(...)` -/
def fkIndex (d : Dialect) (s1 : Schema) (child : Name) (cols : List Name) (index : IdxArg) (m2m : Bool) : Except Err Schema :=
  if index = .false then .ok s1
  else if (tableIdx s1 child).all (fun ix => ix.cols.take cols.length != cols) then
    addIndex d s1 child index cols .no (some false) m2m
  else .ok s1

/-- `Table.add_foreign_key` followed by `ForeignKey.__init__`, including the implicit index on the child columns -/
def addFk (d : Dialect) (s : Schema) (child : Name) (fkName : Option Name) (cols : List Name)
    (parent : Name) (parentCols : List Name) (index : IdxArg) : Except Err Schema :=
  match findTable s child, findTable s parent with
  | none, _ => .error ⟨"Precondition", "no-such-table"⟩
  | _, none => .error ⟨"Precondition", "no-such-table"⟩
  | some ctbl, some _ =>
    if cols.any (fun c => !(tableCols s child).any (·.name == c)) then .error ⟨"KeyError", "no-such-column"⟩
    else if parentCols.any (fun c => !(tableCols s parent).any (·.name == c)) then .error ⟨"KeyError", "no-such-column"⟩
    else if parentCols.length ≠ cols.length then .error ⟨"DBSchemaError", "fk-column-count"⟩
    else if (tableFks s child).any (·.cols == cols) then .error ⟨"DBSchemaError", "fk-exists"⟩
    else if (fkNameOf d child cols fkName).1 ∈ s.names then .error ⟨"DBSchemaError", "fk-name-in-use"⟩
    else fkIndex d (commitFk s child (fkNameOf d child cols fkName) cols parent parentCols) child cols index ctbl.isM2m

/-- `m2m_table.m2m.add(attr)` -/
def markM2m (s : Schema) (t : Name) : Schema := updTable s t (fun t => { t with isM2m := true })

/-! ### creation order -/

/-- `table.parent_tables` (names): parents of the foreign keys of `t`, self references excluded -/
def parents (s : Schema) (t : Name) : List Name :=
  ((tableFks s t).filter (fun f => f.parent != t)).map (·.parent)

def nameLe (a b : Name) : Bool := !(decide (b < a))

def ready (s : Schema) (created : List Name) (t : Name) : Bool := (parents s t).all (created.contains ·)

/-- the `while tables_to_create:` loop of `order_tables_to_create`: `created` is `created_tables`, `acc` is `tables`.
    A table taken by the `else: table = tables_to_create.pop()` branch is appended to `tables` but is NOT added to
    `created_tables`, so tables that depend on it are never "ready" and are popped as well. -/
def orderLoop (s : Schema) : Nat → List Name → List Name → List Name → List Name
  | 0, _, _, acc => acc
  | fuel + 1, todo, created, acc =>
    match todo.find? (ready s created) with
    | some t => orderLoop s fuel (todo.erase t) (created ++ [t]) (acc ++ [t])
    | none =>
      match todo.getLast? with
      | some t => orderLoop s fuel todo.dropLast created (acc ++ [t])
      | none => acc

/-- `DBSchema.order_tables_to_create` (names of the tables in creation order) -/
def orderTablesToCreate (s : Schema) : List Name :=
  let sorted := (tableNames s).mergeSort nameLe
  orderLoop s sorted.length sorted [] []

/-- commands of `generate_create_script` as abstract objects -/
inductive Cmd
  | table (t : Name)
  | index (t : Name) (name : Name)
  | fk (child : Name) (name : Name)
  deriving Repr, DecidableEq, Inhabited

def sortByName {α} (key : α → Name) (l : List α) : List α := l.mergeSort (fun a b => nameLe (key a) (key b))

/-- `Table.get_objects_to_create(created_tables)`; `created` already contains `t` -/
def objectsToCreate (d : Dialect) (s : Schema) (created : List Name) (t : Name) : List Cmd :=
  let idx := sortByName (fun ix => ix.name.getD []) ((tableIdx s t).filter (fun ix => ix.isPk == .no && !ix.isUnique))
  let own := sortByName (fun f => f.name.getD []) ((tableFks s t).filter (fun f => created.contains f.parent))
  -- `for child_table in table.child_tables` iterates a Python set: order unspecified, the model uses name order
  let children := ((tableNames s).filter (fun c => c != t && (parents s c).contains t && created.contains c)).mergeSort nameLe
  let fromChildren := children.flatMap (fun c => sortByName (fun f => f.name.getD []) ((tableFks s c).filter (fun f => f.parent == t)))
  Cmd.table t :: (idx.map (fun ix => Cmd.index t (ix.name.getD []))
    ++ (if namedForeignKeys d then (own ++ fromChildren).map (fun f => Cmd.fk f.table (f.name.getD [])) else []))

def createLoop (d : Dialect) (s : Schema) : List Name → List Name → List Cmd
  | [], _ => []
  | t :: rest, created => objectsToCreate d s (created ++ [t]) t ++ createLoop d s rest (created ++ [t])

/-- the object sequence of `generate_create_script` / `create_tables` -/
def createScript (d : Dialect) (s : Schema) : List Cmd := createLoop d s (orderTablesToCreate s) []

/-! ### operation lists (what `generate_mapping` performs on the schema; also the interface of the direct tie) -/

inductive Op
  | addTable (name : Name) (entity : Option (Name × Name))
  | addM2mTable (name : Name)
  | addEntity (table ent root : Name)
  | addColumn (table name : Name) (notNull : Bool)
  | addIndex (table : Name) (arg : IdxArg) (cols : List Name) (isPk : PkKind) (isUnique : Option Bool) (m2m : Bool)
  | addFk (child : Name) (name : Option Name) (cols : List Name) (parent : Name) (parentCols : List Name) (index : IdxArg)
  deriving Repr, Inhabited

def applyOp (d : Dialect) (s : Schema) : Op → Except Err Schema
  | .addTable n e => addTable s n .explicit e
  | .addM2mTable n => (addTable s n .explicit none).map (markM2m · n)
  | .addEntity t e r => match findTable s t with
      | some tbl => addEntity s tbl e r
      | none => .error ⟨"Precondition", "no-such-table"⟩
  | .addColumn t n nn => addColumn s t n .explicit nn
  | .addIndex t a c p u m => addIndex d s t a c p u m
  | .addFk c n cols p pc ix => addFk d s c n cols p pc ix

def runOps (d : Dialect) : Schema → List Op → Except Err Schema
  | s, [] => .ok s
  | s, op :: rest => match applyOp d s op with
      | .ok s' => runOps d s' rest
      | .error e => .error e

end PonyVerif.Model.Schema
