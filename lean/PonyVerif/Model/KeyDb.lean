/-
  Model/KeyDb.lean — a committed table with PRIMARY KEY / UNIQUE constraints, one Pony session over it (the key-index
  session of Model/KeyIndex.lean), flush / commit / rollback and a second writer (property C14).

  Mirrors pony/orm/core.py:
    Entity.flush (per-object flush: `_save_` of one object)                                            -> flushOne
    SessionCache.flush (queue order, `assert not cache.saved_objects`, nothing reset when a statement fails) -> flush / flushGo
    Entity._save_created_ (INSERT; IntegrityError -> TransactionIntegrityError; auto id; `setdefault(new_id, obj)`)
    Entity._save_updated_ (UPDATE of the written columns; rowcount 0 -> OptimisticCheckError), _save_deleted_ -> flushObj
    commit() = flush; on any exception `rollback()`; else provider.commit, `cache.immediate = True`   -> commit
    rollback() = cache.close(rollback=True): the session's objects are gone                           -> rollback
    EntityMeta._find_one_ for a primary key (cache first, else BEGIN IMMEDIATE if immediate, flush, SELECT) -> fetch
  and the database side (what SQLite does with the DDL Pony generates: PRIMARY KEY, UNIQUE per unique attribute,
  UNIQUE per composite key, NULLs exempt, every statement checked immediately, BEGIN IMMEDIATE excludes other writers):
    dbInsert / dbUpdate / dbDelete, `ext` = an INSERT through a second connection in autocommit mode.
  The ids the database generates for auto primary keys are inputs (`ids`): the theorems hold for ANY generated id.
  Core Lean only (linked into the driver).
-/
import PonyVerif.Model.KeyIndex
namespace PonyVerif.Model.KeyDb
open PonyVerif.Model.KeyIndex

/-! ## 1. the table -/

structure DbRow where
  pk : KeyVal
  vals : Nat → Option Int       -- column values, NULL = none

abbrev Table := List DbRow

def rowSlot (r : DbRow) : Nat → Slot := fun a => .val (r.vals a)

/-- tuple of key `i` of a row; none when a column is NULL (NULLs never conflict) -/
def rowKv (sch : Schema) (r : DbRow) (i : Nat) : Option KeyVal := kv sch (rowSlot r) i

/-- two rows agree on some unique / composite key -/
def keyClash (sch : Schema) (r x : DbRow) : Bool :=
  (allKeys sch).any fun i => match rowKv sch r i with
    | some v => rowKv sch x i == some v
    | none => false

/-- the rows cannot coexist: same primary key or a common key value -/
def clash (sch : Schema) (r x : DbRow) : Bool := decide (r.pk = x.pk) || keyClash sch r x

/-- INSERT: refused (IntegrityError) when the row clashes with an existing row -/
def dbInsert (sch : Schema) (t : Table) (r : DbRow) : Option Table :=
  if t.any (clash sch r) then none else some (t ++ [r])

def hasPk (t : Table) (pk : KeyVal) : Bool := t.any fun x => decide (x.pk = pk)

/-- UPDATE … WHERE pk: the new row must not share a key value with any OTHER row -/
def dbUpdate (sch : Schema) (t : Table) (r : DbRow) : Option Table :=
  if (t.filter fun x => decide (x.pk ≠ r.pk)).any (keyClash sch r) then none
  else some (t.map fun x => if x.pk = r.pk then r else x)

def dbDelete (t : Table) (pk : KeyVal) : Table := t.filter fun x => decide (x.pk ≠ pk)

def getRow (t : Table) (pk : KeyVal) : Option DbRow := t.find? fun x => decide (x.pk = pk)

/-! ## 2. session + database -/

structure World where
  committed : Table          -- what every other connection sees
  txn : Table                -- what the session's connection sees
  inTxn : Bool               -- `cache.in_transaction` (BEGIN IMMEDIATE was issued: other writers are locked out)
  immediate : Bool           -- `cache.immediate`
  sess : Sess
  pendingSaved : Bool        -- `cache.saved_objects` is not empty (a flush stopped after it had saved something)
  modified : Bool            -- `cache.modified` (set by create / assignment / delete, reset only by a flush that succeeded)
  forUpdate : List ObjId     -- `cache.for_update`: objects created by this cache since its last commit (no optimistic check)

def World.init : World := ⟨[], [], false, false, Sess.empty, false, false, []⟩

inductive WErr
  | sess (e : Err)            -- raised by the session call itself (CacheIndexError, …)
  | txnIntegrity              -- TransactionIntegrityError: the INSERT was refused by the database
  | integrity                 -- IntegrityError: the UPDATE was refused by the database
  | autoIdUsed                -- TransactionIntegrityError: 'Newly auto-generated id value … was already used'
  | optimistic                -- OptimisticCheckError (UPDATE matched no row)
  | assertion                 -- AssertionError (`assert not cache.saved_objects`)
  | locked                    -- the second connection could not write: database is locked
  | extIntegrity              -- the second connection's INSERT was refused
  | objectNotFound
  | badOp
deriving DecidableEq, Repr

/-- the row an object is written as (`None` and never-loaded columns are not sent / NULL) -/
def objRow (ob : Obj) (pk : KeyVal) : DbRow := { pk := pk, vals := fun a => (ob.vals a).key }

/-- the optimistic criteria of `_save_updated_` (`_construct_optimistic_criteria_`): every column the session has READ still
    has the value the session knows from the database (`IS NULL` for None) -/
def optimisticOk (sch : Schema) (ob : Obj) (old : DbRow) : Bool :=
  (List.range sch.nattrs).all fun a => !ob.rbits a || decide ((ob.dbvals a).key = old.vals a)

/-- the row after `UPDATE … SET <written columns>` -/
def updRow (ob : Obj) (old : DbRow) : DbRow :=
  { pk := old.pk, vals := fun a => if ob.wbits a then (ob.vals a).key else old.vals a }

structure FRes where
  w : World
  err : Option WErr
  ids : List Int             -- generated ids not consumed yet
  saved : Bool               -- this object was saved (`cache.saved_objects.append`)

/-- `_save_created_` with the primary key the row gets: INSERT, then the session transition -/
def flushInsert (sch : Schema) (w : World) (o : ObjId) (pk : KeyVal) (newId : Option Int) (ids' : List Int) : FRes :=
  match dbInsert sch w.txn (objRow (w.sess.obj o) pk) with
  | none => ⟨{ w with inTxn := true, immediate := true }, some .txnIntegrity, ids', false⟩
  | some t' =>
      match (saveCreated w.sess o newId).2.err with
      | some _ => ⟨{ w with txn := t', inTxn := true, immediate := true }, some .autoIdUsed, ids', false⟩
      | none => ⟨{ w with txn := t', inTxn := true, immediate := true, sess := (saveCreated w.sess o newId).1 }, none, ids', true⟩

/-- `obj._save_()` for one queued object: the statement goes to the database FIRST, then the session transition -/
def flushObj (sch : Schema) (w : World) (o : ObjId) (ids : List Int) : FRes :=
  let ob := w.sess.obj o
  match ob.status with
  | .created =>
      match ob.pk with
      | some k => flushInsert sch w o k none ids
      | none => match ids with
          | [] =>
              -- no id was generated: the INSERT itself was refused (a key tuple is taken; the generated id is always fresh)
              if w.txn.any (keyClash sch (objRow ob [])) then ⟨{ w with inTxn := true, immediate := true }, some .txnIntegrity, ids, false⟩
              else ⟨w, some .badOp, ids, false⟩
          | id :: r => flushInsert sch w o [id] (some id) r
  | .modified =>
      match ob.pk with
      | none => ⟨w, some .badOp, ids, false⟩
      | some k =>
          if (List.range sch.nattrs).any ob.wbits then
            match getRow w.txn k with
            | none => ⟨{ w with inTxn := true, immediate := true }, some .optimistic, ids, false⟩
            | some old =>
                -- `WHERE pk AND <optimistic criteria>` matched no row: OptimisticCheckError (not for objects in `cache.for_update`)
                if !w.forUpdate.contains o && !optimisticOk sch ob old then
                  ⟨{ w with inTxn := true, immediate := true }, some .optimistic, ids, false⟩
                else
                match dbUpdate sch w.txn (updRow ob old) with
                | none => ⟨{ w with inTxn := true, immediate := true }, some .integrity, ids, false⟩
                | some t' => ⟨{ w with txn := t', inTxn := true, immediate := true, sess := (saveUpdated w.sess o).1 }, none, ids, true⟩
          else ⟨{ w with sess := (saveUpdated w.sess o).1 }, none, ids, true⟩
  | .markedToDelete =>
      match ob.pk with
      | none => ⟨w, some .badOp, ids, false⟩
      | some k => ⟨{ w with txn := dbDelete w.txn k, inTxn := true, immediate := true, sess := (saveDeleted w.sess o).1 }, none, ids, true⟩
  | _ => ⟨w, some .badOp, ids, false⟩

/-- `for obj in cache.objects_to_save: obj._save_()`: stops at the first exception, nothing is undone -/
def flushGo (sch : Schema) : List ObjId → World → List Int → Bool → World × Option WErr × Bool
  | [], w, _, saved => (w, none, saved)
  | o :: q, w, ids, saved =>
      let r := flushObj sch w o ids
      match r.err with
      | some e => (r.w, some e, saved || r.saved)
      | none => flushGo sch q r.w r.ids (saved || r.saved)

/-- `cache.flush()` -/
def flush (sch : Schema) (w : World) (ids : List Int) : World × Option WErr :=
  if w.pendingSaved then (w, some .assertion)                      -- `assert not cache.saved_objects`
  else if !w.modified then (w, none)                               -- `if not cache.modified: return`
  else
    match flushGo sch w.sess.queue w ids false with
    | (w', some e, saved) => ({ w' with pendingSaved := saved }, some e)
    | (w', none, _) => ({ w' with modified := false }, none)

/-- `obj.flush()` (`Entity.flush`): one queued object is saved on its own — no other pending object is written,
    `cache.modified` stays set; the statement opens the transaction (`start_transaction=True` -> BEGIN IMMEDIATE) -/
def flushOne (sch : Schema) (w : World) (o : ObjId) (ids : List Int) (delAll : Bool) : World × Option WErr :=
  if o ≥ w.sess.n then (w, some .badOp)
  else if !((w.sess.obj o).status = .created || (w.sess.obj o).status = .modified || (w.sess.obj o).status = .markedToDelete) then (w, none)
  else if w.pendingSaved then (w, some .assertion)                 -- `assert not cache.saved_objects`
  -- `if obj._status_ == 'marked_to_delete': cache.flush(); return` (de6b988: the DELETE must not overtake what delete() queued
  -- before it); `delAll` says whether the tree's Entity.flush has that delegation (read from its source by the engine)
  else if delAll && (w.sess.obj o).status = .markedToDelete then flush sch w ids
  else ((flushObj sch w o ids).w, (flushObj sch w o ids).err)

/-- `rollback()`: the transaction is rolled back and the cache closed; the next call starts with an empty session -/
def rollback (w : World) : World :=
  { committed := w.committed, txn := w.committed, inTxn := false, immediate := false, sess := Sess.empty, pendingSaved := false,
    modified := false, forUpdate := [] }

/-- `commit()`: flush; any exception -> rollback and re-raise; else COMMIT -/
def commit (sch : Schema) (w : World) (ids : List Int) : World × Option WErr :=
  match flush sch w ids with
  | (w', some e) => (rollback w', some e)
  | (w', none) => ({ w' with committed := w'.txn, inTxn := false, immediate := true, forUpdate := [] }, none)   -- `cache.for_update.clear()`

/-- `E[pk]` / `E.get(pk)`: the cache first; else (BEGIN IMMEDIATE when `immediate`), flush, SELECT -/
def fetch (sch : Schema) (w : World) (cls : Nat) (pk : KeyVal) (ids : List Int) : World × Option WErr :=
  match find sch w.sess cls (some pk) [] with
  | (s1, { err := some e, .. }) => ({ w with sess := s1 }, some (if e = .objectNotFound then .objectNotFound else .sess e))
  | (s1, { err := none, yield := some _ }) => ({ w with sess := s1 }, none)
  | (s1, { err := none, yield := none }) =>
      let w1 := { w with sess := s1, inTxn := w.inTxn || w.immediate }
      match (if w1.modified then flush sch w1 ids else (w1, none)) with      -- `if cache.modified: cache.flush()`
      | (w2, some e) => (w2, some e)
      | (w2, none) =>
          match getRow w2.txn pk with
          | none => (w2, some .objectNotFound)
          | some r =>
              match load sch w2.sess { cls := cls, pk := pk, vals := (List.range sch.nattrs).map (rowSlot r) } [] false with
              | (s3, { err := some e, .. }) => ({ w2 with sess := s3 }, some (.sess e))
              | (s3, _) => ({ w2 with sess := s3 }, none)

/-- a statement of the second connection (autocommit) -/
inductive ExtStmt
  | insert (r : DbRow)
  | update (pk : KeyVal) (a : Nat) (v : Option Int)
  | delete (pk : KeyVal)

def ext (sch : Schema) (w : World) (st : ExtStmt) : World × Option WErr :=
  if w.inTxn then (w, some .locked)
  else match st with
    | .insert r => match dbInsert sch w.committed r with
        | none => (w, some .extIntegrity)
        | some t' => ({ w with committed := t', txn := t' }, none)
    | .update pk a v => match getRow w.committed pk with
        | none => (w, none)                                   -- UPDATE of no row
        | some old => match dbUpdate sch w.committed { pk := old.pk, vals := fun a' => if a' = a then v else old.vals a' } with
            | none => (w, some .extIntegrity)
            | some t' => ({ w with committed := t', txn := t' }, none)
    | .delete pk => ({ w with committed := dbDelete w.committed pk, txn := dbDelete w.committed pk }, none)

inductive WOp
  | sess (op : Op)             -- create / setAttrs / delete / read (the engine sends only these)
  | fetch (cls : Nat) (pk : KeyVal) (ids : List Int)
  | flush (ids : List Int)
  | flushOne (o : ObjId) (ids : List Int) (delAll : Bool)
  | commit (ids : List Int)
  | rollback
  | ext (st : ExtStmt)

/-- session calls allowed in a C14 history (the `_save_*_` transitions and row loads happen only inside flush / fetch) -/
def sessOpOk : Op → Bool
  | .create .. | .setAttrs .. | .delete .. | .read .. => true
  | _ => false

/-- does the (successful) call set `cache.modified`: a constructor; an assignment to an object that is not `created`;
    a delete of an object that is neither `created` nor already deleted -/
def marksModified (s : Sess) : Op → Bool
  | .create .. => true
  | .setAttrs o _ => !(s.obj o).isNew
  | .delete o => !(s.obj o).status.isDel && (s.obj o).status != .created
  | _ => false

def stepW (sch : Schema) (w : World) : WOp → World × Option WErr
  | .sess op =>
      if sessOpOk op then
        let (s', r) := stepR sch w.sess op
        ({ w with sess := s', modified := w.modified || (r.err.isNone && marksModified w.sess op),
                  forUpdate := match op, r.yield with
                    | .create .., some x => x :: w.forUpdate          -- `cache.for_update.add(obj)` in the identity map
                    | _, _ => w.forUpdate }, r.err.map .sess)
      else (w, some .badOp)
  | .fetch c pk ids => fetch sch w c pk ids
  | .flush ids => flush sch w ids
  | .flushOne o ids da => flushOne sch w o ids da
  | .commit ids => commit sch w ids
  | .rollback => (rollback w, none)
  | .ext st => ext sch w st

def runW (sch : Schema) (w : World) : List WOp → World
  | [] => w
  | op :: ops => runW sch (stepW sch w op).1 ops

/-! ## 3. executable check of `Inv_dbkeys` (diagnostics for the driver) -/

def keysOkB (sch : Schema) : Table → Bool
  | [] => true
  | r :: t => !t.any (clash sch r) && keysOkB sch t

end PonyVerif.Model.KeyDb
