/-
  C36 — hand model of `pony/orm/dbproviders/oracle.py: OraPool` under `os.fork()` (as written):

      def __init__(pool, **kwargs):  pool.kwargs = kwargs; pool.cx_pool = cx_Oracle.SessionPool(**kwargs); pool.pid = os.getpid()
      def connect(pool):
          pid = os.getpid()
          if pool.pid != pid:
              pool.forked_pools.append((pool.cx_pool, pool.pid))
              pool.cx_pool = cx_Oracle.SessionPool(**pool.kwargs)     # may raise: cx_pool and pid keep their old values
              pool.pid = os.getpid()
          con = pool.cx_pool.acquire()                                 # may raise
          return con, True
      def release(pool, con): pool.cx_pool.release(con)
      def drop(pool, con):    pool.cx_pool.drop(con)
      def disconnect(pool):   pass

  A session pool is stamped with a serial number and the pid of the process that created it; a connection with the
  session pool it was acquired from.  `fork` copies the record.  Core Lean only.
-/
namespace PonyVerif.Model.OraPool

structure SPool where
  serial : Nat
  creator : Nat
  deriving DecidableEq, Repr

structure OConn where
  serial : Nat
  pool : SPool
  deriving DecidableEq, Repr

structure Rec where
  cx : SPool
  pid : Nat
  forked : List (SPool × Nat)      -- OraPool.forked_pools
  deriving DecidableEq, Repr

structure Proc where
  pid : Nat
  r : Rec
  held : Option OConn
  deriving DecidableEq, Repr

inductive Act where
  | connect
  | connectFail     -- the first call of `connect` that can raise does: `SessionPool(**kwargs)` for a stale record, `acquire()` otherwise
  | stmt
  | release
  | drop
  | disconnect
  deriving DecidableEq, Repr

inductive Ev where
  | act (p : Nat) (a : Act)
  | fork (p : Nat)
  deriving DecidableEq, Repr

def Ev.actor : Ev → Nat
  | .act p _ => p
  | .fork p => p

structure Out where
  returned : Option OConn := none
  stmts : List OConn := []
  released : List (OConn × SPool) := []     -- (connection, the session pool whose release()/drop() was called with it)
  failed : Bool := false
  assertError : Bool := false
  deriving Repr

def recConnect (me serial : Nat) (fail : Bool) (r : Rec) : Rec × Out :=
  if r.pid ≠ me then
    let parked := { r with forked := r.forked ++ [(r.cx, r.pid)] }
    if fail then (parked, { failed := true })
    else
      let np : SPool := { serial := serial, creator := me }
      ({ parked with cx := np, pid := me }, { returned := some { serial := serial, pool := np } })
  else if fail then (r, { failed := true })
  else (r, { returned := some { serial := serial, pool := r.cx } })

def localStep (serial : Nat) (q : Proc) : Act → Proc × Out
  | .connect =>
    match q.held with
    | some _ => (q, { assertError := true })
    | none => let x := recConnect q.pid serial false q.r; ({ q with r := x.1, held := x.2.returned }, x.2)
  | .connectFail =>
    match q.held with
    | some _ => (q, { assertError := true })
    | none => let x := recConnect q.pid serial true q.r; ({ q with r := x.1, held := x.2.returned }, x.2)
  | .stmt =>
    match q.held with
    | some c => (q, { stmts := [c] })
    | none => (q, {})
  | .release =>
    match q.held with
    | some c => ({ q with held := none }, { released := [(c, q.r.cx)] })
    | none => (q, {})
  | .drop =>
    match q.held with
    | some c => ({ q with held := none }, { released := [(c, q.r.cx)] })
    | none => (q, {})
  | .disconnect => (q, {})

structure World where
  procs : List Proc
  nextPid : Nat
  nextSerial : Nat
  returned : List (Nat × OConn) := []
  deriving Repr

/-- the root process binds the database: `OraPool.__init__` creates the first session pool and records the pid -/
def init : World :=
  { procs := [{ pid := 0, r := { cx := { serial := 0, creator := 0 }, pid := 0, forked := [] }, held := none }], nextPid := 1, nextSerial := 1 }

def step (w : World) : Ev → World
  | .act p a =>
    { w with
      procs := w.procs.map (fun q => if q.pid = p then (localStep w.nextSerial q a).1 else q)
      nextSerial := w.nextSerial + 1
      returned := w.returned ++ (w.procs.filterMap (fun q => if q.pid = p then (localStep w.nextSerial q a).2.returned else none)).map (fun c => (p, c)) }
  | .fork p =>
    { w with
      procs := w.procs ++ (w.procs.filter (fun q => q.pid = p)).map (fun q => { q with pid := w.nextPid })
      nextPid := w.nextPid + 1 }

def run (w : World) (evs : List Ev) : World := evs.foldl step w

end PonyVerif.Model.OraPool
