/-
  Typed mirrors of `combine_limit_and_offset`, `Query.__getitem__`, `Query.page` (hand-written; tied to the
  definitions regenerated from the source by the bridge theorems in Props/C24.lean), the LIMIT/OFFSET window
  semantics of SQL and the list-level reading of the query methods `get`, `exists`, `first`.
  Core Lean only.
-/
namespace PonyVerif.Model.Limit

/-- typed mirror of `sqltranslation.combine_limit_and_offset` on well-typed inputs (`None` ↦ `none`) -/
def combineT (l o l2 o2 : Option Nat) : Option Nat × Option Nat :=
  let l1 : Option Nat := match o2 with
    | none => l
    | some k => l.map (fun x => x - k)
  let o1 : Option Nat := match o2 with
    | none => o
    | some k => some (o.getD 0 + k)
  let l' : Option Nat := match l2 with
    | none => l1
    | some m => match l1 with
      | none => some m
      | some x => some (min x m)
  (l', if l' = some 0 then none else o1)

/-- SQL `LIMIT l OFFSET o` applied to the ordered result `R` (`none` limit = unbounded; `none` offset = 0).
    SQLite's `LIMIT -1` and MySQL's `LIMIT 18446744073709551615` (what `SQLBuilder.LIMIT` emits for
    `limit is None`) are this `none`. -/
def window (lo : Option Nat × Option Nat) (R : List α) : List α :=
  let d := R.drop (lo.2.getD 0)
  match lo.1 with
  | none => d
  | some l => d.take l

/-- Python `R[a:b]` for non-negative bounds (`none` = omitted). -/
def pySlice (R : List α) (a : Option Nat) (b : Option Nat) : List α :=
  match b with
  | none => R.drop (a.getD 0)
  | some b => (R.take b).drop (a.getD 0)

/-- typed mirror of `Query.__getitem__` for a slice with step ∈ {None, 1}: the (limit, offset) handed to `_fetch` -/
def getitemT (start stop : Option Nat) : Option Nat × Option Nat :=
  let s := start.getD 0
  match stop with
  | none => if s = 0 then (none, none) else (none, some s)
  | some e => if s ≥ e then (some 0, none) else (some (e - s), some s)

/-- typed mirror of `Query.page` (pagenum ≥ 1): the (limit, offset) handed to `_fetch` -/
def pageT (pagenum pagesize : Nat) : Option Nat × Option Nat :=
  (some pagesize, some ((pagenum - 1) * pagesize))

inductive GetResult (α : Type) where
  | none | one (x : α) | multiple
  deriving Repr, DecidableEq

/-- `Query.get()`: fetches with `limit=2` and inspects what came back (core.py `Query.get`). -/
def getViaLimit (R : List α) : GetResult α :=
  match window (some 2, none) R with
  | [] => .none
  | [x] => .one x
  | _ => .multiple

/-- the list-level meaning of `get` -/
def getSpec (R : List α) : GetResult α :=
  match R with
  | [] => .none
  | [x] => .one x
  | _ :: _ :: _ => .multiple

/-- `Query.exists()`: fetches with `limit=1` (core.py `Query.exists`) -/
def existsViaLimit (R : List α) : Bool := !(window (some 1, none) R).isEmpty

/-- `Query.first()`: `limit=1`, first row or None -/
def firstViaLimit (R : List α) : Option α := (window (some 1, none) R).head?

end PonyVerif.Model.Limit
