/-
  Model/Rel.lean — the in-memory relationship model (property C12; meant to be imported and extended by
  C11 key indexes, C13 undo of failed calls, C15 cascade delete).

  Mirrors, for fully loaded in-memory objects, the relationship part of pony/orm/core.py:
    Attribute.__set__ / update_reverse            -> attrSetTop / attrSetRev / attrClearRev
    Set.reverse_add / Set.reverse_remove          -> reverseAdd / reverseRemove
    Set.__set__ (also SetInstance.clear)          -> setCollCore
    SetInstance.add / SetInstance.remove          -> collAdd / collRemove
    Entity.__init__ (relationship part)           -> create
    Entity._delete_ (relationship part)           -> delete
  including the do/undo structure: every mutation for which the code registers an undo closure pushes the
  inverse on `St.trail`; mutations the code performs WITHOUT registering an inverse are performed without one
  here too (the direct `_vals_` writes of `Entity.__init__` to the object under construction, the collection
  rewrites that follow the `try` block of a user call); a failing top-level call runs the trail newest-first
  exactly as `for undo_func in reversed(undo_funcs): undo_func()`.

  The code mirrored is /repo AFTER the repairs found with this check: ac6c1c2 (Set.__set__ registers an undo when called
  with an undo list), 42ccfa3 (_delete_ clears a one-to-one partner only if it still points back), 34f1ffe (no clearing of
  the object itself under a symmetric attribute), 8185edc (_delete_: a re-entered frame stops when a nested frame of the
  same object has finished; the status undo is registered just before the status change), 497b8cf (Set.__set__ drops
  the items that its own cascade has deleted: `finalRow`).

  Sections: 1 schema · 2 object store · 3 undo trail · 4 result monad · 5 per-attribute procedures ·
            6 collection procedures · 7 delete · 8 top-level calls · 9 operations and `step`.

  Not modelled (say so in the evidence): keys/indexes, `objects_to_save`, `added/removed/count/absent`
  bookkeeping of SetData, read/write bits, lazy loading (objects are fully loaded), `Entity.set(**kw)`,
  composite/relationship primary keys, inheritance.  Python `set` iteration order is replaced by ascending
  object id.  Core Lean only (linked into the driver).
-/
namespace PonyVerif.Model.Rel

/-! ## 1. Schema -/

abbrev ObjId := Nat
abbrev EntId := Nat

/-- one END of a relationship as declared on an entity (`Optional/Required/Set` + options after `Attribute.linked`) -/
structure Side where
  ent : EntId          -- entity the attribute is declared on
  isColl : Bool        -- `Set(...)`
  required : Bool      -- `Required(...)`
  cascade : Bool       -- effective `cascade_delete` (after `linked()` applied the default)
deriving DecidableEq, Repr, Inhabited

/-- a pair of reverse attributes; `sym` = symmetric attribute (its own reverse, `b` unused) -/
structure RelDecl where
  a : Side
  b : Side
  sym : Bool
deriving DecidableEq, Repr, Inhabited

abbrev Schema := List RelDecl

/-- attribute id: relationship index + side (`false` = side a) -/
structure Attr where
  rel : Nat
  side : Bool
deriving DecidableEq, Repr, Inhabited

namespace Schema

def side (sch : Schema) (a : Attr) : Option Side :=
  match sch[a.rel]? with
  | none => none
  | some r => if r.sym then (if a.side then none else some r.a) else some (if a.side then r.b else r.a)

/-- `attr.reverse` -/
def rev (sch : Schema) (a : Attr) : Attr :=
  match sch[a.rel]? with
  | none => a
  | some r => if r.sym then a else ⟨a.rel, !a.side⟩

/-- entity of the values of `a` (= entity of the reverse attribute) -/
def target (sch : Schema) (a : Attr) : Option EntId := (sch.side (sch.rev a)).map (·.ent)

/-- all attribute ids in declaration order (rel 0 side a, rel 0 side b, rel 1 side a, ...) -/
def allAttrs (sch : Schema) : List Attr :=
  (List.range sch.length).flatMap fun i => [⟨i, false⟩, ⟨i, true⟩]

/-- `entity._attrs_` restricted to relationship attributes, in declaration order -/
def attrsOf (sch : Schema) (e : EntId) : List Attr :=
  sch.allAttrs.filter fun a => match sch.side a with
    | some d => d.ent == e
    | none => false

def isCollAttr (sch : Schema) (a : Attr) : Bool :=
  match sch.side a with
  | some d => d.isColl
  | none => false

end Schema

/-! ## 2. Object store -/

/-- objects are `0 .. n-1`; rows `≥ n` are garbage (a failed `create` leaves its row behind, unreachable) -/
structure Store where
  n : Nat
  ent : ObjId → EntId
  alive : ObjId → Bool                      -- `_status_ not in del_statuses`
  ref : ObjId → Attr → Option ObjId         -- `obj._vals_[attr]` of a reference attribute
  mem : ObjId → Attr → ObjId → Bool         -- `item in obj._vals_[attr]` (SetData contents)

namespace Store

def empty : Store := ⟨0, fun _ => 0, fun _ => false, fun _ _ => none, fun _ _ _ => false⟩

def setRef (s : Store) (o : ObjId) (a : Attr) (v : Option ObjId) : Store :=
  { s with ref := fun o' a' => if o' = o ∧ a' = a then v else s.ref o' a' }

def setMem (s : Store) (o : ObjId) (a : Attr) (x : ObjId) (b : Bool) : Store :=
  { s with mem := fun o' a' x' => if o' = o ∧ a' = a ∧ x' = x then b else s.mem o' a' x' }

/-- replace the whole contents of one collection (`setdata.clear(); setdata |= new_items`) -/
def setRow (s : Store) (o : ObjId) (a : Attr) (f : ObjId → Bool) : Store :=
  { s with mem := fun o' a' x' => if o' = o ∧ a' = a then f x' else s.mem o' a' x' }

def setAlive (s : Store) (o : ObjId) (b : Bool) : Store :=
  { s with alive := fun o' => if o' = o then b else s.alive o' }

/-- a fresh object row: `obj._vals_ = {}`, status `created` -/
def alloc (s : Store) (e : EntId) : Store :=
  { n := s.n + 1
    ent := fun o => if o = s.n then e else s.ent o
    alive := fun o => if o = s.n then true else s.alive o
    ref := fun o a => if o = s.n then none else s.ref o a
    mem := fun o a x => if o = s.n then false else s.mem o a x }

/-- contents of a collection in ascending id order (stands for iterating a Python `set`) -/
def members (s : Store) (o : ObjId) (a : Attr) : List ObjId :=
  (List.range s.n).filter fun x => s.mem o a x

end Store

/-! ## 3. Undo trail -/

/-- one registered undo closure (`undo_funcs.append(undo_func)`) -/
inductive Undo
  | ref (o : ObjId) (a : Attr) (old : Option ObjId)   -- Attribute.__set__: `obj._vals_[attr] = old_val`
  | memDel (o : ObjId) (a : Attr) (x : ObjId)          -- Set.reverse_add: `setdata.remove(item)`
  | memAdd (o : ObjId) (a : Attr) (x : ObjId)          -- Set.reverse_remove: `setdata.add(item)`
  | row (o : ObjId) (a : Attr) (old : ObjId → Bool)    -- Set.__set__ (reverse call): `setdata.clear(); setdata.update(old_items)`
  | status (o : ObjId) (old : Bool)                    -- Entity._delete_: `obj._status_ = status`
  | created (n : Nat)                                  -- _get_from_identity_map_: `cache.objects.discard(obj)`

def undo1 (s : Store) : Undo → Store
  | .ref o a old => s.setRef o a old
  | .memDel o a x => s.setMem o a x false
  | .memAdd o a x => s.setMem o a x true
  | .row o a old => s.setRow o a old
  | .status o old => s.setAlive o old
  | .created n => { (s.setAlive n false) with n := n }

/-- `for undo_func in reversed(undo_funcs): undo_func()` (the trail is kept newest-first) -/
def undoAll : List Undo → Store → Store
  | [], s => s
  | u :: us, s => undoAll us (undo1 s u)

/-- execution state of one top-level call -/
structure St where
  store : Store
  trail : List Undo := []

/-! ## 4. Result monad -/

inductive Err
  | objectDeleted      -- OperationWithDeletedObjectError
  | valueError         -- ValueError (required attribute set to None)
  | typeError          -- TypeError (value of another entity)
  | constraintError    -- ConstraintError
  | assertionError     -- AssertionError (internal `assert` of reverse_add / reverse_remove)
  | recursionError     -- RecursionError (cascade cycle)
  | noSuchObject       -- not expressible in Python (unknown id)
  | noSuchAttr         -- not expressible in Python (attribute of another entity / wrong kind)
deriving DecidableEq, Repr

inductive Res
  | ok (st : St)
  | err (e : Err) (st : St)

def Res.st : Res → St
  | .ok st => st
  | .err _ st => st

def Res.bind : Res → (St → Res) → Res
  | .ok st, f => f st
  | .err e st, _ => .err e st

def iter {α : Type} (f : α → St → Res) : List α → St → Res
  | [], st => .ok st
  | x :: xs, st => (f x st).bind (iter f xs)

def St.log (st : St) (u : Undo) : St := { st with trail := u :: st.trail }
def St.setStore (st : St) (s : Store) : St := { st with store := s }

/-! ## 5. Per-attribute procedures (reverse calls) -/

/-- one iteration of `Set.reverse_add(attr=c, objects, item, undo_funcs)` -/
def reverseAdd1 (c : Attr) (item : ObjId) (obj : ObjId) (st : St) : Res :=
  if st.store.mem obj c item then .err .assertionError st                    -- assert item not in setdata
  else .ok ((st.setStore (st.store.setMem obj c item true)).log (.memDel obj c item))

def reverseAdd (c : Attr) (objs : List ObjId) (item : ObjId) : St → Res :=
  iter (reverseAdd1 c item) objs

/-- one iteration of `Set.reverse_remove(attr=c, objects, item, undo_funcs)` -/
def reverseRemove1 (c : Attr) (item : ObjId) (obj : ObjId) (st : St) : Res :=
  if st.store.mem obj c item then .ok ((st.setStore (st.store.setMem obj c item false)).log (.memAdd obj c item))
  else .err .assertionError st                                               -- assert item in setdata

def reverseRemove (c : Attr) (objs : List ObjId) (item : ObjId) : St → Res :=
  iter (reverseRemove1 c item) objs

/-- `Attribute.__set__(obj=o, new_val=None, undo_funcs)` as a reverse call (`a` is a reference attribute) -/
def attrClearRev (sch : Schema) (o : ObjId) (a : Attr) (st : St) : Res :=
  if !st.store.alive o then .err .objectDeleted st else                      -- throw_object_was_deleted
  match sch.side a, sch.side (sch.rev a) with
  | some d, some rd =>
    if d.required then .err .valueError st else                              -- Required.validate(None)
    match st.store.ref o a with
    | none => .ok (st.log (.ref o a none))                                   -- undo registered; old == new: return
    | some u =>
      let st := (st.setStore (st.store.setRef o a none)).log (.ref o a (some u))
      if rd.isColl then reverseRemove (sch.rev a) [u] o st                   -- reverse.reverse_remove((old_val,), obj, ..)
      else .ok st                                                            -- reverse is a reference, new_val is None
  | _, _ => .err .noSuchAttr st

/-- `Attribute.__set__(obj=o, new_val=x, undo_funcs)` as a reverse call, `x` not None -/
def attrSetRev (sch : Schema) (o : ObjId) (a : Attr) (x : ObjId) (st : St) : Res :=
  if !st.store.alive o then .err .objectDeleted st else
  match sch.side a, sch.side (sch.rev a) with
  | some _, some rd =>
    let old := st.store.ref o a
    if old = some x then .ok (st.log (.ref o a old)) else                    -- old == new: return
    let st := (st.setStore (st.store.setRef o a (some x))).log (.ref o a old)
    match old with
    | none => .ok st
    | some u =>
      if rd.isColl then reverseRemove (sch.rev a) [u] o st
      else if rd.required then .err .constraintError st                      -- Cannot unlink ... attribute is required
      else if u = o ∧ sch.rev a = a then .ok st                              -- old_val is obj and reverse is attr (self link)
      else attrClearRev sch u (sch.rev a) st                                 -- reverse.__set__(old_val, None, undo_funcs)
  | _, _ => .err .noSuchAttr st

/-! ## 6. Collection procedures -/

/-- `setdata.clear(); setdata |= new_items`.  `isRev` = called with `undo_funcs` (from `_delete_` / `__init__`): only then a
    later failure of the same user call is possible, and only then the code registers the inverse. -/
def rewriteRow (isRev : Bool) (o : ObjId) (c : Attr) (f : ObjId → Bool) (st : St) : St :=
  let st := if isRev then st.log (.row o c (st.store.mem o c)) else st
  st.setStore (st.store.setRow o c f)

/-- the contents `Set.__set__` finally stores: the new items, without those a cascade of the call has deleted -/
def finalRow (casc : Bool) (items : List ObjId) (s : Store) : ObjId → Bool :=
  fun x => items.contains x && (!casc || s.alive x)

/-- `Set.__set__(attr=c, obj=o, new_items, undo_funcs)`; `del` is `Entity._delete_` (cascade branch). -/
def setCollCore (sch : Schema) (del : ObjId → St → Res) (isRev : Bool) (o : ObjId) (c : Attr)
    (items : List ObjId) (st : St) : Res :=
  if !st.store.alive o then .err .objectDeleted st else
  match sch.side c, sch.side (sch.rev c) with
  | some d, some rd =>
    let s := st.store
    if (List.range s.n).all (fun x => s.mem o c x == items.contains x) then .ok st else   -- new_items == setdata: return
    let toAdd := (List.range s.n).filter fun x => items.contains x && !s.mem o c x
    let toRemove := (List.range s.n).filter fun x => s.mem o c x && !items.contains x
    let r :=
      if !rd.isColl then
        (if d.cascade then iter del toRemove st                                       -- item._delete_(undo_funcs)
         else iter (fun item => attrClearRev sch item (sch.rev c)) toRemove st).bind  -- reverse.__set__(item, None, ..)
          (iter (fun item => attrSetRev sch item (sch.rev c) o) toAdd)                -- reverse.__set__(item, obj, ..)
      else (reverseRemove (sch.rev c) toRemove o st).bind (reverseAdd (sch.rev c) toAdd o)
    -- (cascade branch only) `new_items = {item for item in new_items if item._status_ not in del_statuses}`; the filter is
    -- applied here, after the loop over `to_add`, which does not change any status
    r.bind fun st => .ok (rewriteRow isRev o c (finalRow (!rd.isColl && d.cascade) items st.store) st)
  | _, _ => .err .noSuchAttr st

/-! ## 7. Delete -/

/-- `Entity._delete_(obj=o, undo_funcs)`; fuel stands for Python's recursion limit (cascade cycles) -/
def delete (sch : Schema) : Nat → ObjId → St → Res
  | 0, _, st => .err .recursionError st
  | fuel + 1, o, st =>
    if !st.store.alive o then .ok st else                                    -- status in del_statuses: return
    let attrs := sch.attrsOf (st.store.ent o)
    let colls := iter (fun (c : Attr) (st : St) =>
        match sch.side c, sch.side (sch.rev c) with
        | some d, some rd =>
          if !d.isColl then .ok st
          else if (st.store.members o c).isEmpty then .ok st                 -- not set_wrapper.__nonzero__()
          else if d.cascade then iter (fun x => delete sch fuel x) (st.store.members o c) st
          else if !rd.required then setCollCore sch (fun x => delete sch fuel x) true o c [] st
          else .err .constraintError st                                      -- Cannot delete: non-empty set
        | _, _ => .err .noSuchAttr st) attrs st
    let refs := colls.bind (iter (fun (a : Attr) (st : St) =>
        match sch.side a, sch.side (sch.rev a) with
        | some d, some rd =>
          if d.isColl then .ok st else
          match st.store.ref o a with
          | none => .ok st
          | some x =>
            if !rd.isColl then
              if d.cascade then delete sch fuel x st
              else if !rd.required then                                      -- if val._vals_.get(reverse, obj) is obj:
                if st.store.ref x (sch.rev a) = some o then attrClearRev sch x (sch.rev a) st   -- reverse.__set__(val, None, ..)
                else .ok st
              else .err .constraintError st                                  -- Cannot delete: has associated
            else reverseRemove (sch.rev a) [x] o st
        | _, _ => .err .noSuchAttr st) attrs)
    refs.bind fun st =>
      if !st.store.alive o then .ok st                                       -- a nested _delete_ of this object already finished
      else .ok ((st.setStore (st.store.setAlive o false)).log (.status o true))   -- undo registered only now; cancelled / marked_to_delete

/-! ## 8. Top-level calls -/

/-- `Attribute.update_reverse(attr=a, obj=o, old_val, new_val, undo_funcs)` (`d`/`rd` = declarations of `a` / `a.reverse`) -/
def updateReverse (sch : Schema) (fuel : Nat) (d rd : Side) (o : ObjId) (a : Attr) (old v : Option ObjId) (st : St) : Res :=
  if !rd.isColl then
    let r := match old with
      | none => Res.ok st
      | some u =>
        if u = o ∧ sch.rev a = a then .ok st                                 -- old_val is obj and reverse is attr (self link)
        else if d.cascade then delete sch fuel u st                          -- old_val._delete_(undo_funcs)
        else if rd.required then .err .constraintError st                    -- Cannot unlink ... attribute is required
        else attrClearRev sch u (sch.rev a) st                               -- reverse.__set__(old_val, None, undo_funcs)
    r.bind fun st => match v with
      | none => .ok st
      | some x => attrSetRev sch x (sch.rev a) o st                          -- reverse.__set__(new_val, obj, undo_funcs)
  else
    let r := match old with
      | none => Res.ok st
      | some u => reverseRemove (sch.rev a) [u] o st
    r.bind fun st => match v with
      | none => .ok st
      | some x => reverseAdd (sch.rev a) [x] o st

/-- `Attribute.__set__(obj=o, new_val=v)` called by the user (`is_reverse_call = False`) -/
def attrSetTop (sch : Schema) (fuel : Nat) (o : ObjId) (a : Attr) (v : Option ObjId) (st : St) : Res :=
  if !st.store.alive o then .err .objectDeleted st else
  match sch.side a, sch.side (sch.rev a) with
  | some d, some rd =>
    if v.isNone && d.required then .err .valueError st else
    let old := st.store.ref o a
    if old = v then .ok (st.log (.ref o a old)) else
    updateReverse sch fuel d rd o a old v ((st.setStore (st.store.setRef o a v)).log (.ref o a old))
  | _, _ => .err .noSuchAttr st

/-- `SetInstance.add(new_items)` -/
def collAdd (sch : Schema) (o : ObjId) (c : Attr) (items : List ObjId) (st : St) : Res :=
  if !st.store.alive o then .err .objectDeleted st else
  match sch.side c, sch.side (sch.rev c) with
  | some _, some rd =>
    let s := st.store
    let new := (List.range s.n).filter fun x => items.contains x && !s.mem o c x
    let r := if !rd.isColl then iter (fun item => attrSetRev sch item (sch.rev c) o) new st
             else reverseAdd (sch.rev c) new o st
    r.bind fun st => .ok (st.setStore (st.store.setRow o c fun x => st.store.mem o c x || new.contains x))  -- setdata |= new_items
  | _, _ => .err .noSuchAttr st

/-- `SetInstance.remove(items)` -/
def collRemove (sch : Schema) (fuel : Nat) (o : ObjId) (c : Attr) (items : List ObjId) (st : St) : Res :=
  if !st.store.alive o then .err .objectDeleted st else
  match sch.side c, sch.side (sch.rev c) with
  | some d, some rd =>
    let s := st.store
    let old := (List.range s.n).filter fun x => items.contains x && s.mem o c x         -- items &= setdata
    let r := if !rd.isColl then
               (if d.cascade then iter (fun x => delete sch fuel x) old st
                else iter (fun item => attrClearRev sch item (sch.rev c)) old st)
             else reverseRemove (sch.rev c) old o st
    r.bind fun st => .ok (st.setStore (st.store.setRow o c fun x => st.store.mem o c x && !old.contains x))  -- setdata -= items
  | _, _ => .err .noSuchAttr st

/-- value given for one attribute in a constructor call -/
inductive Val
  | ref (v : Option ObjId)
  | coll (items : List ObjId)
deriving Repr

def lookupRef (vals : List (Attr × Val)) (a : Attr) : Option ObjId :=
  match vals.find? (fun p => p.1 == a) with
  | some (_, .ref v) => v
  | _ => none

def lookupColl (vals : List (Attr × Val)) (a : Attr) : List ObjId :=
  match vals.find? (fun p => p.1 == a) with
  | some (_, .coll l) => l
  | _ => []

/-- `Entity.__init__` (relationship part).  The validation loop comes first, as in the code. -/
def create (sch : Schema) (fuel : Nat) (e : EntId) (vals : List (Attr × Val)) (st : St) : Res :=
  let attrs := sch.attrsOf e
  match attrs.findSome? (fun a => match sch.side a with           -- for attr in entity._attrs_: attr.validate(val)
      | some d =>
        if d.isColl then (if (lookupColl vals a).all (fun x => sch.target a == some (st.store.ent x)) then none else some Err.typeError)
        else match lookupRef vals a with
          | none => if d.required then some Err.valueError else none
          | some x => if sch.target a == some (st.store.ent x) then none else some Err.typeError
      | none => none) with
  | some err => .err err st
  | none =>
  let id := st.store.n
  let st := (st.setStore (st.store.alloc e)).log (.created id)
  iter (fun (a : Attr) (st : St) =>
    match sch.side a, sch.side (sch.rev a) with
    | some d, some rd =>
      if !d.isColl then
        let v := lookupRef vals a
        -- obj._vals_[attr] = val  (no undo);  attr.update_reverse(obj, None, val, undo_funcs)
        updateReverse sch fuel d rd id a none v (st.setStore (st.store.setRef id a v))
      else setCollCore sch (fun x => delete sch fuel x) true id a (lookupColl vals a) st   -- attr.__set__(obj, val, undo_funcs)
    | _, _ => .err .noSuchAttr st) attrs st

/-! ## 9. Operations and `step` -/

inductive Op
  | setRef (o : ObjId) (a : Attr) (v : Option ObjId)      -- obj.attr = v
  | setColl (o : ObjId) (c : Attr) (items : List ObjId)    -- obj.coll = items
  | add (o : ObjId) (c : Attr) (items : List ObjId)        -- obj.coll.add(items)
  | remove (o : ObjId) (c : Attr) (items : List ObjId)     -- obj.coll.remove(items)
  | clear (o : ObjId) (c : Attr)                           -- obj.coll.clear()
  | create (e : EntId) (vals : List (Attr × Val))          -- E(**vals)
  | delete (o : ObjId)                                     -- obj.delete()
deriving Repr

/-- the operand checks Python makes before the call proper (`validate`): ids exist, entities fit -/
def valueOk (sch : Schema) (s : Store) (a : Attr) (x : ObjId) : Option Err :=
  if x < s.n then (if sch.target a = some (s.ent x) then none else some .typeError) else some .noSuchObject

def valuesOk (sch : Schema) (s : Store) (a : Attr) : List ObjId → Option Err
  | [] => none
  | x :: xs => match valueOk sch s a x with
    | some e => some e
    | none => valuesOk sch s a xs

/-- the attribute belongs to the object's entity and has the kind the call needs -/
def attrOk (sch : Schema) (s : Store) (o : ObjId) (a : Attr) (coll : Bool) : Option Err :=
  if o < s.n then
    match sch.side a with
    | some d => if d.ent = s.ent o ∧ d.isColl = coll then none else some .noSuchAttr
    | none => some .noSuchAttr
  else some .noSuchObject

/-- structural check of constructor arguments (attribute of the entity, right kind, known ids); typing is checked by `create` in attribute order -/
def valsOk (sch : Schema) (s : Store) (e : EntId) : List (Attr × Val) → Option Err
  | [] => none
  | (a, v) :: rest =>
    match sch.side a with
    | none => some .noSuchAttr
    | some d =>
      if d.ent ≠ e then some .noSuchAttr else
      let r := match v with
        | .ref none => if d.isColl then some Err.noSuchAttr else none
        | .ref (some x) => if d.isColl then some Err.noSuchAttr else (if x < s.n then none else some Err.noSuchObject)
        | .coll l => if d.isColl then (if l.all (fun x => decide (x < s.n)) then none else some Err.noSuchObject) else some Err.noSuchAttr
      match r with
      | some e => some e
      | none => valsOk sch s e rest

def fuelOf (s : Store) : Nat := 2 * s.n + 2

/-- one user call, without the final undo -/
def run1 (sch : Schema) (op : Op) (st : St) : Res :=
  let s := st.store
  match op with
  | .setRef o a v =>
    match attrOk sch s o a false with
    | some e => .err e st
    | none =>
      if !s.alive o then .err .objectDeleted st else
      match v with
      | none => attrSetTop sch (fuelOf s) o a none st
      | some x => match valueOk sch s a x with
        | some e => .err e st
        | none => attrSetTop sch (fuelOf s) o a (some x) st
  | .setColl o c items =>
    match attrOk sch s o c true with
    | some e => .err e st
    | none =>
      if !s.alive o then .err .objectDeleted st else
      match valuesOk sch s c items with
      | some e => .err e st
      | none => setCollCore sch (fun x => delete sch (fuelOf s) x) false o c items st
  | .add o c items =>
    match attrOk sch s o c true with
    | some e => .err e st
    | none =>
      if !s.alive o then .err .objectDeleted st else
      match valuesOk sch s c items with
      | some e => .err e st
      | none => collAdd sch o c items st
  | .remove o c items =>
    match attrOk sch s o c true with
    | some e => .err e st
    | none =>
      if !s.alive o then .err .objectDeleted st else
      match valuesOk sch s c items with
      | some e => .err e st
      | none => collRemove sch (fuelOf s) o c items st
  | .clear o c =>
    match attrOk sch s o c true with
    | some e => .err e st
    | none => setCollCore sch (fun x => delete sch (fuelOf s) x) false o c [] st
  | .create e vals =>
    match valsOk sch s e vals with
    | some e => .err e st
    | none => create sch (fuelOf s) e vals st
  | .delete o =>
    if o < s.n then delete sch (fuelOf s) o st else .err .noSuchObject st

structure Outcome where
  store : Store
  err : Option Err

/-- one user call including `except: for undo_func in reversed(undo_funcs): undo_func(); raise` -/
def stepO (sch : Schema) (s : Store) (op : Op) : Outcome :=
  match run1 sch op { store := s } with
  | .ok st => ⟨st.store, none⟩
  | .err e st => ⟨undoAll st.trail st.store, some e⟩

def step (sch : Schema) (s : Store) (op : Op) : Store := (stepO sch s op).store

def run (sch : Schema) (s : Store) : List Op → Store
  | [] => s
  | op :: ops => run sch (step sch s op) ops

/-! ### executable observation (used by the driver and in `example`s) -/

def refsOf (sch : Schema) (s : Store) (o : ObjId) : List (Attr × Option ObjId) :=
  ((sch.attrsOf (s.ent o)).filter fun a => !sch.isCollAttr a).map fun a => (a, s.ref o a)

def collsOf (sch : Schema) (s : Store) (o : ObjId) : List (Attr × List ObjId) :=
  ((sch.attrsOf (s.ent o)).filter fun a => sch.isCollAttr a).map fun a => (a, s.members o a)

/-- does object `p` hold `q` under attribute `b` (reference equal / collection member) -/
def hasB (sch : Schema) (s : Store) (p : ObjId) (b : Attr) (q : ObjId) : Bool :=
  match sch.side b with
  | none => false
  | some d => if d.isColl then s.mem p b q else s.ref p b == some q

/-- executable form of the invariant (both ends agree for live objects, ids in range) -/
def checkInv (sch : Schema) (s : Store) : Bool :=
  (List.range s.n).all fun p => sch.allAttrs.all fun b => (List.range s.n).all fun q =>
    !(s.alive p && hasB sch s p b q) || hasB sch s q (sch.rev b) p

end PonyVerif.Model.Rel
