/-
  C22 — executable model of the process-wide translator cache (`Database._translator_cache`) under concurrent threads.

  Mirrors pony/orm/core.py `Query.__init__`, `Query._get_translator`, and the five places that publish a translator
  (`database._translator_cache[key] = translator` in `Query.__init__`, `_order_by` (twice), `_process_lambda`,
  `_apply_kwargs`), together with the part of pony/orm/sqltranslation.py that pins parameter values into a translator
  (`translator.fixed_param_values`: `StringMixin.__getitem__.param_to_const`, `FuncGetattrMonad.call`) and the fact that
  a derived translator (`apply_lambda`, `apply_kwfilters`, `order_by_*`, `without_order`) starts as a `deepcopy` of the
  query's own translator and therefore inherits its pinned values.

  Granularity: ONE step of a thread is ONE operation on the shared dict (`get`, `pop`/`del`, `__setitem__`) or the
  thread-local comparison loop between them.  Any number of threads; the interleaving is an arbitrary list of thread ids.
  `step` is the code as it is now (`pop(query_key, None)`); `stepOld` is the code before the fix (`del cache[query_key]`,
  which raises `KeyError` when another thread already removed the entry).
  Core Lean only (linked into the driver).
-/
namespace PonyVerif.Model.SharedCache

abbrev PKey := Nat
/-- a parameter value: `None` or an int (attribute names for `getattr(e, name)` are coded as ints) -/
abbrev Val := Option Int
/-- `query._vars` restricted to what matters here: a dict, first match wins -/
abbrev Vars := List (PKey × Val)
/-- `translator.fixed_param_values` (insertion-ordered dict) -/
abbrev Pinned := List (PKey × Val)
/-- `query._key`: the code key followed by the accumulated `filters` tuple; head = last applied filter, tail = the key
    of the query it was derived from.  (`vartypes`, `left_join` are part of the atoms.) -/
abbrev QKey := List Nat

/-- dict lookup -/
def lookup {β : Type} (k : Nat) : List (Nat × β) → Option β
  | [] => none
  | (k', v) :: rest => if k' = k then some v else lookup k rest

/-- where a parameter is pinned -/
inductive PinKind
  | sliceStart   -- `s[p:...]` : `None` becomes 0
  | sliceStop    -- `s[...:p]` : `None` becomes -1
  | attrName     -- `getattr(x, p)`
  deriving DecidableEq, Repr

/-- `param_to_const`: `if index_value is None: index_value = 0 if is_start else -1` -/
def norm : PinKind → Val → Val
  | .sliceStart, none => some 0
  | .sliceStop, none => some (-1)
  | _, v => v

theorem norm_idem (k : PinKind) (v : Val) : norm k (norm k v) = norm k v := by
  cases k <;> cases v <;> rfl

/-- the query code: which parameters the translation of the LAST stage of a key pins, in translation order
    (a function of the key because the key contains the code object id / source text of every stage) -/
structure Cfg where
  pins : QKey → List (PKey × PinKind)

/-- `param_to_const` / `FuncGetattrMonad.call` for one parameter monad:
    `if key in fixed_param_values: use it  else: fixed_param_values[key] = norm(root_translator.vars[key])`;
    `none` = `KeyError` from `root_translator.vars[key]` -/
def pinOne (vars : Vars) (fixed : Pinned) (pk : PKey × PinKind) : Option Pinned :=
  match lookup pk.1 fixed with
  | some _ => some fixed
  | none =>
    match lookup pk.1 vars with
    | none => none
    | some v => some (fixed ++ [(pk.1, norm pk.2 v)])

def pinAll (vars : Vars) : Pinned → List (PKey × PinKind) → Option Pinned
  | fixed, [] => some fixed
  | fixed, pk :: rest =>
    match pinOne vars fixed pk with
    | none => none
    | some fixed' => pinAll vars fixed' rest

/-- SPECIFICATION (no cache, no other thread): the pinned values of the translator of key `k` built from scratch with
    the thread's own parameter values -/
def soloPins (cfg : Cfg) : QKey → Vars → Option Pinned
  | [], _ => some []
  | f :: k, vars =>
    match soloPins cfg k vars with
    | none => none
    | some base => pinAll vars base (cfg.pins (f :: k))

structure Translator where
  key : QKey
  pinned : Pinned
  /-- ghost: thread that built it -/
  builder : Nat
  deriving Repr

/-- one `Query(...)` / `.filter(...)` / `.order_by(...)` / `.where(**kw)` call -/
structure Req where
  key : QKey
  /-- `new_vars` passed to `_get_translator` -/
  vars : Vars
  /-- `none`: a root query (`Query.__init__`); `some j`: derived from the `j`-th query object this thread created -/
  base : Option Nat
  /-- `translator.can_be_cached` (only consulted by `Query.__init__`) -/
  cacheable : Bool
  /-- `all_func_vartypes != translator.func_vartypes` (hybrid functions): return `None` WITHOUT touching the cache -/
  funcStale : Bool
  deriving Repr

inductive Cmp | same | stale | assertFail
  deriving DecidableEq, Repr

/-- `for key, val in translator.fixed_param_values.items(): assert key in new_vars; if val != new_vars[key]: ...` -/
def compare (vars : Vars) : Pinned → Cmp
  | [] => .same
  | (p, v) :: rest =>
    match lookup p vars with
    | none => .assertFail
    | some w => if v = w then compare vars rest else .stale

inductive Phase
  | idle                            -- before `database._translator_cache.get(query_key)`
  | got (tr : Option Translator)    -- after `get`, before the comparison loop (thread-local)
  | needPop                         -- stale: before `database._translator_cache.pop(query_key, None)`
  | needStore (tr : Translator)     -- built a translator: before `database._translator_cache[key] = translator`
  deriving Repr

inductive Err | keyError | assertionError | translationKeyError | badBase
  deriving DecidableEq, Repr

structure Thread where
  tid : Nat
  todo : List Req
  phase : Phase
  /-- the query objects created so far: request and `query._translator` -/
  used : List (Req × Translator)
  /-- exceptions that escaped (request abandoned) -/
  raised : List Err
  deriving Repr

inductive Out
  | none                -- nothing to do
  | hit | miss          -- `get`
  | cmpSame | cmpStale | cmpFuncStale | built     -- local step after `get`
  | popped (found : Bool)
  | stored
  | error (e : Err)
  deriving DecidableEq, Repr

abbrev Cache := List (QKey × Translator)

def cget (k : QKey) : Cache → Option Translator
  | [] => none
  | (k', v) :: rest => if k' = k then some v else cget k rest
def cdel (k : QKey) : Cache → Cache
  | [] => []
  | (k', v) :: rest => if k' = k then cdel k rest else (k', v) :: cdel k rest
def cset (k : QKey) (v : Translator) (c : Cache) : Cache := (k, v) :: cdel k c

/-- translate: build the translator for `r` from the thread's own data only -/
def build (cfg : Cfg) (th : Thread) (r : Req) : Except Err Translator :=
  let base : Except Err Pinned := match r.base with
    | none => .ok []
    | some j => match th.used[j]? with
      | none => .error .badBase
      | some (_, tr) => .ok tr.pinned          -- `prev_translator.deepcopy()` keeps `fixed_param_values`
  match base with
  | .error e => .error e
  | .ok b =>
    match pinAll r.vars b (cfg.pins r.key) with
    | none => .error .translationKeyError
    | some p => .ok ⟨r.key, p, th.tid⟩

/-- the request is finished with translator `tr` -/
def finish (th : Thread) (r : Req) (rest : List Req) (tr : Translator) : Thread :=
  { th with todo := rest, phase := .idle, used := th.used ++ [(r, tr)] }
def abandon (th : Thread) (rest : List Req) (e : Err) : Thread :=
  { th with todo := rest, phase := .idle, raised := th.raised ++ [e] }

/-- after `_get_translator` returned `None`: translate and go on to publish -/
def afterNone (cfg : Cfg) (th : Thread) (r : Req) (rest : List Req) : Thread × Out :=
  match build cfg th r with
  | .error e => (abandon th rest e, .error e)
  | .ok tr =>
    if r.cacheable then ({ th with phase := .needStore tr }, .built)
    else (finish th r rest tr, .built)

/-- one atomic step of one thread; `old = true` is the code before the fix (`del`) -/
def tstep (cfg : Cfg) (old : Bool) (c : Cache) (th : Thread) : Cache × Thread × Out :=
  match th.todo with
  | [] => (c, th, .none)
  | r :: rest =>
    match th.phase with
    | .idle =>
      let o := cget r.key c
      (c, { th with phase := .got o }, if o.isSome then .hit else .miss)
    | .got none =>
      let (th', out) := afterNone cfg th r rest
      (c, th', out)
    | .got (some tr) =>
      if r.funcStale then
        let (th', out) := afterNone cfg th r rest
        (c, th', match out with | .built => .cmpFuncStale | o => o)
      else match compare r.vars tr.pinned with
        | .same => (c, finish th r rest tr, .cmpSame)
        | .assertFail => (c, abandon th rest .assertionError, .error .assertionError)
        | .stale => (c, { th with phase := .needPop }, .cmpStale)
    | .needPop =>
      let found := (cget r.key c).isSome
      if old && !found then
        (c, abandon th rest .keyError, .error .keyError)      -- `del d[k]` on a missing key
      else
        let (th', out) := afterNone cfg th r rest
        (cdel r.key c, th', match out with | .built => .popped found | o => o)
    | .needStore tr =>
      (cset r.key tr c, finish th r rest tr, .stored)

structure State where
  cache : Cache
  th : Nat → Thread

def updTh (f : Nat → Thread) (t : Nat) (x : Thread) : Nat → Thread := fun i => if i = t then x else f i

def stepG (cfg : Cfg) (old : Bool) (s : State) (t : Nat) : State × Out :=
  let (c, th, out) := tstep cfg old s.cache (s.th t)
  (⟨c, updTh s.th t th⟩, out)

/-- the code as it is now -/
def step (cfg : Cfg) (s : State) (t : Nat) : State × Out := stepG cfg false s t
/-- the code before the fix -/
def stepOld (cfg : Cfg) (s : State) (t : Nat) : State × Out := stepG cfg true s t

def runG (cfg : Cfg) (old : Bool) : State → List Nat → State × List Out
  | s, [] => (s, [])
  | s, t :: sched =>
    let (s', o) := stepG cfg old s t
    let (s'', os) := runG cfg old s' sched
    (s'', o :: os)

def run (cfg : Cfg) := runG cfg false
def runOld (cfg : Cfg) := runG cfg true

def Thread.init (tid : Nat) (prog : List Req) : Thread := ⟨tid, prog, .idle, [], []⟩

/-- threads `0 .. progs.length-1` with their programs, empty cache -/
def State.init (progs : List (List Req)) : State :=
  ⟨[], fun t => Thread.init t (progs.getD t [])⟩

def Out.isError : Out → Bool
  | .error _ => true
  | _ => false

end PonyVerif.Model.SharedCache
