/-
  C28 — model of Pony's change tracking for Json / array attribute values
  (pony/orm/ormtypes.py: TrackedValue.make, tracked_method, TrackedDict, TrackedList, TrackedArray;
   pony/orm/core.py: Entity._attr_changed_, Attribute.__set__; dbapiprovider.JsonConverter / ArrayConverter).

  The attribute value is a JSON tree `T`.  Every container node carries the flag `w` = "this Python object is a
  Tracked wrapper bound to (obj, attr)".  A mutating method of `list` / `dict` applied to a node
    * goes through `tracked_method` when the node is a wrapper AND the method is overridden in the Tracked class
      (table `Cfg`, GENERATED from the real classes on every run -> Gen/TrackedTable.lean):
      container arguments are wrapped by `TrackedValue.make`, the built-in method runs, `_changed_()` sets the dirty bit;
    * otherwise it is the built-in method: the container changes, nobody is told.
  Which iterable arguments end up wrapped (`list` yes; tuple / generator / dict view: only if the method converts them)
  is probed on the real classes and also part of `Cfg`.
  Core Lean only (linked into the driver).
-/
namespace PonyVerif.Model.Tracked

inductive Atom where
  | null | bool (b : Bool) | num (n : Int) | str (s : String)
  deriving DecidableEq, Repr, Inhabited

/-- `list`/`dict`: JSON containers; `tup`: a Python tuple stored inside the value (JSON-encodable, immutable, never a
    wrapper); `iarr`/`sarr`: value of an IntArray / StrArray attribute (TrackedArray), root only;
    `flist`/`fdict`: a wrapper that belongs to another object or attribute (handed over by the program; `make` re-binds it,
    i.e. copies it into wrappers of this object, if the code does what it does today — probed: `Cfg.rebinds`). -/
inductive Kind where
  | list | dict | tup | iarr | sarr
  | flist | fdict        -- a TrackedList / TrackedDict bound to ANOTHER object or attribute: it notifies somebody else
  deriving DecidableEq, Repr, Inhabited

inductive T where
  | atom (a : Atom)
  | node (k : Kind) (w : Bool) (items : List (String × T))
  deriving Repr, Inhabited

abbrev Items := List (String × T)

/-- list element (the key component is unused for sequences) -/
def li (v : T) : String × T := ("", v)

/-! ### method tables -/

/-- the mutating methods of the built-in `list` (reference table; validated against Python by introspection each run) -/
inductive LM where
  | setitem | delitem | append | extend | insert | pop | remove | reverse | sort | clear | iadd | imul
  deriving DecidableEq, Repr, Inhabited

/-- the mutating methods of the built-in `dict` -/
inductive DM where
  | setitem | delitem | update | setdefault | pop | popitem | clear | ior
  deriving DecidableEq, Repr, Inhabited

def LM.all : List LM := [.setitem, .delitem, .append, .extend, .insert, .pop, .remove, .reverse, .sort, .clear, .iadd, .imul]
def DM.all : List DM := [.setitem, .delitem, .update, .setdefault, .pop, .popitem, .clear, .ior]

def LM.pyName : LM → String
  | .setitem => "__setitem__" | .delitem => "__delitem__" | .append => "append" | .extend => "extend"
  | .insert => "insert" | .pop => "pop" | .remove => "remove" | .reverse => "reverse" | .sort => "sort"
  | .clear => "clear" | .iadd => "__iadd__" | .imul => "__imul__"
def DM.pyName : DM → String
  | .setitem => "__setitem__" | .delitem => "__delitem__" | .update => "update" | .setdefault => "setdefault"
  | .pop => "pop" | .popitem => "popitem" | .clear => "clear" | .ior => "__ior__"

/-- every name in `dir(list)` with its class: "mut" (changes the container), "ctor" (`__init__`: re-initialises; not a
    mutating method in the sense of the property), "read".  Validated against the running Python on every run. -/
def listDir : List (String × String) := [
  ("__add__", "read"), ("__class__", "read"), ("__class_getitem__", "read"), ("__contains__", "read"),
  ("__delattr__", "read"), ("__delitem__", "mut"), ("__dir__", "read"), ("__doc__", "read"), ("__eq__", "read"),
  ("__format__", "read"), ("__ge__", "read"), ("__getattribute__", "read"), ("__getitem__", "read"),
  ("__getstate__", "read"), ("__gt__", "read"), ("__hash__", "read"), ("__iadd__", "mut"), ("__imul__", "mut"),
  ("__init__", "ctor"), ("__init_subclass__", "read"), ("__iter__", "read"), ("__le__", "read"), ("__len__", "read"),
  ("__lt__", "read"), ("__mul__", "read"), ("__ne__", "read"), ("__new__", "read"), ("__reduce__", "read"),
  ("__reduce_ex__", "read"), ("__repr__", "read"), ("__reversed__", "read"), ("__rmul__", "read"),
  ("__setattr__", "read"), ("__setitem__", "mut"), ("__sizeof__", "read"), ("__str__", "read"),
  ("__subclasshook__", "read"), ("append", "mut"), ("clear", "mut"), ("copy", "read"), ("count", "read"),
  ("extend", "mut"), ("index", "read"), ("insert", "mut"), ("pop", "mut"), ("remove", "mut"), ("reverse", "mut"),
  ("sort", "mut")]

def dictDir : List (String × String) := [
  ("__class__", "read"), ("__class_getitem__", "read"), ("__contains__", "read"), ("__delattr__", "read"),
  ("__delitem__", "mut"), ("__dir__", "read"), ("__doc__", "read"), ("__eq__", "read"), ("__format__", "read"),
  ("__ge__", "read"), ("__getattribute__", "read"), ("__getitem__", "read"), ("__getstate__", "read"),
  ("__gt__", "read"), ("__hash__", "read"), ("__init__", "ctor"), ("__init_subclass__", "read"), ("__ior__", "mut"),
  ("__iter__", "read"), ("__le__", "read"), ("__len__", "read"), ("__lt__", "read"), ("__ne__", "read"),
  ("__new__", "read"), ("__or__", "read"), ("__reduce__", "read"), ("__reduce_ex__", "read"), ("__repr__", "read"),
  ("__reversed__", "read"), ("__ror__", "read"), ("__setattr__", "read"), ("__setitem__", "mut"),
  ("__sizeof__", "read"), ("__str__", "read"), ("__subclasshook__", "read"), ("clear", "mut"), ("copy", "read"),
  ("fromkeys", "read"), ("get", "read"), ("items", "read"), ("keys", "read"), ("pop", "mut"), ("popitem", "mut"),
  ("setdefault", "mut"), ("update", "mut"), ("values", "read")]

/-- methods that take an iterable whose elements are stored -/
inductive IM where
  | extend | iadd | setslice | update | ior
  deriving DecidableEq, Repr, Inhabited

/-- what kind of Python object the iterable argument is.  `gen`: generator / dict view / any other iterable;
    `dict`: a dict (update / |=); `kw`: keyword arguments of `update`. -/
inductive IterKind where
  | list | tuple | gen | dict | kw
  deriving DecidableEq, Repr, Inhabited

/-- what `TrackedValue.make` does with a tuple: leaves it alone / wraps the containers among its items / turns it into a TrackedList -/
inductive TupleMode where
  | leave | items | list
  deriving DecidableEq, Repr, Inhabited

/-- What the Tracked classes do — regenerated from the real classes on every run (Gen/TrackedTable.lean).
    `listOv` / `dictOv` / `arrOv`: mutating methods resolved (along the MRO) to something else than the built-in's;
    `tupleMode`: what `TrackedValue.make` does with a tuple value (probed);
    `iterUnwrapped`: (method, kind of iterable) for which a container element of the iterable is stored unwrapped;
    `notifyOnError`: is the object marked modified when the built-in method raised. -/
structure Cfg where
  listOv : List LM
  dictOv : List DM
  arrOv : List LM
  tupleMode : TupleMode
  rebinds : Bool              -- `make` turns a wrapper bound to another object/attribute into wrappers bound to this one (probed)
  assignRebinds : Bool        -- `obj.attr = <wrapper of another object/attribute>`: `validate` hands it to `make` (probed on a real entity)
  iterUnwrapped : List (IM × IterKind)
  notifyOnError : Bool        -- does `tracked_method` call `_changed_()` when the built-in method raised (try/finally)
  refusesFirst : Bool         -- does `tracked_method` ask the owner (`_check_attr_change_`: session over / deleted) BEFORE the built-in runs
  deriving Repr, Inhabited

/-- does `make` wrap the containers inside a tuple -/
def Cfg.makeTuple (cfg : Cfg) : Bool := cfg.tupleMode != .leave

def Cfg.wraps (cfg : Cfg) (m : IM) (k : IterKind) : Bool := !cfg.iterUnwrapped.contains (m, k)

/-- every mutating built-in method is overridden in each Tracked class -/
def Cfg.covers (cfg : Cfg) : Bool :=
  LM.all.all (fun m => cfg.listOv.contains m) && DM.all.all (fun m => cfg.dictOv.contains m)
    && LM.all.all (fun m => cfg.arrOv.contains m)

/-- every value that can be handed in ends up wrapped, and a change that ends in an exception is notified too -/
def Cfg.wrapsAll (cfg : Cfg) : Bool :=
  cfg.makeTuple && cfg.iterUnwrapped.isEmpty && cfg.notifyOnError && cfg.rebinds && cfg.assignRebinds

/-! ### wrapping, unwrapping, serialisation -/

mutual
/-- `TrackedValue.make(obj, attr, value)` (deep: the Tracked constructors call `make` on every item) -/
def make (cfg : Cfg) : T → T
  | .atom a => .atom a
  | .node .tup w xs => match cfg.tupleMode with
      | .leave => .node .tup w xs
      | .items => .node .tup w (makeL cfg xs)
      | .list => .node .list true (makeL cfg xs)
  | .node .flist w xs => if cfg.rebinds then .node .list true (makeL cfg xs) else .node .flist w xs
  | .node .fdict w xs => if cfg.rebinds then .node .dict true (makeL cfg xs) else .node .fdict w xs
  | .node k _ xs => .node k true (makeL cfg xs)
def makeL (cfg : Cfg) : Items → Items
  | [] => []
  | (k, v) :: xs => (k, make cfg v) :: makeL cfg xs
end

mutual
/-- `Inv_wrapped`: every mutable container reachable from the root is a wrapper -/
def allW : T → Bool
  | .atom _ => true
  | .node .tup _ xs => allWL xs
  | .node .flist _ _ => false
  | .node .fdict _ _ => false
  | .node _ w xs => w && allWL xs
def allWL : Items → Bool
  | [] => true
  | (_, v) :: xs => allW v && allWL xs
end

def Kind.ser : Kind → Kind
  | .tup => .list
  | .flist => .list
  | .fdict => .dict
  | k => k

mutual
/-- what `json.dumps` writes and `json.loads` gives back: flags gone, tuples are lists -/
def ser : T → T
  | .atom a => .atom a
  | .node k _ xs => .node k.ser false (serL xs)
def serL : Items → Items
  | [] => []
  | (k, v) :: xs => (k, ser v) :: serL xs
end

mutual
/-- plain values: what `json.loads` gives (no wrapper flags, no tuples) -/
def isPlain : T → Bool
  | .atom _ => true
  | .node .tup _ _ => false
  | .node .flist _ _ => false
  | .node .fdict _ _ => false
  | .node _ w xs => !w && isPlainL xs
def isPlainL : Items → Bool
  | [] => true
  | (_, v) :: xs => isPlain v && isPlainL xs
end

/-! ### Python equality on JSON values (used by `list.remove`) -/

def atomEq : Atom → Atom → Bool
  | .null, .null => true
  | .bool a, .bool b => a == b
  | .num a, .num b => a == b
  | .bool a, .num b => (if a then 1 else 0) == b
  | .num a, .bool b => a == (if b then 1 else 0)
  | .str a, .str b => a == b
  | _, _ => false

def lookup (k : String) (xs : Items) : Option T := (xs.find? (fun p => p.1 == k)).map (·.2)

def Kind.isSeq : Kind → Bool
  | .list | .iarr | .sarr | .flist => true
  | _ => false

def Kind.isMap : Kind → Bool
  | .dict | .fdict => true
  | _ => false

mutual
def pyEq : T → T → Bool
  | .atom a, .atom b => atomEq a b
  | .atom _, .node _ _ _ => false
  | .node _ _ _, .atom _ => false
  | .node k _ xs, .node k' _ ys =>
      if k.isSeq && k'.isSeq then pyEqL xs ys
      else if k == .tup && k' == .tup then pyEqL xs ys
      else if k.isMap && k'.isMap then xs.length == ys.length && pyEqD xs ys
      else false
def pyEqL : Items → Items → Bool
  | [], [] => true
  | [], _ :: _ => false
  | _ :: _, [] => false
  | (_, x) :: xs, (_, y) :: ys => pyEq x y && pyEqL xs ys
def pyEqD : Items → Items → Bool
  | [], _ => true
  | (k, x) :: xs, ys => (match lookup k ys with
      | some y => pyEq x y
      | none => false) && pyEqD xs ys
end

mutual
/-- the same JSON document up to the order of object keys (what a database gives back for what was written:
    SQLite stores the text with sorted keys, PostgreSQL's jsonb reorders keys) -/
def sameJson : T → T → Bool
  | .atom a, .atom b => a == b
  | .atom _, .node _ _ _ => false
  | .node _ _ _, .atom _ => false
  | .node k _ xs, .node k' _ ys =>
      k == k' && (if k.isMap then xs.length == ys.length && sameD xs ys else sameL xs ys)
def sameL : Items → Items → Bool
  | [], [] => true
  | [], _ :: _ => false
  | _ :: _, [] => false
  | (_, x) :: xs, (_, y) :: ys => sameJson x y && sameL xs ys
def sameD : Items → Items → Bool
  | [], _ => true
  | (k, x) :: xs, ys => (match lookup k ys with
      | some y => sameJson x y
      | none => false) && sameD xs ys
end

/-! ### the built-in mutators -/

inductive Err where
  | index | key | value | type | nav
  | session        -- DatabaseSessionIsOver (`_attr_changed_` / `__set__`: the cache is not alive)
  | deleted        -- OperationWithDeletedObjectError
  deriving DecidableEq, Repr, Inhabited

/-- Python index → position (`IndexError` = none) -/
def normIdx (i : Int) (n : Nat) : Option Nat :=
  let j := if i < 0 then i + n else i
  if 0 ≤ j ∧ j < n then some j.toNat else none

/-- slice bound / `insert` position: negative counts from the end, then clamped to [0, n] -/
def clampIdx (i : Int) (n : Nat) : Nat :=
  if i < 0 then (i + n).toNat else min i.toNat n

def sliceBounds (a b : Option Int) (n : Nat) : Nat × Nat :=
  let s := match a with
    | none => 0
    | some i => clampIdx i n
  let e := match b with
    | none => n
    | some i => clampIdx i n
  (s, max s e)

/-- `range(*slice(a, b, st).indices(n))` for `st ≠ 0` (extended slice) -/
def sliceIdx (a b : Option Int) (st : Int) (n : Nat) : List Nat :=
  let lo : Int := if st > 0 then 0 else -1
  let hi : Int := if st > 0 then n else (n : Int) - 1
  let clamp (i : Int) : Int :=
    let j := if i < 0 then i + n else i
    if j < lo then lo else if j > hi then hi else j
  let start : Int := match a with
    | none => if st > 0 then 0 else (n : Int) - 1
    | some i => clamp i
  let stop : Int := match b with
    | none => if st > 0 then n else -1
    | some i => clamp i
  let cnt : Int := if st > 0 then (stop - start + st - 1) / st else (start - stop - st - 1) / (-st)
  (List.range cnt.toNat).map (fun (j : Nat) => (start + (j : Int) * st).toNat)

/-- `x[i] = v` for the pairs of an extended slice assignment, one after the other -/
def setAll (ps : List (Nat × T)) (xs : Items) : Items := ps.foldl (fun acc p => acc.set p.1 (li p.2)) xs

inductive LMut where
  | setitem (i : Int) (v : T)
  | setslice (a b : Option Int) (k : IterKind) (vs : List T)      -- `x[a:b] = iterable` (step None)
  | setsliceStep (a b : Option Int) (st : Int) (k : IterKind) (vs : List T)   -- `x[a:b:st] = iterable`, st ∉ {0, 1}: lengths must agree
  | delitem (i : Int)
  | delslice (a b : Option Int)
  | delsliceStep (a b : Option Int) (st : Int)                                  -- `del x[a:b:st]`
  | append (v : T)
  | extend (k : IterKind) (vs : List T)
  | insert (i : Int) (v : T)
  | pop (i : Option Int)
  | remove (v : T)
  | reverse
  | sort (perm : List Nat)        -- outcome of a successful `sort(key=…, reverse=…)`: new position ↦ old position
  | sortFail                      -- `sort()` that raised (items that cannot be compared) and left the order as it was
  | sortRaise (perm : List Nat)   -- `sort()` that raised AFTER it had already reordered the list (CPython leaves the list
                                  -- partially sorted: `[1, 3, 2, None].sort()` -> `[1, 2, 3, None]` + TypeError)
  | clear
  | iadd (k : IterKind) (vs : List T)
  | imul (n : Int)
  deriving Repr, Inhabited

inductive DMut where
  | setitem (k : String) (v : T)
  | delitem (k : String)
  | update (k : IterKind) (ps : Items) (kw : Items)      -- `d.update(src, **kw)`
  | setdefault (k : String) (v : T)
  | pop (k : String) (hasDefault : Bool)
  | popitem
  | clear
  | ior (k : IterKind) (ps : Items)                       -- `d |= src`
  deriving Repr, Inhabited

def LMut.meth : LMut → LM
  | .setitem _ _ | .setslice _ _ _ _ | .setsliceStep _ _ _ _ _ => .setitem
  | .delitem _ | .delslice _ _ | .delsliceStep _ _ _ => .delitem
  | .append _ => .append | .extend _ _ => .extend | .insert _ _ => .insert | .pop _ => .pop | .remove _ => .remove
  | .reverse => .reverse | .sort _ | .sortFail | .sortRaise _ => .sort | .clear => .clear | .iadd _ _ => .iadd | .imul _ => .imul

def DMut.meth : DMut → DM
  | .setitem _ _ => .setitem | .delitem _ => .delitem | .update _ _ _ => .update | .setdefault _ _ => .setdefault
  | .pop _ _ => .pop | .popitem => .popitem | .clear => .clear | .ior _ _ => .ior

/-- the built-in method changes the container and THEN raises (the change stays) -/
def LMut.raises : LMut → Bool
  | .sortRaise _ => true
  | _ => false

/-- `tracked_method`: `_changed_()` is called when the built-in method returned; when it raised, only with try/finally -/
def notifies (cfg : Cfg) (m : LMut) : Bool := !m.raises || cfg.notifyOnError

/-- the values a mutator stores into the container -/
def LMut.args : LMut → List T
  | .setitem _ v | .append v | .insert _ v => [v]
  | .setslice _ _ _ vs | .setsliceStep _ _ _ _ vs | .extend _ vs | .iadd _ vs => vs
  | _ => []

def DMut.args : DMut → List T
  | .setitem _ v | .setdefault _ v => [v]
  | .update _ ps kw => (ps ++ kw).map (·.2)
  | .ior _ ps => ps.map (·.2)
  | _ => []

def lEffect : LMut → Items → Except Err Items
  | .setitem i v, xs => match normIdx i xs.length with
      | some j => .ok (xs.set j (li v))
      | none => .error .index
  | .setslice a b _ vs, xs =>
      let se := sliceBounds a b xs.length
      .ok (xs.take se.1 ++ vs.map li ++ xs.drop se.2)
  | .setsliceStep a b st _ vs, xs =>
      if st == 0 then .error .value else
      let idx := sliceIdx a b st xs.length
      if idx.length != vs.length then .error .value else .ok (setAll (idx.zip vs) xs)
  | .delitem i, xs => match normIdx i xs.length with
      | some j => .ok (xs.eraseIdx j)
      | none => .error .index
  | .delsliceStep a b st, xs =>
      if st == 0 then .error .value else
      let idx := sliceIdx a b st xs.length
      .ok ((List.range xs.length).filterMap (fun i => if idx.contains i then none else xs[i]?))
  | .delslice a b, xs =>
      let se := sliceBounds a b xs.length
      .ok (xs.take se.1 ++ xs.drop se.2)
  | .append v, xs => .ok (xs ++ [li v])
  | .extend _ vs, xs => .ok (xs ++ vs.map li)
  | .insert i v, xs =>
      let j := clampIdx i xs.length
      .ok (xs.take j ++ li v :: xs.drop j)
  | .pop none, xs => if xs.isEmpty then .error .index else .ok xs.dropLast
  | .pop (some i), xs => match normIdx i xs.length with
      | some j => .ok (xs.eraseIdx j)
      | none => .error .index
  | .remove v, xs => match xs.findIdx? (fun p => pyEq p.2 v) with
      | some j => .ok (xs.eraseIdx j)
      | none => .error .value
  | .reverse, xs => .ok xs.reverse
  | .sort perm, xs => .ok (perm.filterMap (fun i => xs[i]?))
  | .sortFail, _ => .error .type
  | .sortRaise perm, xs => .ok (perm.filterMap (fun i => xs[i]?))
  | .clear, _ => .ok []
  | .iadd _ vs, xs => .ok (xs ++ vs.map li)
  | .imul n, xs => .ok (List.replicate n.toNat xs).flatten

def hasKey (k : String) (xs : Items) : Bool := xs.any (fun p => p.1 == k)

/-- `d[k] = v`: an existing key keeps its position -/
def dSet (k : String) (v : T) (xs : Items) : Items :=
  match xs.findIdx? (fun p => p.1 == k) with
  | some j => xs.set j (k, v)
  | none => xs ++ [(k, v)]

def dSetAll (ps : Items) (xs : Items) : Items := ps.foldl (fun acc p => dSet p.1 p.2 acc) xs

def dEffect : DMut → Items → Except Err Items
  | .setitem k v, xs => .ok (dSet k v xs)
  | .delitem k, xs => match xs.findIdx? (fun p => p.1 == k) with
      | some j => .ok (xs.eraseIdx j)
      | none => .error .key
  | .update _ ps kw, xs => .ok (dSetAll (ps ++ kw) xs)
  | .setdefault k v, xs => if hasKey k xs then .ok xs else .ok (xs ++ [(k, v)])
  | .pop k d, xs => match xs.findIdx? (fun p => p.1 == k) with
      | some j => .ok (xs.eraseIdx j)
      | none => if d then .ok xs else .error .key
  | .popitem, xs => if xs.isEmpty then .error .key else .ok xs.dropLast
  | .clear, _ => .ok []
  | .ior _ ps, xs => .ok (dSetAll ps xs)

/-! ### `tracked_method`: wrap the arguments -/

def makeVals (cfg : Cfg) (m : IM) (k : IterKind) (vs : List T) : List T :=
  if cfg.wraps m k then vs.map (make cfg) else vs

def makePairs (cfg : Cfg) (m : IM) (k : IterKind) (ps : Items) : Items :=
  if cfg.wraps m k then ps.map (fun p => (p.1, make cfg p.2)) else ps

def LMut.prep (cfg : Cfg) : LMut → LMut
  | .setitem i v => .setitem i (make cfg v)
  | .setslice a b k vs => .setslice a b k (makeVals cfg .setslice k vs)
  | .setsliceStep a b st k vs => .setsliceStep a b st k (makeVals cfg .setslice k vs)
  | .append v => .append (make cfg v)
  | .extend k vs => .extend k (makeVals cfg .extend k vs)
  | .insert i v => .insert i (make cfg v)
  | .remove v => .remove (make cfg v)
  | .iadd k vs => .iadd k (makeVals cfg .iadd k vs)
  | m => m

def DMut.prep (cfg : Cfg) : DMut → DMut
  | .setitem k v => .setitem k (make cfg v)
  | .update k ps kw => .update k (makePairs cfg .update k ps) (makePairs cfg .update .kw kw)
  | .setdefault k v => .setdefault k (make cfg v)
  | .ior k ps => .ior k (makePairs cfg .ior k ps)
  | m => m

mutual
/-- `make` done by ANOTHER object's wrapper: the result belongs to that object (for this attribute: not wrapped) -/
def makeF (cfg : Cfg) : T → T
  | .atom a => .atom a
  | .node .tup w xs => match cfg.tupleMode with
      | .leave => .node .tup w xs
      | .items => .node .tup w (makeFL cfg xs)
      | .list => .node .flist false (makeFL cfg xs)
  | .node .list w xs => if w && !cfg.rebinds then .node .list w xs else .node .flist false (makeFL cfg xs)
  | .node .dict w xs => if w && !cfg.rebinds then .node .dict w xs else .node .fdict false (makeFL cfg xs)
  | .node .flist _ xs => .node .flist false (makeFL cfg xs)
  | .node .fdict _ xs => .node .fdict false (makeFL cfg xs)
  | .node k w xs => .node k w xs
def makeFL (cfg : Cfg) : Items → Items
  | [] => []
  | (k, v) :: xs => (k, makeF cfg v) :: makeFL cfg xs
end

def LMut.prepF (cfg : Cfg) : LMut → LMut
  | .setitem i v => .setitem i (makeF cfg v)
  | .setslice a b k vs => .setslice a b k (if cfg.wraps .setslice k then vs.map (makeF cfg) else vs)
  | .setsliceStep a b st k vs => .setsliceStep a b st k (if cfg.wraps .setslice k then vs.map (makeF cfg) else vs)
  | .append v => .append (makeF cfg v)
  | .extend k vs => .extend k (if cfg.wraps .extend k then vs.map (makeF cfg) else vs)
  | .insert i v => .insert i (makeF cfg v)
  | .iadd k vs => .iadd k (if cfg.wraps .iadd k then vs.map (makeF cfg) else vs)
  | m => m

def DMut.prepF (cfg : Cfg) : DMut → DMut
  | .setitem k v => .setitem k (makeF cfg v)
  | .update k ps kw => .update k (if cfg.wraps .update k then ps.map (fun p => (p.1, makeF cfg p.2)) else ps)
      (if cfg.wraps .update .kw then kw.map (fun p => (p.1, makeF cfg p.2)) else kw)
  | .setdefault k v => .setdefault k (makeF cfg v)
  | .ior k ps => .ior k (if cfg.wraps .ior k then ps.map (fun p => (p.1, makeF cfg p.2)) else ps)
  | m => m

/-- TrackedArray.validate_item for JSON atoms -/
def atomOk : Kind → T → Bool
  | .iarr, .atom (.num _) => true
  | .iarr, .atom (.bool _) => true
  | .sarr, .atom (.str _) => true
  | _, _ => false

/-- does the call get past the validation in TrackedArray's methods (slice assignment validates the list as ONE item) -/
def LMut.valid (k : Kind) : LMut → Bool
  | .setitem _ v | .append v | .insert _ v => atomOk k v
  | .setslice _ _ _ _ | .setsliceStep _ _ _ _ _ => false
  | .extend _ vs | .iadd _ vs => vs.all (atomOk k)
  | _ => true

/-- a list mutator called on the Python object that node `t` stands for.
    Result: the new node and whether `_changed_()` was called.  An exception leaves the value as it was (the error carries
    whether `_changed_()` was called nevertheless). -/
def applyL (cfg : Cfg) (m : LMut) : T → Except (Err × Bool) (T × Bool)
  | .node .list w xs =>
      let tr := w && cfg.listOv.contains m.meth
      match lEffect (if tr then m.prep cfg else m) xs with
      | .ok xs' => .ok (.node .list w xs', tr && notifies cfg m)
      | .error e => .error (e, tr && cfg.notifyOnError)
  | .node .iarr w xs =>
      let tr := w && cfg.arrOv.contains m.meth
      if tr && !m.valid .iarr then .error (.type, false) else
      match lEffect m xs with
      | .ok xs' => .ok (.node .iarr w xs', tr && notifies cfg m)
      | .error e => .error (e, tr && cfg.notifyOnError)
  | .node .sarr w xs =>
      let tr := w && cfg.arrOv.contains m.meth
      if tr && !m.valid .sarr then .error (.type, false) else
      match lEffect m xs with
      | .ok xs' => .ok (.node .sarr w xs', tr && notifies cfg m)
      | .error e => .error (e, tr && cfg.notifyOnError)
  | .node .flist w xs =>
      -- a list that belongs to another object: its tracked method wraps the arguments for THAT object and notifies it
      match lEffect (m.prepF cfg) xs with
      | .ok xs' => .ok (.node .flist w xs', false)
      | .error e => .error (e, false)
  | _ => .error (.type, false)

def applyD (cfg : Cfg) (m : DMut) : T → Except (Err × Bool) (T × Bool)
  | .node .dict w xs =>
      let tr := w && cfg.dictOv.contains m.meth
      match dEffect (if tr then m.prep cfg else m) xs with
      | .ok xs' => .ok (.node .dict w xs', tr)
      | .error e => .error (e, tr && cfg.notifyOnError)
  | .node .fdict w xs =>
      match dEffect (m.prepF cfg) xs with
      | .ok xs' => .ok (.node .fdict w xs', false)
      | .error e => .error (e, false)
  | _ => .error (.type, false)

/-! ### navigation (`obj.data['a'][0]…`; an alias is the path of the object it refers to) -/

inductive Step where
  | idx (i : Int)
  | key (s : String)
  deriving Repr, Inhabited

def locate : Step → Kind → Items → Option Nat
  | .idx i, k, xs => if k.isMap then none else normIdx i xs.length
  | .key s, k, xs => if k.isMap then xs.findIdx? (fun p => p.1 == s) else none

def modAt (f : T → Except (Err × Bool) (T × Bool)) : List Step → T → Except (Err × Bool) (T × Bool)
  | [], t => f t
  | _ :: _, .atom _ => .error (.nav, false)
  | s :: p, .node k w xs =>
      match locate s k xs with
      | none => .error (.nav, false)
      | some i => match xs[i]? with
        | none => .error (.nav, false)
        | some (key, c) => match modAt f p c with
          | .ok (c', n) => .ok (.node k w (xs.set i (key, c')), n)
          | .error e => .error e

def getAt : List Step → T → Option T
  | [], t => some t
  | _ :: _, .atom _ => none
  | s :: p, .node k _ xs =>
      match locate s k xs with
      | none => none
      | some i => match xs[i]? with
        | none => none
        | some (_, c) => getAt p c

/-! ### the attribute of one object in a session -/

/-- `obj._status_` as far as this attribute's bookkeeping goes -/
inductive Status where
  | created | loaded | inserted | updated | modified
  | deleted        -- `obj.delete()` in a live session ('marked_to_delete')
  | over           -- the session of the object is over (it was committed and left); the object and its wrappers live on
  deriving DecidableEq, Repr, Inhabited

def Status.alive : Status → Bool
  | .deleted | .over => false
  | _ => true

structure St where
  doc : T            -- obj._vals_[attr]
  dirty : Bool       -- attr's bit in obj._wbits_  (obj._wbits_ is None while the object is 'created')
  db : T             -- the column in the database as this transaction sees it (for a 'created' object: nothing yet)
  committed : T      -- the column as committed last (what every other transaction sees; what a rollback goes back to)
  status : Status    -- obj._status_
  volatile : Bool    -- the attribute was declared volatile=True
  deriving Repr, Inhabited

/-- `obj._bits_[attr]`: non-zero for every attribute that has a column — volatile or not (`_initialize_bits_`) -/
def bitAll (_ : St) : Bool := true
/-- `obj._bits_except_volatile_[attr]`: zero for a volatile attribute (used by `Attribute.__get__` for the read bits only) -/
def bitExceptVolatile (s : St) : Bool := !s.volatile

/-- `Entity._attr_changed_` (and the same lines of `Attribute.__set__`):
    `bit = obj._bits_[attr]; if wbits is not None and bit: obj._wbits_ |= bit; if status != 'modified': status = 'modified'` -/
def attrChanged (s : St) : St :=
  if s.status != .created && bitAll s then { s with dirty := true, status := .modified } else s

inductive Op where
  | lmut (p : List Step) (m : LMut)
  | dmut (p : List Step) (m : DMut)
  | read (p : List Step)            -- any non-mutating method on the value at `p`
  | touch                           -- a tracked method called on a wrapper that is no longer part of the value
  | assign (v : T)                  -- obj.attr = v
  | other                           -- obj.<another attribute> = …  (the object becomes 'modified', this attribute's bit is not set)
  | flush                           -- flush()/commit(): INSERT of a created object / UPDATE of the columns whose bit is set
  | refresh (v : T)                 -- volatile attribute after a save: `_update_dbvals_` drops the value, the next access reads it
                                    -- again from the database, which returns `v`
  | reload (v : T)                  -- commit, end of session; a new session reads the value: the database returns `v`
  | commit                          -- commit(): flush, then the transaction's view becomes the committed one
  | rollback                        -- rollback(): what was flushed but not committed is gone; the session's objects are dead
  | endSession                      -- commit, end of session; the program keeps the object and its wrappers
  | delete                          -- obj.delete()
  deriving Repr, Inhabited

/-- `JsonConverter.validate`: a wrapper of this object and attribute is kept, everything else goes through `make` — a wrapper
    of another object too (probed: `assignRebinds`) -/
def assigned (cfg : Cfg) : T → T
  | .node .flist w xs => if cfg.assignRebinds then make cfg (.node .flist w xs) else .node .flist w xs
  | .node .fdict w xs => if cfg.assignRebinds then make cfg (.node .fdict w xs) else .node .fdict w xs
  | v => make cfg v

def St.load (cfg : Cfg) (dbv : T) (vol : Bool := false) : St :=
  { doc := make cfg dbv, dirty := false, db := dbv, committed := dbv, status := .loaded, volatile := vol }

/-- `E(attr=v)`: `validate` wraps the value; the object is 'created', `_wbits_` is None, there is no row yet -/
def St.create (cfg : Cfg) (v : T) (vol : Bool := false) : St :=
  { doc := assigned cfg v, dirty := false, db := .atom .null, committed := .atom .null, status := .created, volatile := vol }

/-- `_save_created_` writes every value, `_save_updated_` the columns whose bit is set -/
def doFlush (s : St) : St :=
  match s.status with
  | .created => { s with db := ser s.doc, dirty := false, status := .inserted }
  | .modified => { s with db := if s.dirty then ser s.doc else s.db, dirty := false, status := .updated }
  | _ => s

/-- what `_attr_changed_` / `__set__` raise for an object whose session is over or that was deleted (in this order) -/
def deadErr (s : St) : Err := if s.status == .over then .session else .deleted

/-- after the built-in method has done its work: `_changed_()` -> `_attr_changed_`, which raises for a dead object (the
    change made in memory stays) -/
def notified (s : St) (n : Bool) (e : Option Err) : St × Option Err :=
  if n then (if s.status.alive then (attrChanged s, e) else (s, some (deadErr s))) else (s, e)

/-- does the call go through `tracked_method` (wrapper of this object, method overridden; for arrays: past the validation) -/
def isTrackedL (cfg : Cfg) (m : LMut) : T → Bool
  | .node .list w _ => w && cfg.listOv.contains m.meth
  | .node .iarr w _ => w && cfg.arrOv.contains m.meth && m.valid .iarr
  | .node .sarr w _ => w && cfg.arrOv.contains m.meth && m.valid .sarr
  | _ => false

def isTrackedD (cfg : Cfg) (m : DMut) : T → Bool
  | .node .dict w _ => w && cfg.dictOv.contains m.meth
  | _ => false

/-- `tracked_method` refuses before anything happens when the owner is dead (session over / deleted) -/
def refused (cfg : Cfg) (s : St) (p : List Step) (f : T → Bool) : Bool :=
  !s.status.alive && cfg.refusesFirst && (match getAt p s.doc with
    | some t => f t
    | none => false)

def step (cfg : Cfg) (s : St) : Op → St × Option Err
  | .lmut p m => if refused cfg s p (isTrackedL cfg m) then (s, some (deadErr s)) else match modAt (applyL cfg m) p s.doc with
      | .ok (d, n) => notified { s with doc := d } n (if m.raises then some .type else none)
      | .error (e, n) => notified s n (some e)
  | .dmut p m => if refused cfg s p (isTrackedD cfg m) then (s, some (deadErr s)) else match modAt (applyD cfg m) p s.doc with
      | .ok (d, n) => notified { s with doc := d } n none
      | .error (e, n) => notified s n (some e)
  | .read p => (s, if (getAt p s.doc).isSome then none else some .nav)
  | .touch => notified s true none
  | .assign v => if s.status.alive then (attrChanged { s with doc := assigned cfg v }, none) else (s, some (deadErr s))
  | .other => if s.status.alive then (if s.status != .created then { s with status := .modified } else s, none) else (s, some (deadErr s))
  | .flush => (doFlush s, none)
  | .commit => ({ doFlush s with committed := (doFlush s).db }, none)
  | .rollback => if s.status.alive then ({ s with db := s.committed, dirty := false, status := .over }, none) else (s, none)
  | .endSession => if s.status.alive then ({ doFlush s with status := .over, committed := (doFlush s).db }, none) else (s, some (deadErr s))
  | .delete => if s.status.alive then ({ s with status := .deleted, dirty := false }, none) else (s, some (deadErr s))
  | .refresh v =>
      if s.volatile && !s.dirty && s.status != .created && s.status.alive && isPlain v && sameJson v s.db
      then ({ s with doc := make cfg v, db := v }, none) else (s, some .nav)
  | .reload v =>
      -- the database returns the document that was written, up to the order of object keys
      if isPlain v && sameJson v (doFlush s).db then (St.load cfg v s.volatile, none) else (s, some .nav)

def run (cfg : Cfg) : List Op → St → St
  | [], s => s
  | op :: ops, s => run cfg ops (step cfg s op).1

/-- the guard of the partial theorems: everything the operation stores is fully wrapped after `tracked_method`'s
    argument wrapping (always true for JSON values made of dict / list / scalars handed in directly or in a list) -/
def Op.argsW (cfg : Cfg) : Op → Bool
  | .lmut _ m => (m.prep cfg).args.all allW && notifies cfg m
  | .dmut _ m => (m.prep cfg).args.all allW
  | .assign v => allW (assigned cfg v)
  | _ => true

mutual
/-- no tuple anywhere (what `json.loads` produces; ordinary JSON literals) -/
def tupFree : T → Bool
  | .atom _ => true
  | .node .tup _ _ => false
  | .node .flist _ _ => false
  | .node .fdict _ _ => false
  | .node _ _ xs => tupFreeL xs
def tupFreeL : Items → Bool
  | [] => true
  | (_, v) :: xs => tupFree v && tupFreeL xs
end

end PonyVerif.Model.Tracked
