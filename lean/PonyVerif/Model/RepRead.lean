/-
  C21 — executable model of ONE reading session against a database that other sessions change arbitrarily between
  any two of its statements (pony/orm/core.py).

  Schema: entity `C` with column attributes (attribute 0 is the reference `parent : Optional(P)`, the others are scalars;
  each may be volatile or lazy) and entity `P` with the collection `kids : Set(C)` (one-to-many, non-volatile).
  Reader state per `C` instance: `_vals_`, `_dbvals_`, `_rbits_`, `_wbits_`, per `P` instance the `SetData`
  of `kids` (`items`, `is_fully_loaded`, `count`), and `cache.objects_to_save`.  All `P` instances are in the identity map.
  The session may assign scalar attributes ([Attribute.__set__]) and `commit()` in the middle of the session
  ([SessionCache.flush] -> [Entity._save_updated_] with the optimistic check, [Entity._update_dbvals_]); an operation that
  issues SQL while assignments are pending is preceded by such a commit (auto-flush runs the same `_save_updated_`).

  Mirrors (Python names in brackets): [Attribute.__get__/get/load], [Attribute.db_set] (lazy load), [Entity._load_],
  [Entity.load], [Entity._fetch_objects], [Entity._get_from_identity_map_], [Entity._db_set_] with its two loops and the
  exception raised in the middle of the second loop, [Entity._set_rbits], [Attribute.db_update_reverse],
  [Set.db_reverse_add] (phantom check), [Set.db_reverse_remove], [Set.load] (one-to-many branch, no prefetching),
  [Set.copy] (iteration: read bits on the items' reference), [SetInstance.__len__/count/is_empty/__contains__].
  Every reader operation issues at most one SELECT; the committed database it sees is an argument of the step
  (the adversary).  `guarded = true` is `Set.db_reverse_remove` WITH the phantom check
  (`setdata.is_fully_loaded -> UnrepeatableReadError`), `guarded = false` without it.
  Core Lean only (linked into the driver).
-/
namespace PonyVerif.Model.RepRead

abbrev Attr := Nat
/-- column value; for attribute 0 (`parent`) the value is the parent's id, `-1` = NULL -/
abbrev Val := Int
def refAttr : Attr := 0

def upd {β : Type} (f : Nat → β) (k : Nat) (v : β) : Nat → β := fun x => if x = k then v else f x

structure Cfg where
  /-- `_attrs_with_columns_` of `C` without the primary key, declaration order -/
  attrs : List Attr
  /-- `Attribute.is_volatile` (bit 0 in `_bits_except_volatile_`) -/
  volatile : Attr → Bool
  /-- `Attribute.lazy` -/
  lazy : Attr → Bool

/-- a row of table `C`: id and the column values -/
abbrev Row := Nat × List (Attr × Val)
/-- committed contents of table `C`, in rowid order -/
abbrev Db := List Row

def rowVal (r : Row) (a : Attr) : Val :=
  match r.2.find? (fun x => x.1 == a) with
  | some x => x.2
  | none => 0

structure CObj where
  /-- in the identity map -/
  present : Bool
  vals : Attr → Option Val
  dbvals : Attr → Option Val
  rbits : Attr → Bool
  /-- `_wbits_` -/
  wbits : Attr → Bool
  /-- `_wbits_ & _bits_except_volatile_` (the mask `_db_set_` / `db_set` / `__get__` test): maintained together with `wbits` -/
  wmask : Attr → Bool

def CObj.absent : CObj := ⟨false, fun _ => none, fun _ => none, fun _ => false, fun _ => false, fun _ => false⟩
/-- `_get_from_identity_map_(pkval, 'loaded')` for a new instance -/
def CObj.new : CObj := ⟨true, fun _ => none, fun _ => none, fun _ => false, fun _ => false, fun _ => false⟩

structure SetData where
  items : List Nat
  full : Bool
  count : Option Nat
  deriving Repr, DecidableEq

def SetData.empty : SetData := ⟨[], false, none⟩

structure Sess where
  c : Nat → CObj
  /-- `p._vals_.get(P.kids)` -/
  kids : Nat → Option SetData
  /-- `cache.objects_to_save` -/
  toSave : List Nat

def Sess.init : Sess := ⟨fun _ => CObj.absent, fun _ => none, []⟩

inductive Err
  | unrepeatable     -- UnrepeatableReadError
  | optimistic       -- OptimisticCheckError (own UPDATE refused: a read attribute changed in the database)
  | other            -- another loud failure (ObjectNotFound / TypeError on a vanished row / KeyError)
  deriving DecidableEq, Repr

def setC (s : Sess) (cid : Nat) (o : CObj) : Sess := { s with c := upd s.c cid o }
def setKids (s : Sess) (p : Nat) (sd : SetData) : Sess := { s with kids := upd s.kids p (some sd) }

/-- [Set.db_reverse_add]: `setdata is None -> new SetData; elif is_fully_loaded: raise; setdata.add(item)` -/
def dbReverseAdd (s : Sess) (p cid : Nat) : Sess × Option Err :=
  match s.kids p with
  | none => (setKids s p ⟨[cid], false, none⟩, none)
  | some sd =>
    if sd.full then (s, some .unrepeatable)
    else (setKids s p { sd with items := if sd.items.contains cid then sd.items else sd.items ++ [cid] }, none)

/-- [Set.db_reverse_remove]: `setdata.remove(item)`; `guarded`: preceded by the phantom check -/
def dbReverseRemove (guarded : Bool) (s : Sess) (p cid : Nat) : Sess × Option Err :=
  match s.kids p with
  | none => (s, some .other)                      -- `obj._vals_[attr]` KeyError
  | some sd =>
    if guarded && sd.full then (s, some .unrepeatable)
    else if sd.items.contains cid then (setKids s p { sd with items := sd.items.erase cid }, none)
    else (s, some .other)                         -- `set.remove` of an absent item: KeyError (possible after an
                                                  --  earlier exception left a reverse update half done)

/-- [Attribute.db_update_reverse] for `parent` (reverse is the collection `P.kids`) -/
def dbUpdateReverse (guarded : Bool) (s : Sess) (cid : Nat) (old : Option Val) (new : Val) : Sess × Option Err :=
  let r1 : Sess × Option Err := match old with
    | some ov => if ov ≠ -1 then dbReverseRemove guarded s ov.toNat cid else (s, none)
    | none => (s, none)
  match r1 with
  | (s1, some e) => (s1, some e)
  | (s1, none) => if new ≠ -1 then dbReverseAdd s1 new.toNat cid else (s1, none)

/-- second loop of [Entity._db_set_]: per changed attribute, in order: read bit set -> raise (what was done for the
    earlier attributes stays); reverse update; `_dbvals_[attr] = new_dbval` -/
def loop2 (guarded : Bool) (cid : Nat) : Sess → List (Attr × Val) → Sess × Option Err
  | s, [] => (s, none)
  | s, (a, nv) :: rest =>
    let o := s.c cid
    if o.rbits a then (s, some .unrepeatable)
    else
      let r := if a = refAttr then dbUpdateReverse guarded s cid (o.dbvals a) nv else (s, none)
      match r with
      | (s1, some e) => (s1, some e)
      | (s1, none) =>
        let o1 := s1.c cid
        loop2 guarded cid (setC s1 cid { o1 with dbvals := upd o1.dbvals a (some nv) }) rest

def overlay (vals : Attr → Option Val) : List (Attr × Val) → Attr → Option Val
  | [] => vals
  | (a, v) :: rest => overlay (upd vals a (some v)) rest

/-- [Entity._db_set_] (reader without own writes) -/
def dbSetObj (guarded : Bool) (s : Sess) (cid : Nat) (avdict : List (Attr × Val)) : Sess × Option Err :=
  let o := s.c cid
  let av := avdict.filter (fun x => !(o.dbvals x.1 == some x.2))     -- first loop: drop unchanged attributes
  match loop2 guarded cid s av with
  | (s1, some e) => (s1, some e)
  | (s1, none) =>
    let o1 := s1.c cid
    -- `if wbits & bit: del new_vals[attr]` ... `obj._vals_.update(new_vals)`
    (setC s1 cid { o1 with vals := overlay o1.vals (av.filter (fun x => !o1.wmask x.1)) }, none)

/-- [Entity._fetch_objects]: per row `_get_from_identity_map_` + `_db_set_`; stops at the first exception -/
def fetchRows (guarded : Bool) (cols : List Attr) : Sess → List Row → Sess × List Nat × Option Err
  | s, [] => (s, [], none)
  | s, r :: rest =>
    let s0 := if (s.c r.1).present then s else setC s r.1 CObj.new
    match dbSetObj guarded s0 r.1 (cols.map (fun a => (a, rowVal r a))) with
    | (s1, some e) => (s1, [], some e)
    | (s1, none) =>
      match fetchRows guarded cols s1 rest with
      | (s2, objs, e) => (s2, r.1 :: objs, e)

/-- [Entity._set_rbits] -/
def setRbits (cfg : Cfg) (s : Sess) (used : List Attr) : List Nat → Sess
  | [] => s
  | cid :: rest =>
    let o := s.c cid
    setRbits cfg (setC s cid { o with rbits := fun a => o.rbits a || (used.contains a && !cfg.volatile a) }) used rest

def nonLazy (cfg : Cfg) : List Attr := cfg.attrs.filter (fun a => !cfg.lazy a)

inductive Op
  /-- a query returning rows again: ids the query selects, optional condition `attr >= lo` (a used attribute),
      the fetched columns -/
  | fetch (ids : List Nat) (cond : Option (Attr × Val)) (cols : List Attr)
  | readAttr (c : Nat) (a : Attr)
  | loadObj (c : Nat)
  | iter (p : Nat)
  | len (p : Nat)
  | count (p : Nat)
  | isEmpty (p : Nat)
  | contains (p : Nat) (c : Nat)
  /-- `obj.attr = v` for a scalar attribute -/
  | write (c : Nat) (a : Attr) (v : Val)
  /-- `commit()` in the middle of the session -/
  | commit
  deriving Repr

inductive Res
  | val (v : Val)
  | objs (l : List Nat)
  | num (n : Nat)
  | bool (b : Bool)
  | ok
  | err (e : Err)
  deriving DecidableEq, Repr

/-- `attr.load(obj)` when the value is not in `_vals_`: lazy column ([Attribute.load] + [Attribute.db_set]) or the
    whole row ([Entity._load_]) -/
def readLoad (cfg : Cfg) (guarded : Bool) (s : Sess) (db : Db) (cid : Nat) (a : Attr) : Sess × Option Err :=
  let o := s.c cid
  match o.vals a with
  | some _ => (s, none)
  | none =>
    if cfg.lazy a then
      match db.find? (fun r => r.1 == cid) with
      | none => (s, some .other)
      | some row =>
        let nv := rowVal row a
        if o.dbvals a == some nv then (s, none)          -- db_set returns early; `_vals_[attr]` is then missing
        else if o.rbits a then (s, some .unrepeatable)
        else if !o.wmask a && (o.dbvals a).isSome then
          -- `assert old_val == old_dbval`: `_vals_` has no entry but `_dbvals_` has (left behind by an earlier `_db_set_`
          -- that raised in the middle of its second loop); `_dbvals_[attr]` is already overwritten when the assert fires
          (setC s cid { o with dbvals := upd o.dbvals a (some nv) }, some .other)
        else (setC s cid { o with dbvals := upd o.dbvals a (some nv),
                                  vals := if o.wmask a then o.vals else upd o.vals a (some nv) }, none)
    else
      match fetchRows guarded (nonLazy cfg) s (db.filter (fun r => r.1 == cid)) with
      | (s1, _, some e) => (s1, some e)
      | (s1, objs, none) => if objs.contains cid then (s1, none) else (s1, some .unrepeatable)

/-- `return obj._vals_[attr]` and the read bit of [Attribute.__get__] -/
def readFinish (cfg : Cfg) (r : Sess × Option Err) (cid : Nat) (a : Attr) : Sess × Except Err Val :=
  match r with
  | (s1, some e) => (s1, .error e)
  | (s1, none) =>
    let o1 := s1.c cid
    match o1.vals a with
    | none => (s1, .error .other)                           -- KeyError in `return obj._vals_[attr]`
    | some v =>
      -- `if not wbits & bit: obj._rbits_ |= bit` with bit = `_bits_except_volatile_[attr]`
      (setC s1 cid { o1 with rbits := fun x => o1.rbits x || (x == a && !cfg.volatile a && !o1.wmask a) }, .ok v)

/-- `vals[attr] if attr in vals else attr.load(obj)` then the read bit of [Attribute.__get__] -/
def readCore (cfg : Cfg) (guarded : Bool) (s : Sess) (db : Db) (cid : Nat) (a : Attr) : Sess × Except Err Val :=
  if !(s.c cid).present then (s, .error .other)
  else readFinish cfg (readLoad cfg guarded s db cid a) cid a

/-- `if setdata is None: setdata = obj._vals_[attr] = SetData()` -/
def ensureKids (s : Sess) (p : Nat) : Sess :=
  match s.kids p with
  | none => setKids s p SetData.empty
  | some _ => s

/-- [Set.load], one-to-many, not prefetching -/
def loadColl (cfg : Cfg) (guarded : Bool) (s : Sess) (db : Db) (p : Nat) : Sess × Option Err :=
  let s0 := ensureKids s p
  match s0.kids p with
  | none => (s0, some .other)
  | some sd =>
    if sd.full then (s0, none)
    else
      match fetchRows guarded (nonLazy cfg) s0 (db.filter (fun r => rowVal r refAttr == (p : Int))) with
      | (s1, _, some e) => (s1, some e)
      | (s1, _, none) =>
        match s1.kids p with
        | none => (s1, some .other)
        | some sd1 => (setKids s1 p ⟨sd1.items, true, some sd1.items.length⟩, none)

def markItems (cfg : Cfg) (s : Sess) : List Nat → Sess
  | [] => s
  | cid :: rest =>
    let o := s.c cid
    markItems cfg (setC s cid { o with rbits := fun x => o.rbits x || (x == refAttr && !cfg.volatile refAttr) }) rest

/-- the WHERE clause of the optimistic UPDATE (pk and every READ attribute = `_dbvals_`) matches the committed row -/
def optimisticOk (cfg : Cfg) (o : CObj) (db : Db) (cid : Nat) : Bool :=
  match db.find? (fun r => r.1 == cid) with
  | none => false
  | some row => cfg.attrs.all (fun a => !o.rbits a || o.dbvals a == some (rowVal row a))

/-- [Entity._save_updated_] + [Entity._update_dbvals_] for one modified instance: UPDATE ... WHERE pk AND every READ
    attribute still has the value in `_dbvals_` (rowcount 0 -> OptimisticCheckError); then
    `_rbits_ |= _wbits_ & _all_bits_except_volatile_; _wbits_ = 0`, `_dbvals_` of the written attributes := the written
    values, volatile attributes are dropped from `_vals_`/`_dbvals_` -/
def saveUpdated (cfg : Cfg) (s : Sess) (db : Db) (cid : Nat) : Sess × Option Err :=
  let o := s.c cid
  if !optimisticOk cfg o db cid then (s, some .optimistic)
  else
    (setC s cid { o with
        rbits := fun a => o.rbits a || o.wmask a,
        wbits := fun _ => false,
        wmask := fun _ => false,
        dbvals := fun a => if cfg.volatile a && (o.vals a).isSome then none
                           else if o.wbits a && (o.vals a).isSome then o.vals a else o.dbvals a,
        vals := fun a => if cfg.volatile a then none else o.vals a }, none)

/-- [SessionCache.flush]: `for obj in cache.objects_to_save: obj._save_()`; then the list is cleared -/
def commitAll (cfg : Cfg) (db : Db) : Sess → List Nat → Sess × Option Err
  | s, [] => ({ s with toSave := [] }, none)
  | s, c :: rest =>
    match saveUpdated cfg s db c with
    | (s1, some e) => (s1, some e)
    | (s1, none) => commitAll cfg db s1 rest

/-- one reader operation against the committed database `db` -/
def exec (cfg : Cfg) (guarded : Bool) (s : Sess) (db : Db) : Op → Sess × Res
  | .fetch ids cond cols =>
    let rows := db.filter (fun r => ids.contains r.1 && (match cond with | none => true | some (a, lo) => decide (rowVal r a ≥ lo)))
    match fetchRows guarded cols s rows with
    | (s1, _, some e) => (s1, .err e)
    | (s1, objs, none) =>
      let used := match cond with | none => [] | some (a, _) => [a]
      (setRbits cfg s1 used objs, .objs objs)
  | .readAttr c a =>
    match readCore cfg guarded s db c a with
    | (s1, .error e) => (s1, .err e)
    | (s1, .ok v) => (s1, .val v)
  | .loadObj c =>
    let o := s.c c
    if !o.present then (s, .err .other) else
    let cols := cfg.attrs.filter (fun a => (o.vals a).isNone)
    match fetchRows guarded cols s (db.filter (fun r => r.1 == c)) with
    | (s1, _, some e) => (s1, .err e)
    | (s1, objs, none) => if objs.contains c then (s1, .ok) else (s1, .err .unrepeatable)
  | .iter p =>
    match loadColl cfg guarded s db p with
    | (s1, some e) => (s1, .err e)
    | (s1, none) =>
      match s1.kids p with
      | none => (s1, .err .other)
      | some sd => (markItems cfg s1 sd.items, .objs sd.items)       -- [Set.copy]
  | .len p =>
    match loadColl cfg guarded s db p with
    | (s1, some e) => (s1, .err e)
    | (s1, none) =>
      match s1.kids p with
      | none => (s1, .err .other)
      | some sd => (s1, .num sd.items.length)
  | .count p =>
    let sd := (s.kids p).getD SetData.empty
    match sd.count with
    | some n => (s, .num n)                                       -- cached count
    | none =>
      let n := (db.filter (fun r => rowVal r refAttr == (p : Int))).length
      (setKids s p { sd with count := some n }, .num n)
  | .isEmpty p =>
    let viaSql : Unit → Sess × Res := fun _ =>
      let s0 := ensureKids s p
      match fetchRows guarded (nonLazy cfg) s0 ((db.filter (fun r => rowVal r refAttr == (p : Int))).take 1) with
      | (s1, _, some e) => (s1, .err e)
      | (s1, _, none) =>
        match s1.kids p with
        | none => (s1, .err .other)
        | some sd1 =>
          if !sd1.items.isEmpty then (s1, .bool false)
          else (setKids s1 p ⟨sd1.items, true, some 0⟩, .bool true)
    match s.kids p with
    | none => viaSql ()
    | some sd =>
      if sd.full then (s, .bool sd.items.isEmpty)
      else if !sd.items.isEmpty then (s, .bool false)
      else match sd.count with
        | some n => (s, .bool (n == 0))
        | none => viaSql ()
  | .contains p c =>
    match readCore cfg guarded s db c refAttr with
    | (s1, .error e) => (s1, .err e)
    | (s1, .ok v) => (s1, .bool (v == (p : Int)))
  | .write c a v =>
    let o := s.c c
    if !o.present || a == refAttr || !cfg.attrs.contains a then (s, .err .other) else
    -- [Attribute.__set__], plain attribute: `_wbits_ |= bit`, status 'modified' (queued once), `_vals_[attr] = new_val`
    let s1 := setC s c { o with vals := upd o.vals a (some v), wbits := upd o.wbits a true,
                                wmask := upd o.wmask a (!cfg.volatile a) }
    ({ s1 with toSave := if s.toSave.contains c then s.toSave else s.toSave ++ [c] }, .ok)
  | .commit =>
    match commitAll cfg db s s.toSave with
    | (s1, some e) => (s1, .err e)
    | (s1, none) => (s1, .ok)

/-- a history: before every reader operation the adversary installs ANY committed database -/
def run (cfg : Cfg) (guarded : Bool) : Sess → List (Db × Op) → Sess × List Res
  | s, [] => (s, [])
  | s, (db, op) :: rest =>
    let (s1, r) := exec cfg guarded s db op
    let (s2, rs) := run cfg guarded s1 rest
    (s2, r :: rs)

def runS (cfg : Cfg) (guarded : Bool) (s : Sess) (tr : List (Db × Op)) : Sess := (run cfg guarded s tr).1

end PonyVerif.Model.RepRead
