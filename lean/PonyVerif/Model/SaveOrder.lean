/-
  C16 — the save-order model: what `SessionCache.flush` writes, and in which order.

  Mirrors (pony/orm/core.py):
    * `Entity._save_(obj, dependent_objects=None)`            ↦ `save`
    * `Entity._save_principal_objects_(obj, dependent_objects)` ↦ the first half of `save` + `saveRefs`
    * the statement emitted by `_save_created_` / `_save_updated_` / `_save_deleted_` and their status change ↦ `writeObj`
    * the body of `SessionCache.flush` (`remove_m2m` → `for obj in objects_to_save: obj._save_()` → `add_m2m`) ↦ `flush`

  Abstraction (function `abs` is computed by the engine from the real session right before the flush):
    * object ids are positions in `status` / `refs`;
    * `refs[x]` = for every attribute of `obj._attrs_with_columns_` with `attr.reverse` and a non-`None` value, in attribute
      order (primary-key attributes that are references included): the referenced object and whether the attribute's bit
      is set in `obj._wbits_` (`dirty`; always false for primary-key attributes, whose bit is 0);
    * `queue` = `cache.objects_to_save` (with its `None` holes);
    * the slot clearing done by `_save_` (`objects_to_save[save_pos] = None` / `pop()`) is represented by the test
      "already written during this flush" in `saveQueue` (an object saved through the recursion is skipped when the
      iteration reaches its slot);
    * `dependent_objects` is the Python list that is shared (by reference) by the whole recursion below one top-level
      `_save_()` call: it is threaded through and returned.  It is never popped (exactly as in the code).
  Core Lean only.
-/
namespace PonyVerif.Model.SaveOrder

inductive Status where
  | created | modified | markedToDelete | inserted | updated | deleted
  | other   -- loaded / cancelled / None: nothing to save
  deriving DecidableEq, Repr, Inhabited

/-- one relationship attribute with a column and a non-`None` value -/
structure Ref where
  target : Nat
  dirty : Bool
  deriving DecidableEq, Repr

inductive Write where
  | insert (x : Nat) | update (x : Nat) | delete (x : Nat)
  | unlink (a b : Nat)   -- DELETE of a many-to-many link row (`remove_m2m`)
  | link (a b : Nat)     -- INSERT of a many-to-many link row (`add_m2m`)
  deriving DecidableEq, Repr

inductive Err where
  | cycle (chain : List Nat)   -- UnresolvableCyclicDependency; `chain` = dependent_objects at the raise
  | badStatus (x : Nat)        -- the `assert False` branches of `_save_` / `_save_principal_objects_`
  | outOfFuel                  -- artefact of the fuel parameter; `save_fuel_enough` shows it never happens
  deriving DecidableEq, Repr

abbrev Graph := List (List Ref)

structure St where
  status : List Status
  out : List Write            -- statements executed so far, oldest first
  deriving Repr

def statusOf (st : List Status) (x : Nat) : Status := (st[x]?).getD .other
def refsOf (g : Graph) (x : Nat) : List Ref := (g[x]?).getD []

/-- the object a statement writes (none for link rows) -/
def Write.obj? : Write → Option Nat
  | .insert x | .update x | .delete x => some x
  | _ => none

/-- `attrs` of `_save_principal_objects_`: all column attributes of a created object, the ones with a write bit
    of a modified object -/
def attrsToCheck (g : Graph) (stx : Status) (x : Nat) : List Ref :=
  match stx with
  | .created => refsOf g x
  | .modified => (refsOf g x).filter (·.dirty)
  | _ => []

/-- `_save_created_` / `_save_updated_` / `_save_deleted_`: emit the statement, set the saved status.
    `stx` is the local variable `status` read at the top of `_save_`. -/
def writeObj (x : Nat) (stx : Status) (s : St) : St :=
  match stx with
  | .created => { status := s.status.set x .inserted, out := s.out ++ [.insert x] }
  | .modified => { status := s.status.set x .updated, out := s.out ++ [.update x] }
  | .markedToDelete => { status := s.status.set x .deleted, out := s.out ++ [.delete x] }
  | _ => s

/-- the `for attr in attrs:` loop of `_save_principal_objects_`; `rec` is `val._save_(dependent_objects)` -/
def saveRefs (rec : Nat → List Nat → St → Except Err (St × List Nat)) :
    List Ref → List Nat → St → Except Err (St × List Nat)
  | [], d, s => .ok (s, d)
  | r :: rs, d, s =>
    if statusOf s.status r.target = .created then
      match rec r.target d s with
      | .ok (s', d') => saveRefs rec rs d' s'
      | .error e => .error e
    else saveRefs rec rs d s

/-- `if dependent_objects is None: dependent_objects = []  elif obj in dependent_objects: throw(...)` -/
def inDep (dep : Option (List Nat)) (x : Nat) : Bool :=
  match dep with
  | some d => decide (x ∈ d)
  | none => false

/-- `obj._save_(dependent_objects)`.  Returns the new state and the (mutated) `dependent_objects` list. -/
def save (g : Graph) : Nat → Nat → Option (List Nat) → St → Except Err (St × List Nat)
  | 0, _, _, _ => .error .outOfFuel
  | fuel + 1, x, dep, s =>
    let stx := statusOf s.status x
    if stx = .created ∨ stx = .modified then
      -- _save_principal_objects_
      if inDep dep x then
        .error (.cycle (dep.getD []))
      else
        let d := dep.getD [] ++ [x]
        match saveRefs (fun y d' s' => save g fuel y (some d') s') (attrsToCheck g stx x) d s with
        | .ok (s', d') => .ok (writeObj x stx s', d')
        | .error e => .error e
    else if stx = .markedToDelete then
      .ok (writeObj x stx s, dep.getD [])
    else .error (.badStatus x)

/-- has `x` been written during this flush (its slot in `objects_to_save` is `None` by now) -/
def written (s : St) (x : Nat) : Bool := s.out.any (fun w => w.obj? == some x)

/-- `for obj in cache.objects_to_save: if obj is not None: obj._save_()` -/
def saveQueue (g : Graph) (fuel : Nat) : List (Option Nat) → St → Except Err St
  | [], s => .ok s
  | none :: q, s => saveQueue g fuel q s
  | some x :: q, s =>
    if written s x then saveQueue g fuel q s
    else match save g fuel x none s with
      | .ok (s', _) => saveQueue g fuel q s'
      | .error e => .error e

/-- enough fuel for any recursion: the nesting depth is bounded by the number of objects (see `save_fuel_enough`) -/
def fuelFor (status : List Status) : Nat := status.length + 1

structure Session where
  status : List Status
  refs : Graph
  queue : List (Option Nat)
  removed : List (Nat × Nat)    -- link rows of `modified_m2m[..][1]`, in execution order
  added : List (Nat × Nat)      -- link rows of `modified_m2m[..][0]`, in execution order

/-- the statement list of one round of `SessionCache.flush` (no hooks) -/
def flush (ss : Session) : Except Err (List Write) :=
  let s0 : St := { status := ss.status, out := ss.removed.map (fun p => Write.unlink p.1 p.2) }
  match saveQueue ss.refs (fuelFor ss.status) ss.queue s0 with
  | .ok s => .ok (s.out ++ ss.added.map (fun p => Write.link p.1 p.2))
  | .error e => .error e

/-- object writes only (the middle part of `flush`) -/
def saveOrder (status : List Status) (g : Graph) (queue : List (Option Nat)) : Except Err (List Write) :=
  match saveQueue g (fuelFor status) queue { status := status, out := [] } with
  | .ok s => .ok s.out
  | .error e => .error e

/-! ### the queue with its slots: `objects_to_save[save_pos] = None` / `pop()` and the index-based `for` loop

  `saveQueue` above represents the slot clearing at the end of `_save_` by the test "already written".  The definitions
  below keep the real bookkeeping: `queue` = `objects_to_save` (mutated while it is iterated), `pos[x]` = `x._save_pos_`.
  `Props/C16.lean: C16_slots_refine` proves that both loops compute the same result whenever the slots and the
  positions agree (what every object-level operation of Pony maintains). -/

structure Slots where
  queue : List (Option Nat)
  pos : List (Option Nat)       -- `_save_pos_` per object
  deriving Repr

def posOf (pos : List (Option Nat)) (x : Nat) : Option Nat := (pos[x]?).getD none

/-- the tail of `_save_`:
    `if save_pos == len(objects_to_save) - 1: objects_to_save.pop()  else: objects_to_save[save_pos] = None;  obj._save_pos_ = None` -/
def clearSlot (qs : Slots) (x : Nat) : Slots :=
  match posOf qs.pos x with
  | none => qs          -- (`objects_to_save[None]` would raise; unreachable: a pending object always has a position)
  | some p => { queue := if p + 1 = qs.queue.length then qs.queue.dropLast else qs.queue.set p none,
                pos := qs.pos.set x none }

/-- objects written between two states, in write order -/
def newObjs (s s' : St) : List Nat := (s'.out.drop s.out.length).filterMap Write.obj?

/-- one top-level `obj._save_()` (this is also `Entity.flush(obj)`): the recursion of `save`, each written object
    clearing its slot.  The recursion never reads the queue, so clearing after it, in write order, is the same as the
    interleaved clearing of the code. -/
def saveTopS (g : Graph) (fuel : Nat) (x : Nat) (r : St × Slots) : Except Err (St × Slots) :=
  match save g fuel x none r.1 with
  | .ok (s', _) => .ok (s', (newObjs r.1 s').foldl clearSlot r.2)
  | .error e => .error e

/-- `for obj in cache.objects_to_save: if obj is not None: obj._save_()` as CPython runs it: index `i` against the
    current length of the list that the body mutates.  `n` bounds the number of iterations (the list never grows). -/
def loopS (g : Graph) (fuel : Nat) : Nat → Nat → St × Slots → Except Err (St × Slots)
  | 0, _, r => .ok r
  | n + 1, i, r =>
    if i < r.2.queue.length then
      match r.2.queue[i]? with
      | some (some x) =>
        match saveTopS g fuel x r with
        | .ok r' => loopS g fuel n (i + 1) r'
        | .error e => .error e
      | _ => loopS g fuel n (i + 1) r
    else .ok r

/-- the object writes of a flush, computed with the real queue bookkeeping -/
def saveOrderS (status : List Status) (g : Graph) (qs : Slots) : Except Err (List Write × Slots) :=
  match loopS g (fuelFor status) qs.queue.length 0 ({ status := status, out := [] }, qs) with
  | .ok r => .ok (r.1.out, r.2)
  | .error e => .error e

/-! ### the transaction around the statements: `_exec_sql`, `prepare_connection_for_query_execution`,
      `set_transaction_mode` (SQLite), `SessionCache.flush` (the `immediate` flag), `commit`, `rollback`, `flush_and_commit`

  What the database durably holds is represented by the log of committed statements; "the database is unchanged" is
  "the committed log is unchanged". -/

structure Conn where
  inTxn : Bool                 -- cache.in_transaction
  immediate : Bool             -- cache.immediate
  committed : List Write       -- statements whose effect is durable
  pending : List Write         -- statements executed inside the open transaction
  deriving Repr

/-- the `start_transaction` argument the five writers pass to `_exec_sql`: the object writers pass `True`, `add_m2m` and
    `remove_m2m` pass nothing and rely on the flag `flush` has set (re-derived from the source: Gen/FlushShape.lean) -/
def startFlag : Write → Bool
  | .insert _ | .update _ | .delete _ => true
  | .unlink _ _ | .link _ _ => false

/-- one `database._exec_sql(sql, args, start_transaction=f)`:
    `if start_transaction: cache.immediate = True`; `prepare_connection_for_query_execution`: `if cache.immediate and not
    cache.in_transaction: set_transaction_mode` (BEGIN IMMEDIATE, `in_transaction = True`); the statement then runs inside
    the transaction, or - no transaction open - in autocommit mode, i.e. durably at once. -/
def execStmt (c : Conn) (w : Write) : Conn :=
  let imm := c.immediate || startFlag w
  let inTxn := c.inTxn || imm
  if inTxn then { c with immediate := imm, inTxn := true, pending := c.pending ++ [w] }
  else { c with immediate := imm, committed := c.committed ++ [w] }

def execAll (c : Conn) (ws : List Write) : Conn := ws.foldl execStmt c

/-- `provider.commit` when a transaction is open; `cache.immediate = True` afterwards (as `SessionCache.commit` does) -/
def commitConn (c : Conn) : Conn :=
  { inTxn := false, immediate := true, committed := if c.inTxn then c.committed ++ c.pending else c.committed, pending := [] }

/-- `cache.rollback()` -/
def rollbackConn (c : Conn) : Conn := { c with inTxn := false, pending := [] }

/-- `SessionCache.flush` seen from the connection: `prev_immediate = cache.immediate; cache.immediate = True`, the
    statements (all of them on success, the ones executed before the raise otherwise), and
    `finally: if not cache.in_transaction: cache.immediate = prev_immediate`.
    `setImmediate = false` is the code WITHOUT the line `cache.immediate = True` (used only to show the line matters). -/
def flushConn (setImmediate : Bool) (c : Conn) (executed : List Write) : Conn :=
  let c1 := execAll { c with immediate := c.immediate || setImmediate } executed
  if c1.inTxn then c1 else { c1 with immediate := c.immediate }

/-- `SessionCache.flush_and_commit` / the commit at the end of a db_session:
    `try: flush() except: rollback(); raise` then `commit()`.  `executed` = the statements the flush executed: the whole
    list when it succeeds, an arbitrary prefix-like list (whatever was sent before the raise) when it fails. -/
def flushAndCommit (c : Conn) (ss : Session) (executedBeforeRaise : List Write) : Conn × Except Err Unit :=
  match flush ss with
  | .ok ws => (commitConn (flushConn true c ws), .ok ())
  | .error e => (rollbackConn (flushConn true c executedBeforeRaise), .error e)

/-! ### a database with immediately enforced foreign keys (parent-must-exist check of INSERT / UPDATE) -/

/-- execute one statement against the set `rows` of existing rows; `none` = the backend refuses (FK violation).
    INSERT checks every reference of the row, UPDATE the references it assigns, link rows both ends.
    DELETE removes the row (the `ON DELETE` clause decides about dependants; not modelled here). -/
def applyWrite (g : Graph) (rows : List Nat) : Write → Option (List Nat)
  | .insert x => if (refsOf g x).all (fun r => decide (r.target ∈ rows)) then some (x :: rows) else none
  | .update x => if ((refsOf g x).filter (·.dirty)).all (fun r => decide (r.target ∈ rows)) then some rows else none
  | .delete x => some (rows.filter (· ≠ x))
  | .unlink _ _ => some rows
  | .link a b => if a ∈ rows ∧ b ∈ rows then some rows else none

def applyWrites (g : Graph) : List Nat → List Write → Option (List Nat)
  | rows, [] => some rows
  | rows, w :: ws => match applyWrite g rows w with
    | some rows' => applyWrites g rows' ws
    | none => none

end PonyVerif.Model.SaveOrder
