/-
  C30 — hand model of the SCANNER: `pony/utils/utils.py: parse_expr` (its three regexes `expr1_re`, `expr2_re`, `expr3_re`)
  and the two statement loops that call it, `pony/orm/core.py: adapt_sql` and `pony/orm/ormtypes.py: parse_raw_sql`,
  on the characters of the statement.  This is what decides WHICH token list (`Model/RawSql.lean`) a string denotes.

  Regexes, as written:
      expr1_re   ([A-Za-z_]\w*) | ([(])
      expr2_re   \s*(?: (;) | (\.\s*[A-Za-z_]\w*) | ([([]) )
      expr3_re   [()[\]] | '''(?:[^\\]|\\.)*?''' | """(?:[^\\]|\\.)*?""" | '(?:[^'\\]|\\.)*?' | "(?:[^"\\]|\\.)*?"   (used with .search)
  `\w`, `\s` are modelled for ASCII (`[A-Za-z0-9_]`, `[ \t\n\r\f\v\x1c-\x1f]`); non-ASCII characters count as neither
  (the differential tie of the scanner is run on ASCII statements).  `.` does not match a newline.
  The second result of `parse_expr` (the `z == 1` flag) is ignored by both callers and is not modelled.
  `compile(expr, '<?>', 'eval')` (the syntax check of the expression text) is not modelled.
  Core Lean only.
-/
import PonyVerif.Model.RawSql
namespace PonyVerif.Model.RawSql

def isIdStart (c : Char) : Bool := c.isAlpha || c == '_'
def isWord (c : Char) : Bool := c.isAlphanum || c == '_'
def isSpace (c : Char) : Bool :=
  c == ' ' || c == '\t' || c == '\n' || c == '\r' || c.toNat == 11 || c.toNat == 12 || (28 ≤ c.toNat && c.toNat ≤ 31)

/-- number of leading characters satisfying `p` (a greedy `p*`) -/
def spanLen (p : Char → Bool) : List Char → Nat
  | [] => 0
  | c :: r => if p c then spanLen p r + 1 else 0

/-- `[A-Za-z_]\w*` at the head: its length -/
def identLen : List Char → Option Nat
  | [] => none
  | c :: r => if isIdStart c then some (1 + spanLen isWord r) else none

/-- does the text start with three quote characters `q`? -/
def startsTriple (q : Char) : List Char → Bool
  | a :: b :: c :: _ => a = q && b = q && c = q
  | _ => false

/-- the body of a triple-quoted string `(?:[^\\]|\\.)*?` up to the first closing `qqq` (lazy): the elements are one
    non-backslash character, or a backslash and one non-newline character (`esc` = the previous character was the
    backslash of such a pair).  Returns the length consumed including the closing delimiter. -/
def tripleBody (q : Char) : Bool → List Char → Option Nat
  | _, [] => none
  | true, c :: r => if c = '\n' then none else (tripleBody q false r).map (· + 1)
  | false, c :: r =>
    if startsTriple q (c :: r) then some 3
    else if c = '\\' then (tripleBody q true r).map (· + 1)
    else (tripleBody q false r).map (· + 1)

/-- the body of a one-quote string `(?:[^q\\]|\\.)*?` up to the closing `q` -/
def singleBody (q : Char) : Bool → List Char → Option Nat
  | _, [] => none
  | true, c :: r => if c = '\n' then none else (singleBody q false r).map (· + 1)
  | false, c :: r =>
    if c = q then some 1
    else if c = '\\' then (singleBody q true r).map (· + 1)
    else (singleBody q false r).map (· + 1)

/-- a quoted string at the head (the four string alternatives of `expr3_re`, in their order): its length -/
def stringLen : List Char → Option Nat
  | q :: r =>
    if q = '\'' || q = '"' then
      let tripleM : Option Nat :=
        if startsTriple q (q :: r) then (tripleBody q false (r.drop 2)).map (· + 3) else none
      match tripleM with
      | some n => some n
      | none => (singleBody q false r).map (· + 1)
    else none
  | [] => none

/-- `expr3_re.search(s, pos)`: the leftmost match; returns the offset just after it and the bracket it is (if it is one) -/
def nextTok : List Char → Option (Nat × Option Char)
  | [] => none
  | c :: r =>
    if c = '(' || c = ')' || c = '[' || c = ']' then some (1, some c)
    else match stringLen (c :: r) with
      | some n => some (n, none)
      | none => (nextTok r).map (fun p => (p.1 + 1, p.2))

/-- the inner `while True:` of `parse_expr`: from just after the opening bracket to just after its closing partner;
    only brackets of the SAME kind are counted, quoted strings are skipped -/
def closeBracket (opn cls : Char) : Nat → Nat → List Char → Option Nat
  | 0, _, _ => none
  | fuel + 1, counter, s =>
    match nextTok s with
    | none => none                                            -- `raise ValueError()`
    | some (n, x) =>
      if x = some opn then (closeBracket opn cls fuel (counter + 1) (s.drop n)).map (· + n)
      else if x = some cls then
        (if counter = 1 then some n else (closeBracket opn cls fuel (counter - 1) (s.drop n)).map (· + n))
      else (closeBracket opn cls fuel counter (s.drop n)).map (· + n)

/-- the outer `while True:` of `parse_expr` (`expr2_re.match(s, pos)`): how many more characters belong to the expression -/
def exprTail : Nat → List Char → Option Nat
  | 0, _ => some 0
  | fuel + 1, s =>
    let ws := spanLen isSpace s
    match s.drop ws with
    | [] => some 0                                            -- no match: `return s[start:pos]`
    | c :: r =>
      if c = ';' then some (ws + 1)                           -- group 1: explicit end, the `;` belongs to the returned text
      else if c = '.' then
        let ws2 := spanLen isSpace r
        match identLen (r.drop ws2) with
        | some n => (exprTail fuel ((r.drop ws2).drop n)).map (· + (ws + 1 + ws2 + n))
        | none => some 0
      else if c = '(' then
        match closeBracket '(' ')' (r.length + 1) 1 r with
        | some n => (exprTail fuel (r.drop n)).map (· + (ws + 1 + n))
        | none => none
      else if c = '[' then
        match closeBracket '[' ']' (r.length + 1) 1 r with
        | some n => (exprTail fuel (r.drop n)).map (· + (ws + 1 + n))
        | none => none
      else some 0

/-- `parse_expr(s, pos)` on the suffix at `pos`: the length of the returned text, or `none` for `ValueError` -/
def parseExpr (s : List Char) : Option Nat :=
  match s with
  | [] => none
  | c :: r =>
    if isIdStart c then
      let n := 1 + spanLen isWord r
      (exprTail (s.length + 1) (s.drop n)).map (· + n)
    else if c = '(' then exprTail (s.length + 1) s             -- group 2: `pos` stays, the loop sees the `(` again
    else none

inductive ScanErr where
  | indexError          -- the statement ends in a lone `$`: `sql[i+1]`
  | valueError          -- `parse_expr` raised
  | typeError           -- `parse_raw_sql('')`
  deriving DecidableEq, Repr

/-- cut an optional closing `;` off the expression text -/
def cutSemi (e : List Char) : List Char × Bool :=
  if e.getLast? = some ';' then (e.dropLast, true) else (e, false)

/-- the `while True:` loop of `adapt_sql` as a tokenizer (what is appended to `result` / `args`, in order).
    `sql[pos:i]` is appended even when it is empty. -/
def scan : Nat → List Char → Except ScanErr (List Tok)
  | 0, _ => .ok []
  | fuel + 1, s =>
    let t := s.takeWhile (· != '$')
    match s.dropWhile (· != '$') with
    | [] => .ok [.text t]                                     -- `except ValueError: result.append(sql[pos:]); break`
    | _ :: [] => .error .indexError                           -- `sql[i+1]`
    | _ :: c :: r =>
      if c = '$' then (scan fuel r).map (fun toks => .text t :: .dollar :: toks)
      else
        match parseExpr (c :: r) with
        | none => .error .valueError
        | some n =>
          let (e, semi) := cutSemi ((c :: r).take n)
          (scan fuel ((c :: r).drop n)).map (fun toks => .text t :: .expr e semi :: toks)

def scanSql (s : List Char) : Except ScanErr (List Tok) := scan (s.length + 1) s

/-- the loop of `parse_raw_sql`, written out separately as in `ormtypes.py`: `items` and `codes` -/
def scanRawLoop : Nat → List Char → Except ScanErr (List RawItem × List (List Char))
  | 0, _ => .ok ([], [])
  | fuel + 1, s =>
    let t := s.takeWhile (· != '$')
    match s.dropWhile (· != '$') with
    | [] => .ok ([.str t], [])
    | _ :: [] => .error .indexError
    | _ :: c :: r =>
      if c = '$' then (scanRawLoop fuel r).map (fun p => (.str t :: .str ['$'] :: p.1, p.2))
      else
        match parseExpr (c :: r) with
        | none => .error .valueError                          -- `raise ValueError(sql[i:])`
        | some n =>
          let (e, _) := cutSemi ((c :: r).take n)
          (scanRawLoop fuel ((c :: r).drop n)).map (fun p => (.str t :: .param e :: p.1, e :: p.2))

/-- `parse_raw_sql(sql)` -/
def scanRaw (s : List Char) : Except ScanErr (List RawItem × List (List Char)) :=
  if s.isEmpty then .error .typeError else scanRawLoop (s.length + 1) s

/-- `adapt_sql(sql, paramstyle)` on the characters of the statement (cold cache) -/
def adaptString (style : Style) (s : List Char) : Except ScanErr Adapted :=
  (scanSql s).map (adaptCold style)

end PonyVerif.Model.RawSql
