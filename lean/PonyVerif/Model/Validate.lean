import PonyVerif.Model.Store
/-
  C08 — hand model of attribute validation (pony/orm/dbapiprovider.py: IntConverter.init / validate,
  RealConverter.validate, DecimalConverter.validate, StrConverter.init / validate; pony/orm/core.py:
  Attribute.validate, Required.validate).  The control flow of the code is mirrored statement by statement
  (order of the tests, the replaced `lowest`/`highest`, `max_len` truthiness, `val == ''` after conversion).
  Tied to the real code on every run by harness/engines/c08.py (same declarations, same candidate values).
  Core Lean only.
-/
namespace PonyVerif.Model.Validate

/-! ### exact numbers: what a Python `float` / `Decimal` denotes -/

/-- a float or Decimal as an exact value: the rational `n / d` (`d > 0`), an infinity, or NaN -/
inductive Num where
  | fin (n : Int) (d : Nat)
  | pinf
  | ninf
  | nan
  deriving Repr, DecidableEq, Inhabited

namespace Num
/-- Python / IEEE `a < b` (every comparison with NaN is false) -/
def lt : Num → Num → Bool
  | .fin a b, .fin c d => decide (a * d < c * b)
  | .fin _ _, .pinf => true
  | .fin _ _, .ninf => false
  | .fin _ _, .nan => false
  | .pinf, .fin _ _ => false
  | .pinf, .pinf => false
  | .pinf, .ninf => false
  | .pinf, .nan => false
  | .ninf, .fin _ _ => true
  | .ninf, .pinf => true
  | .ninf, .ninf => false
  | .ninf, .nan => false
  | .nan, .fin _ _ => false
  | .nan, .pinf => false
  | .nan, .ninf => false
  | .nan, .nan => false

/-- Python / IEEE `a <= b` (false when either side is NaN) -/
def leB : Num → Num → Bool
  | .fin a b, .fin c d => decide (a * d ≤ c * b)
  | .fin _ _, .pinf => true
  | .fin _ _, .ninf => false
  | .fin _ _, .nan => false
  | .pinf, .fin _ _ => false
  | .pinf, .pinf => true
  | .pinf, .ninf => false
  | .pinf, .nan => false
  | .ninf, .fin _ _ => true
  | .ninf, .pinf => true
  | .ninf, .ninf => true
  | .ninf, .nan => false
  | .nan, .fin _ _ => false
  | .nan, .pinf => false
  | .nan, .ninf => false
  | .nan, .nan => false

/-- the declared meaning of a bound: `a ≤ b` as a statement about the denoted numbers (false for NaN) -/
def le : Num → Num → Prop
  | .fin a b, .fin c d => a * d ≤ c * b
  | .fin _ _, .pinf => True
  | .fin _ _, .ninf => False
  | .fin _ _, .nan => False
  | .pinf, .fin _ _ => False
  | .pinf, .pinf => True
  | .pinf, .ninf => False
  | .pinf, .nan => False
  | .ninf, .fin _ _ => True
  | .ninf, .pinf => True
  | .ninf, .ninf => True
  | .ninf, .nan => False
  | .nan, .fin _ _ => False
  | .nan, .pinf => False
  | .nan, .ninf => False
  | .nan, .nan => False

def isNan : Num → Bool
  | .nan => true
  | .fin _ _ => false
  | .pinf => false
  | .ninf => false
end Num

/-! ### values and results -/

/-- candidate values handed to `validate` -/
inductive Val where
  | none
  | dflt                    -- the `DEFAULT` marker `Entity.__init__` passes for a missing keyword
  | bool (b : Bool)
  | int (i : Int)
  | str (s : List Char)
  | flt (x : Num)           -- float
  | dec (x : Num)           -- decimal.Decimal
  | other (tag : String)    -- any other Python object (no `__index__`)
  deriving Repr, DecidableEq, Inhabited

/-- result: the normalised value or the class name of the exception raised -/
abbrev Res := Except String Val

def accepted (r : Res) : Prop := ∃ v, r = .ok v

/-! ### IntConverter -/

/-- the keyword options of an int attribute as written in the declaration -/
structure IntOpts where
  size : Option Int := none          -- `size=`; none = not given
  unsigned : Option Bool := some false  -- `unsigned=`; the default is False; `none` = `unsigned=None` written explicitly
  min : Option Int := none
  max : Option Int := none
  deriving Repr, DecidableEq

/-- converter fields after `IntConverter.init` -/
structure IntConv where
  minVal : Option Int
  maxVal : Option Int
  size : Option Int
  unsigned : Option Bool
  deriving Repr, DecidableEq

def sizeOk (s : Int) : Bool := s == 8 || s == 16 || s == 24 || s == 32 || s == 64

/-- `lowest` / `highest` of `IntConverter.init` for the effective size -/
def lowestOf (size : Option Int) (uns : Bool) : Option Int :=
  match size with
  | Option.none => Option.none
  | some s => if s = 0 then Option.none else if uns then some 0 else some (-(2 ^ (s.toNat - 1)))

def highestOf (size : Option Int) (uns : Bool) : Option Int :=
  match size with
  | Option.none => Option.none
  | some s => if s = 0 then Option.none else if uns then some (2 ^ s.toNat - 1) else some (2 ^ (s.toNat - 1) - 1)

/-- class of the exception raised for a bound outside the size range (see the comment in `intInit`) -/
def boundErr (unsigned : Option Bool) : String := if unsigned.isNone then "TypeError" else "ValueError"

/-- `IntConverter.init` (the type checks of `min`/`max`/`size`/`unsigned` arguments are outside the model:
    options are well-typed).  `uint64` = `provider.uint64_support`. -/
def intInit (uint64 : Bool) (o : IntOpts) : Except String IntConv :=
  -- elif size not in (8, 16, 24, 32, 64): throw(TypeError)
  if (match o.size with | some s => !sizeOk s | Option.none => false) then .error "TypeError" else
  let uns : Bool := o.unsigned == some true          -- truthiness of `unsigned`
  -- if size == 64 and unsigned and not provider.uint64_support: throw(TypeError)
  if o.size == some 64 && uns && !uint64 then .error "TypeError" else
  -- if unsigned is not None and size is None: size = 32
  let size : Option Int := if o.unsigned.isSome && o.size.isNone then some 32 else o.size
  let lowest := lowestOf size uns
  let highest := highestOf size uns
  -- if highest is not None and max_val is not None and max_val > highest: throw(ValueError)
  --   (the message is formatted with `"… unsigned=%s. Got: %d" % (highest, size, max_val, unsigned)`: the last two arguments are
  --    swapped, so `%d` receives `unsigned`; with `unsigned=None` the formatting itself raises TypeError)
  if (match highest, o.max with | some h, some m => decide (m > h) | _, _ => false) then .error (boundErr o.unsigned) else
  -- if lowest is not None and min_val is not None and min_val < lowest: throw(ValueError)
  if (match lowest, o.min with | some l, some m => decide (m < l) | _, _ => false) then .error (boundErr o.unsigned) else
  .ok { minVal := match o.min with | Option.none => lowest | some m => some m,
        maxVal := match o.max with | Option.none => highest | some m => some m,
        size := size, unsigned := o.unsigned }

/-- the integer a candidate denotes for `IntConverter.validate`: an int (or bool, a subclass of int) is taken as is,
    a str goes through `int(val)` (`parse`; `none` = ValueError), everything else is a TypeError -/
def intOf (parse : List Char → Option Int) : Val → Except String Int
  | .int i => .ok i
  | .bool b => .ok (if b then 1 else 0)
  | .str s => match parse s with
    | some i => .ok i
    | Option.none => .error "ValueError"
  | .none => .error "TypeError"
  | .dflt => .error "TypeError"
  | .flt _ => .error "TypeError"
  | .dec _ => .error "TypeError"
  | .other _ => .error "TypeError"

/-- `bound is not None and i < bound` -/
def ltOpt (i : Int) (bound : Option Int) : Bool :=
  match bound with
  | some m => decide (i < m)
  | Option.none => false
/-- `bound is not None and i > bound` -/
def gtOpt (i : Int) (bound : Option Int) : Bool :=
  match bound with
  | some m => decide (i > m)
  | Option.none => false

/-- what `IntConverter.validate` returns: `val` itself when it is an int (a bool stays a bool), else the converted int -/
def intResult (v : Val) (i : Int) : Val :=
  match v with
  | .bool b => .bool b
  | .int _ => .int i
  | .str _ => .int i
  | .none => .int i
  | .dflt => .int i
  | .flt _ => .int i
  | .dec _ => .int i
  | .other _ => .int i

/-- `IntConverter.validate`: returns the candidate itself for int/bool, the parsed int for str -/
def intValidate (parse : List Char → Option Int) (c : IntConv) (v : Val) : Res :=
  match intOf parse v with
  | .error e => .error e
  | .ok i =>
    if ltOpt i c.minVal then .error "ValueError" else
    if gtOpt i c.maxVal then .error "ValueError" else
    .ok (intResult v i)

/-! ### RealConverter / DecimalConverter -/

structure NumConv where
  minVal : Option Num
  maxVal : Option Num
  deriving Repr, DecidableEq

/-- `bound is not None and not x >= bound` (float comparison; true for NaN) -/
def numLtOpt (x : Num) (bound : Option Num) : Bool :=
  match bound with
  | some m => !(m.leB x)
  | Option.none => false
/-- `bound is not None and not x <= bound` -/
def numGtOpt (x : Num) (bound : Option Num) : Bool :=
  match bound with
  | some m => !(x.leB m)
  | Option.none => false

/-- `RealConverter.validate`; `toFloat` is Python's `float(val)` (error = class name of what it raises) -/
def realValidate (toFloat : Val → Except String Num) (c : NumConv) (v : Val) : Res :=
  match toFloat v with
  | .error e => .error (if e = "ValueError" then "TypeError" else e)   -- except ValueError: throw(TypeError)
  | .ok x =>
    if numLtOpt x c.minVal then .error "ValueError" else
    if numGtOpt x c.maxVal then .error "ValueError" else
    .ok (.flt x)

/-- `Decimal.__lt__`: an ordering comparison with NaN signals InvalidOperation (trapped in the default context) -/
def decLt (a b : Num) : Except String Bool :=
  if a.isNan || b.isNan then .error "InvalidOperation" else .ok (a.lt b)

/-- `bound is not None and x < bound` for Decimals -/
def decLtOpt (x : Num) (bound : Option Num) : Except String Bool :=
  match bound with
  | some m => decLt x m
  | Option.none => .ok false
def decGtOpt (x : Num) (bound : Option Num) : Except String Bool :=
  match bound with
  | some m => decLt m x
  | Option.none => .ok false

/-- `DecimalConverter.validate`; `toDec` is `Decimal(val)` incl. the float → str/repr step -/
def decValidate (toDec : Val → Except String Num) (c : NumConv) (v : Val) : Res :=
  match toDec v with
  | .error e => .error (if e = "InvalidOperation" then "TypeError" else e)
  | .ok x =>
    match decLtOpt x c.minVal with
    | .error e => .error e
    | .ok true => .error "ValueError"
    | .ok false =>
      match decGtOpt x c.maxVal with
      | .error e => .error e
      | .ok true => .error "ValueError"
      | .ok false => .ok (.dec x)

/-! ### StrConverter -/

/-- `str.isspace` for one code point (the characters `str.strip()` removes) -/
def isPySpace (c : Char) : Bool :=
  let n := c.toNat
  (9 ≤ n && n ≤ 13) || (28 ≤ n && n ≤ 32) || n == 0x85 || n == 0xa0 || n == 0x1680 ||
  (0x2000 ≤ n && n ≤ 0x200a) || n == 0x2028 || n == 0x2029 || n == 0x202f || n == 0x205f || n == 0x3000

def rstrip (s : List Char) : List Char := (s.reverse.dropWhile isPySpace).reverse
/-- `str.strip()` -/
def strip (s : List Char) : List Char := rstrip (s.dropWhile isPySpace)

structure StrConv where
  maxLen : Option Int
  autostrip : Bool
  deriving Repr, DecidableEq

/-- `StrConverter.init`: `posLen` is the positional max length (`attr.args[0]`), `kwLen` the `max_len=` keyword
    (none = not given), `dfltLen` is `provider.varchar_default_max_len` -/
def strInit (isLong : Bool) (posLen kwLen : Option Int) (dfltLen : Option Int) (autostrip : Bool) : Except String StrConv :=
  -- elif attr.args: if max_len is not None: throw(TypeError, 'Max length option specified twice …'); max_len = attr.args[0]
  if posLen.isSome && kwLen.isSome then .error "TypeError" else
  let maxLen : Option Int := match posLen with
    | some m => some m
    | Option.none => kwLen
  if isLong then
    if maxLen.isSome then .error "TypeError" else .ok { maxLen := Option.none, autostrip := autostrip }
  else match maxLen with
    | Option.none => .ok { maxLen := dfltLen, autostrip := autostrip }
    | some m => .ok { maxLen := some m, autostrip := autostrip }

/-- `max_len and val_len > max_len` (a max_len of 0 or None is falsy) -/
def tooLong (maxLen : Option Int) (t : List Char) : Bool :=
  match maxLen with
  | some m => m != 0 && decide ((t.length : Int) > m)
  | Option.none => false

/-- `StrConverter.validate` -/
def strValidate (c : StrConv) (v : Val) : Res :=
  match v with
  | .str s =>
    let t := if c.autostrip then strip s else s
    -- if max_len and val_len > max_len: throw(ValueError)
    if tooLong c.maxLen t then .error "ValueError"
    else .ok (.str t)
  | .none => .error "TypeError"
  | .dflt => .error "TypeError"
  | .bool _ => .error "TypeError"
  | .int _ => .error "TypeError"
  | .flt _ => .error "TypeError"
  | .dec _ => .error "TypeError"
  | .other _ => .error "TypeError"

/-! ### Attribute.validate / Required.validate -/

structure AttrOpts where
  required : Bool            -- isinstance(attr, Required)
  nullable : Bool            -- truthiness of attr.nullable after generate_mapping
  noneOk : Bool              -- attr.auto or attr.is_volatile or attr.sql_default
  default : Option Val       -- attr.default (the value a callable default returns); none = None
  hasCheck : Bool            -- attr.py_check is not None
  deriving Repr, DecidableEq

/-- `converter.validate(val, obj)` followed by the `py_check` test -/
def convChecked (a : AttrOpts) (conv : Val → Res) (check : Val → Bool) (w : Val) : Res :=
  match conv w with
  | .error e => .error e
  | .ok r => if a.hasCheck && !check r then .error "ValueError" else .ok r

/-- `Attribute.validate(val, obj, entity, from_db=False)` for a non-relational attribute with one converter `conv`;
    `check` is `attr.py_check` (opaque predicate) -/
def attrValidate (a : AttrOpts) (conv : Val → Res) (check : Val → Bool) (v : Val) : Res :=
  match v with
  | .none =>
    -- if not attr.nullable and not from_db and not attr.is_required: throw(ValueError)
    if !a.nullable && !a.required then .error "ValueError" else .ok .none
  | .dflt =>
    match a.default with
    | Option.none => .ok .none        -- if default is None: return None
    | some w => convChecked a conv check w
  | .bool b => convChecked a conv check (.bool b)
  | .int i => convChecked a conv check (.int i)
  | .str s => convChecked a conv check (.str s)
  | .flt x => convChecked a conv check (.flt x)
  | .dec x => convChecked a conv check (.dec x)
  | .other t => convChecked a conv check (.other t)

/-- `Required.validate` -/
def requiredValidate (a : AttrOpts) (conv : Val → Res) (check : Val → Bool) (v : Val) : Res :=
  match attrValidate a conv check v with
  | .error e => .error e
  | .ok r =>
    -- if val == '' or (val is None and not (attr.auto or attr.is_volatile or attr.sql_default)): throw(ValueError)
    if r == .str [] || (r == .none && !a.noneOk) then .error "ValueError" else .ok r

/-- the method that `attr.validate` resolves to -/
def validate (a : AttrOpts) (conv : Val → Res) (check : Val → Bool) (v : Val) : Res :=
  if a.required then requiredValidate a conv check v else attrValidate a conv check v

/-! ### the four entry points: all of them call `attr.validate(val, …, from_db=False)` first -/

/-- `Entity(**kwargs)`: a missing keyword is validated as DEFAULT; the validated value is what the object holds -/
def create (a : AttrOpts) (conv : Val → Res) (check : Val → Bool) (kw : Option Val) : Res :=
  validate a conv check (kw.getD .dflt)
/-- `obj.attr = v` (`Attribute.__set__`) -/
def assign (a : AttrOpts) (conv : Val → Res) (check : Val → Bool) (_old : Val) (v : Val) : Res :=
  validate a conv check v
/-- `obj.set(attr=v)` (`Entity._keyargs_to_avdicts_`) -/
def setKw (a : AttrOpts) (conv : Val → Res) (check : Val → Bool) (_old : Val) (v : Val) : Res :=
  validate a conv check v
/-- `Entity.get(attr=v)` / `exists` / `select().filter(attr=v)` (`_find_one_`, `Query._apply_kwfilters`):
    the validated value is the search key -/
def lookupKey (a : AttrOpts) (conv : Val → Res) (check : Val → Bool) (v : Val) : Res :=
  validate a conv check v

/-! ### primary-key attributes and values read from the database -/

/-- Python `==` between attribute values as far as it matters here: a bool equals the int it denotes -/
def keyOf : Val → Val
  | .bool b => .int (if b then 1 else 0)
  | .none => .none
  | .dflt => .dflt
  | .int i => .int i
  | .str s => .str s
  | .flt x => .flt x
  | .dec x => .dec x
  | .other t => .other t

/-- `obj.pk = v` / `obj.set(pk=v)` (`Attribute.__set__`, `Entity._keyargs_to_avdicts_`) for a primary-key attribute:
    the value is validated first; then `if new_val == pkval: return` else `throw(TypeError, 'Cannot change value of primary key')` -/
def assignPk (a : AttrOpts) (conv : Val → Res) (check : Val → Bool) (old : Val) (v : Val) : Res :=
  match validate a conv check v with
  | .error e => .error e
  | .ok r => if keyOf r == keyOf old then .ok old else .error "TypeError"     -- `return`: the object keeps the key it has

/-- `IntConverter.sql2py` = `int(val)` on what an INTEGER-affinity column returns (int; text that is not a number) -/
def intSql2py (parse : List Char → Option Int) (v : Val) : Res :=
  match intOf parse v with
  | .ok i => .ok (.int i)
  | .error e => .error e

/-- `Converter.sql2py` of StrConverter: the identity -/
def strSql2py (v : Val) : Res := .ok v

/-- `attr.validate(val, None, entity, from_db=True)` (`Attribute.parse_value`): `None` passes whatever the declaration says,
    everything else goes through `converter.sql2py` only — no bound test, no py_check; `Required.validate` merely warns
    (DatabaseContainsIncorrectEmptyValue) about NULL / '' -/
def validateDb (_a : AttrOpts) (sql2py : Val → Res) (v : Val) : Res :=
  match v with
  | .none => .ok .none
  | .dflt => sql2py .dflt
  | .bool b => sql2py (.bool b)
  | .int i => sql2py (.int i)
  | .str s => sql2py (.str s)
  | .flt x => sql2py (.flt x)
  | .dec x => sql2py (.dec x)
  | .other t => sql2py (.other t)

/-! ### temporal attributes: DateConverter / TimeConverter / DatetimeConverter .validate
    (candidates of the neighbouring types: `datetime` is a subclass of `date`, so the ORDER of the isinstance tests matters) -/

/-- candidate / normalised values of the temporal attribute types -/
inductive TVal where
  | none
  | date (y m d : Nat)
  | datetime (y m d h mi s us : Nat)
  | time (h mi s us : Nat)
  | str (s : List Char)
  | other (tag : String)
  deriving Repr, DecidableEq, Inhabited

def TVal.isDate : TVal → Bool
  | .date _ _ _ => true
  | _ => false
def TVal.isTime : TVal → Bool
  | .time _ _ _ _ => true
  | _ => false
def TVal.isDatetime : TVal → Bool
  | .datetime _ _ _ _ _ _ _ => true
  | _ => false
/-- the microsecond field of a time / datetime -/
def TVal.us? : TVal → Option Nat
  | .time _ _ _ us => some us
  | .datetime _ _ _ _ _ _ us => some us
  | _ => Option.none


abbrev TRes := Except String TVal

/-- `ConverterWithMicroseconds.init`: `if not isinstance(precision, int) or not 0 <= precision <= 6: throw(ValueError)` -/
def precisionInit (p : Int) : Except String Nat := if 0 ≤ p ∧ p ≤ 6 then .ok p.toNat else .error "ValueError"

/-- `DateConverter.validate`; `str2date` is `pony.converting.str2date` (error = class name of what it raises).
    `if isinstance(val, datetime): return val.date()` comes FIRST — a datetime is also a date -/
def dateValidate (str2date : List Char → TRes) (v : TVal) : TRes :=
  match v with
  | .datetime y m d _ _ _ _ => .ok (.date y m d)
  | .date y m d => .ok (.date y m d)
  | .str s => str2date s
  | .none => .error "TypeError"
  | .time _ _ _ _ => .error "TypeError"
  | .other _ => .error "TypeError"

/-- microseconds after `round_microseconds_to_precision` (typed mirror in Model/Store.lean, bridged to the source in Props/C07) -/
def roundTimeT (p : Nat) (v : TVal) : TVal :=
  match v with
  | .time h mi s us => .time h mi s (PonyVerif.Model.Store.roundedUs us p)
  | .datetime y m d h mi s us => .datetime y m d h mi s (PonyVerif.Model.Store.roundedUs us p)
  | .none => .none
  | .date y m d => .date y m d
  | .str s => .str s
  | .other t => .other t

/-- `TimeConverter.validate`: a `time` is taken as it is, a str goes through `str2time`, everything else (date, datetime,
    timedelta, numbers) is a TypeError; then the microseconds are rounded to the declared precision -/
def timeValidateC (p : Nat) (str2time : List Char → TRes) (v : TVal) : TRes :=
  match v with
  | .time h mi s us => .ok (roundTimeT p (.time h mi s us))
  | .str s => (match str2time s with
    | .ok r => .ok (roundTimeT p r)
    | .error e => .error e)
  | .none => .error "TypeError"
  | .date _ _ _ => .error "TypeError"
  | .datetime _ _ _ _ _ _ _ => .error "TypeError"
  | .other _ => .error "TypeError"

/-- `DatetimeConverter.validate`: only a `datetime` (NOT a plain date) or a str -/
def datetimeValidateC (p : Nat) (str2datetime : List Char → TRes) (v : TVal) : TRes :=
  match v with
  | .datetime y m d h mi s us => .ok (roundTimeT p (.datetime y m d h mi s us))
  | .str s => (match str2datetime s with
    | .ok r => .ok (roundTimeT p r)
    | .error e => .error e)
  | .none => .error "TypeError"
  | .date _ _ _ => .error "TypeError"
  | .time _ _ _ _ => .error "TypeError"
  | .other _ => .error "TypeError"

/-! ### raw key values for relationship attributes (`Attribute.validate` → `EntityMeta._get_by_raw_pkval_`) -/

/-- a raw (non-entity) value given for a relationship attribute whose target key is reached through `levels` further entities
    whose primary key is itself a relationship: each `_get_by_raw_pkval_` hands the value and `from_db` on unchanged, the root
    key attribute validates it (`rootValidate` = that attribute's `validate(…, from_db=False)`) -/
def rawKeyValidate (rootValidate : Val → Res) : Nat → Val → Res
  | 0, v => rootValidate v
  | n + 1, v => rawKeyValidate rootValidate n v

/-- composite target key: the raw tuple is cut into the columns of the key attributes, each validated by its own root attribute
    (left to right, the first failure is raised); a tuple of the wrong length is a TypeError -/
def rawKeyValidateComposite : List (Val → Res) → List Val → Except String (List Val)
  | [], [] => .ok []
  | f :: fs, v :: vs =>
    (match f v with
     | .error e => .error e
     | .ok r => match rawKeyValidateComposite fs vs with
       | .error e => .error e
       | .ok rs => .ok (r :: rs))
  | [], _ :: _ => .error "TypeError"
  | _ :: _, [] => .error "TypeError"

end PonyVerif.Model.Validate
