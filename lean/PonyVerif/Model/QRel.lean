/-
  Engine Q, part 6 (C01): one level of relationship — a parent entity and the collection `p.es` of child entities referencing it.
  SQL side: the correlated sub-select Pony emits for `exists(e for e in p.es if cond)`, `not exists(…)`, `p.es` as a truth test,
  `count(e for e in p.es if cond)`:
      [NOT] EXISTS (SELECT 1 FROM E e WHERE p.id = e.<fk> AND <conditions of cond>)      (SELECT COUNT(DISTINCT e.id) FROM … WHERE …)
  with three-valued WHERE (a child whose reference is NULL never joins; a condition that is unknown does not select).
  Python side: `any(cond(e) for e in p.es)`, `len([e for e in p.es if cond(e)])` over the children whose reference IS the parent,
  with the reading `py` of Model/Translate.lean for `cond`.   Core Lean only.
-/
import PonyVerif.Model.Translate
import PonyVerif.Model.Subquery
namespace PonyVerif.Model.Q

/-- a row of the child table: the value of its reference column (NULL: no parent) and its own attributes -/
structure Child where
  fk : Option Int
  env : PEnv

/-- WHERE of the correlated sub-select for one child row: `p.id = e.fk AND conds` (three-valued; `none`: backend type error) -/
def subWhere (L : LikeFn) (d : Dialect) (pk : Int) (conds : SqlList) (c : Child) : Option K :=
  (evalCond L d (senv d c.env) (.and conds)).map (fun k => K.and (eqK (some pk) c.fk) k)

/-- the child rows the sub-select returns for the parent with key `pk` -/
def subRows (L : LikeFn) (d : Dialect) (pk : Int) (conds : SqlList) : List Child → Option (List Child)
  | [] => some []
  | c :: cs =>
    match subWhere L d pk conds c, subRows L d pk conds cs with
    | some k, some rest => some (if k == .tt then c :: rest else rest)
    | _, _ => none

/-- `EXISTS (…)`, `NOT EXISTS (…)`, `(SELECT COUNT(DISTINCT e.id) …)` (children have pairwise different ids) -/
def sqlExists (L : LikeFn) (d : Dialect) (pk : Int) (conds : SqlList) (children : List Child) : Option Bool :=
  (subRows L d pk conds children).map (fun rows => !rows.isEmpty)
def sqlNotExists (L : LikeFn) (d : Dialect) (pk : Int) (conds : SqlList) (children : List Child) : Option Bool :=
  (sqlExists L d pk conds children).map (!·)
def sqlCountWhere (L : LikeFn) (d : Dialect) (pk : Int) (conds : SqlList) (children : List Child) : Option Nat :=
  (subRows L d pk conds children).map List.length

/-- Python: the members of `p.es` -/
def members (pk : Int) (children : List Child) : List Child := children.filter (fun c => c.fk == some pk)
def pyExists (pk : Int) (children : List Child) (e : Expr) : Bool := (members pk children).any (fun c => pySelected c.env e)
def pyCountWhere (pk : Int) (children : List Child) (e : Expr) : Nat := ((members pk children).filter (fun c => pySelected c.env e)).length

/-- values of an attribute over the members (sub-select `SELECT e.attr FROM E e WHERE p.id = e.fk [AND e.attr IS NOT NULL]`) -/
def memberVals (pk : Int) (children : List Child) (attr : Child → Option Int) : List (Option Int) := (members pk children).map attr


/-! ### navigation through a to-one reference: `e.parent.k` in a condition adds `FROM E e, P p … WHERE e.fk = p.id` -/

/-- a child row together with the parent row its reference points to (`none`: the reference is missing) -/
structure JRow where
  child : PEnv
  parent : Option PEnv

def parentPrefix : List Char := "parent.".toList

/-- the joined row: attribute `parent.x` is the parent's `x`, everything else is the child's -/
def mergeEnv (c p : PEnv) : PEnv where
  col n := if parentPrefix.isPrefixOf n.toList then p.col (String.ofList (n.toList.drop parentPrefix.length)) else c.col n
  par := c.par

/-- a parent none of whose attributes is present (what Python sees through a missing reference) -/
def missingParent : PEnv where
  col _ := none
  par _ := .int 0

/-- the row as Python reads it -/
def pyRow (r : JRow) : PEnv := mergeEnv r.child (r.parent.getD missingParent)

/-- SQL: the inner join keeps a row iff the referenced parent row exists and the WHERE conditions are true on the joined row -/
def sqlJoin (L : LikeFn) (d : Dialect) (conds : SqlList) : List JRow → Option (List JRow)
  | [] => some []
  | r :: rs =>
    match r.parent with
    | none => sqlJoin L d conds rs
    | some p =>
      match evalCond L d (senv d (mergeEnv r.child p)) (.and conds), sqlJoin L d conds rs with
      | some k, some rest => some (if k == .tt then r :: rest else rest)
      | _, _ => none


/-! ### many-to-many collection: `exists(c for c in s.cs if cond)` through a link table
    `[NOT] EXISTS (SELECT 1 FROM link t, C c WHERE t.c = c.id AND s.id = t.s AND conds)` -/

/-- a row of the link table (both references present) -/
structure Link where
  parent : Int
  child : Int

/-- a row of the child table with its primary key -/
structure MChild where
  id : Int
  env : PEnv

/-- the rows of `FROM link t, C c` joined on `t.c = c.id`, each seen as a child row whose reference is the link's parent column -/
def joinedM (links : List Link) (children : List MChild) : List Child :=
  links.flatMap (fun l => (children.filter (fun c => c.id == l.child)).map (fun c => (⟨some l.parent, c.env⟩ : Child)))

def sqlExistsM (L : LikeFn) (d : Dialect) (pk : Int) (conds : SqlList) (links : List Link) (children : List MChild) : Option Bool :=
  sqlExists L d pk conds (joinedM links children)
def sqlNotExistsM (L : LikeFn) (d : Dialect) (pk : Int) (conds : SqlList) (links : List Link) (children : List MChild) : Option Bool :=
  sqlNotExists L d pk conds (joinedM links children)

/-- Python: the members of `s.cs` are the children linked to the parent -/
def membersM (pk : Int) (links : List Link) (children : List MChild) : List MChild :=
  children.filter (fun c => links.any (fun l => l.parent == pk && l.child == c.id))
def pyExistsM (pk : Int) (links : List Link) (children : List MChild) (e : Expr) : Bool :=
  (membersM pk links children).any (fun c => pySelected c.env e)

end PonyVerif.Model.Q
