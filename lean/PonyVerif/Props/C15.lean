import PonyVerif.Model.Cascade
namespace PonyVerif.Props.C15
open PonyVerif.Model.Cascade

theorem C15_placeholder : (Store.empty).n = 0 := rfl

end PonyVerif.Props.C15
