/-
  Props/C15.lean — C15: deletion honours cascade rules and leaves no dangling references.
  Statements about `Model/Cascade.lean` for ALL schemas, object graphs, recursion depths, and for both variants of `_delete_`
  (with / without the re-entrancy guard, `guard`).  Proof machinery: Lemmas/Cascade*.lean.
-/
import PonyVerif.Lemmas.CascadeDel
import PonyVerif.Lemmas.CascadeFuel
import PonyVerif.Lemmas.CascadeUndo
import PonyVerif.Lemmas.CascadeRel
import PonyVerif.Props.C12
namespace PonyVerif.Props.C15
open PonyVerif.Model.Cascade

/-! ## Session invariant -/

/-- both ends of every relationship agree for live objects -/
def Agree (sch : Schema) (s : Store) : Prop :=
  ∀ p b q, s.alive p = true → hasB sch s p b q = true → hasB sch s q (sch.rev b) p = true

/-- no live object references a deleted one (reference or collection membership) -/
def NoDangling (sch : Schema) (s : Store) : Prop :=
  ∀ p b q, s.alive p = true → hasB sch s p b q = true → s.alive q = true

structure SInv (sch : Schema) (ct : ClassTable) (s : Store) : Prop where
  range : Range sch ct s
  agree : Agree sch s
  nodang : NoDangling sch s

theorem agreeX_nil {sch : Schema} {s : Store} : AgreeX sch (fun x => x ∈ ([] : List ObjId)) s ↔ Agree sch s := by
  constructor
  · intro h p b q hp hh
    rcases h p b q hp hh with hm | ⟨hf, _⟩
    · exact hm
    · cases hf
  · intro h p b q hp hh; exact Or.inl (h p b q hp hh)

theorem noDangX_nil {sch : Schema} {s : Store} : NoDangX sch (fun x => x ∈ ([] : List ObjId)) s ↔ NoDangling sch s := by
  constructor
  · intro h p b q hp hh; exact h p b q hp (by simp) hh
  · intro h p b q hp _ hh; exact h p b q hp hh

/-- what a successful top-level `_delete_` guarantees (unpacked `Post` for the empty in-progress set) -/
theorem post_of_delete {sch : Schema} {ct : ClassTable} (hwf : CascWF sch) (guard : Bool) (fuel : Nat) {s s' : Store} {a : ObjId}
    (hI : SInv sch ct s) (h : delete sch ct guard fuel [] a s = .ok s') : Post sch (fun x => x ∈ ([] : List ObjId)) a s s' :=
  delete_spec hwf guard fuel [] a s s' h hI.range (agreeX_nil.mpr hI.agree) (noDangX_nil.mpr hI.nodang)

theorem sinv_of_post {sch : Schema} {ct : ClassTable} {s s' : Store} {a : ObjId} (hI : SInv sch ct s)
    (hP : Post sch (fun x => x ∈ ([] : List ObjId)) a s s') : SInv sch ct s' :=
  ⟨hP.trans.sub.range hI.range, agreeX_nil.mp hP.agree, noDangX_nil.mp hP.nodang⟩

theorem reach_alive {sch : Schema} {s : Store} (hN : NoDangling sch s) {a x : ObjId} (ha : s.alive a = true)
    (h : Reach sch s a x) : s.alive x = true := by
  induction h with
  | refl => exact ha
  | step _ he ih =>
    obtain ⟨b, _, hh⟩ := he
    exact hN _ b _ ih hh

/-! ## C15_cascade -/

/-- After `delete a` succeeds: exactly the cascade closure of `a` (objects reachable over attributes with cascade_delete) is
    newly deleted; the session invariant holds again — in particular no live object references a deleted one, i.e. every
    optional reference / collection membership pointing to a deleted object is cleared; nothing is added; and a link between
    two surviving objects is never touched. -/
theorem C15_cascade (sch : Schema) (ct : ClassTable) (hwf : CascWF sch) (guard : Bool) (fuel : Nat) (s s' : Store) (a : ObjId)
    (hI : SInv sch ct s) (hal : s.alive a = true) (h : delete sch ct guard fuel [] a s = .ok s') :
    (∀ x, s'.alive x = false ↔ (s.alive x = false ∨ Reach sch s a x)) ∧
    SInv sch ct s' ∧
    (∀ p b q, hasB sch s' p b q = true → hasB sch s p b q = true) ∧
    (∀ p b q, hasB sch s p b q = true → s'.alive p = true → s'.alive q = true → hasB sch s' p b q = true) := by
  have hP := post_of_delete hwf guard fuel hI h
  refine ⟨?_, sinv_of_post hI hP, hP.trans.sub.has, ?_⟩
  · intro x
    constructor
    · intro hx
      cases hs : s.alive x with
      | false => exact Or.inl rfl
      | true => exact Or.inr (hP.newdead x hs hx)
    · rintro (hx | hx)
      · exact hP.trans.sub.dead hx
      · induction hx with
        | refl =>
          rcases hP.dead with hd | hf
          · exact hd
          · cases hf
        | step hr he ih =>
          rcases hP.trans.closed _ _ (reach_alive hI.nodang hal hr) ih he with hd | hf
          · exact hd
          · cases hf
  · intro p b q hs hp hq
    cases hs' : hasB sch s' p b q with
    | true => rfl
    | false =>
      rcases hP.trans.rem p b q hs hs' with (hd | hf) | ⟨_, hd | hf⟩
      · rw [hq] at hd; cases hd
      · cases hf
      · rw [hp] at hd; cases hd
      · cases hf

example : ∃ (sch : Schema) (ct : ClassTable) (s : Store), CascWF sch ∧ SInv sch ct s ∧ s.alive 0 = true ∧
    ∃ s', delete sch ct false 5 [] 0 s = .ok s' ∧ s'.alive 0 = false := by
  refine ⟨[], (fun _ => []), ⟨1, fun _ => 0, fun o => decide (o = 0), fun _ _ => none, fun _ _ _ => false⟩, ?_, ?_, rfl, _, rfl, rfl⟩
  · intro a d rd h; simp [Schema.side] at h
  · refine ⟨⟨?_, ?_⟩, ?_, ?_⟩ <;> intro p b q <;> simp [hasB, Schema.side]

/-! ## C15_refuse -/

/-- If an object `q` OUTSIDE the cascade closure of `a` holds an object `p` of the closure under a Required reference, then
    `delete a` does not succeed (for any recursion depth); the top-level call then returns the store unchanged. -/
theorem C15_refuse (sch : Schema) (ct : ClassTable) (hwf : CascWF sch) (guard : Bool) (fuel : Nat) (s : Store) (a p q : ObjId) (c : Attr) (d : Side)
    (hI : SInv sch ct s) (hal : s.alive a = true)
    (hp : Reach sch s a p) (hq : ¬ Reach sch s a q) (hqa : s.alive q = true)
    (hc : sch.side c = some d) (hreq : d.required = true) (hdc : d.isColl = false) (hh : hasB sch s q c p = true) :
    ∃ e, delete sch ct guard fuel [] a s = .error e := by
  cases hr : delete sch ct guard fuel [] a s with
  | error e => exact ⟨e, rfl⟩
  | ok s' =>
    exfalso
    obtain ⟨hcl, hI', _, _⟩ := C15_cascade sch ct hwf guard fuel s s' a hI hal hr
    have hP := post_of_delete hwf guard fuel hI hr
    have hpd : s'.alive p = false := (hcl p).mpr (Or.inr hp)
    have hqa' : s'.alive q = true := by
      cases hx : s'.alive q with
      | true => rfl
      | false =>
        rcases (hcl q).mp hx with h1 | h1
        · rw [hqa] at h1; cases h1
        · exact absurd h1 hq
    have hkeep := hP.trans.keepreq q c p d hc hreq hdc hh
    have := hI'.nodang q c p hqa' hkeep
    rw [hpd] at this; cases this

/-- a refused (failing) top-level delete changes nothing (the undo list restores the session: tied differentially) -/
theorem C15_refuse_no_change (sch : Schema) (ct : ClassTable) (guard : Bool) (s : Store) (a : ObjId) :
    (deleteTop sch ct guard s a).2 ≠ none → (deleteTop sch ct guard s a).1 = s := by
  unfold deleteTop
  split
  · split
    · intro hne; exact absurd rfl hne
    · intro _; rfl
  · intro _; rfl

/-- The undo list of `_delete_` is exact.  `deleteTopT` is the top-level delete as the code does it: every mutation pushes its
    inverse (`Attribute.__set__`, `reverse_remove`, the collection rewrite of `Set.__set__`, the status change), and a failure at
    any depth replays the list newest first on the store as it is at that point.  It returns exactly what `deleteTop` returns:
    the same store and outcome on success, and on failure the store the call started from — for every schema, class table,
    store, object and both variants of `_delete_`. -/
theorem C15_undo_exact (sch : Schema) (ct : ClassTable) (guard : Bool) (s : Store) (a : ObjId) :
    deleteTopT sch ct guard s a = deleteTop sch ct guard s a := by
  unfold deleteTopT deleteTop
  split
  · have he := deleteT_erase sch ct guard (fuelOf sch s) [] a ⟨s, []⟩
    have hu := deleteT_undo sch ct guard (fuelOf sch s) [] a ⟨s, []⟩
    cases hr : deleteT sch ct guard (fuelOf sch s) [] a ⟨s, []⟩ with
    | ok t =>
      rw [hr] at he
      simp only [RT.erase] at he
      rw [← he]
    | error et =>
      obtain ⟨e, t⟩ := et
      rw [hr] at he hu
      simp only [RT.erase] at he
      rw [← he]
      obtain ⟨tr, htr, hund⟩ := hu
      simp only [List.append_nil] at htr
      simp only
      rw [htr, hund]
  · rfl

/-- the failing case is not vacuous: a refused delete that has already unlinked and cascade-deleted something before it fails -/
example : ∃ (sch : Schema) (ct : ClassTable) (s : Store) (t : T) (e : Err),
    deleteT sch ct false 9 [] 0 ⟨s, []⟩ = .error (e, t) ∧ t.trail.length = 2 ∧ (t.store.alive 1 = false) := by
  -- entity 0: kids (cascade, declared first) and docs (no cascade, Required reverse); object 1 a kid, object 2 a doc
  refine ⟨[⟨⟨0, true, false, true, false⟩, ⟨1, false, false, false, true⟩, false⟩,
           ⟨⟨0, true, false, false, false⟩, ⟨2, false, true, false, true⟩, false⟩],
          (fun e => if e = 0 then [⟨0, false⟩, ⟨1, false⟩] else if e = 1 then [⟨0, true⟩] else [⟨1, true⟩]),
          ⟨3, id, fun o => decide (o < 3),
           fun o a => if o = 1 ∧ a = ⟨0, true⟩ then some 0 else if o = 2 ∧ a = ⟨1, true⟩ then some 0 else none,
           fun o a x => decide ((o = 0 ∧ a = ⟨0, false⟩ ∧ x = 1) ∨ (o = 0 ∧ a = ⟨1, false⟩ ∧ x = 2))⟩, ?_⟩
  exact ⟨_, _, rfl, rfl, rfl⟩

/-- a successful `_delete_` only removes — for EVERY store (no invariant): no object comes alive, no link is added -/
theorem C15_only_removes (sch : Schema) (ct : ClassTable) (guard : Bool) (fuel : Nat) (P : List ObjId) (a : ObjId) (s s' : Store)
    (h : delete sch ct guard fuel P a s = .ok s') :
    (∀ p, s'.alive p = true → s.alive p = true) ∧ (∀ p b q, hasB sch s' p b q = true → hasB sch s p b q = true) :=
  ⟨(delete_sub fuel P a s s' h).alive, (delete_sub fuel P a s s' h).has⟩

/-- Termination / fuel bound.  If the cascading attributes are ranked — some measure strictly decreases along every cascade edge,
    which is possible exactly when the cascade graph has no cycle — then fuel above the rank of the object suffices: the model's
    RecursionError does not fire (every store, both variants).  With ranks bounded by the number of objects (any acyclic graph on
    `n` nodes has such a ranking) the fuel `deleteTop` passes is enough, so a model RecursionError always means a cascade cycle. -/
theorem C15_terminates (sch : Schema) (ct : ClassTable) (guard : Bool) (s : Store) (a : ObjId) (rank : ObjId → Nat)
    (hr : Ranked sch s rank) (hb : ∀ x, rank x ≤ s.n) :
    (∀ fuel P, rank a < fuel → delete sch ct guard fuel P a s ≠ .error .recursionError) ∧
    (deleteTop sch ct guard s a).2 ≠ some .recursionError := by
  refine ⟨fun fuel P hf => delete_norec fuel P a s hr hf, ?_⟩
  unfold deleteTop
  split
  · have hfuel : rank a < fuelOf sch s := by
      have h1 := hb a
      have h2 : s.n + 1 ≤ (2 * sch.length + 2) * (s.n + 1) := Nat.le_mul_of_pos_left _ (by omega)
      unfold fuelOf; omega
    have := delete_norec (ct := ct) (guard := guard) (fuelOf sch s) [] a s hr hfuel
    cases hd : delete sch ct guard (fuelOf sch s) [] a s with
    | ok s' => simp
    | error e =>
      simp only
      intro hc
      have he : e = .recursionError := by simpa using hc
      rw [hd, he] at this
      exact this rfl
  · simp

/-! ## C15_no_dangling -/

/-- FK invariant of the committed rows: every FK value and every link-table row points to existing rows -/
structure InvFk (sch : Schema) (db : Db) : Prop where
  rowlt : ∀ o, db.row o = true → o < db.n
  col : ∀ o a x, db.col o a = some x → db.row o = true ∧ db.row x = true ∧ a ∈ sch.allAttrs
  link : ∀ c p q, db.link c p q = true → db.row p = true ∧ db.row q = true

theorem holdsCol_side {sch : Schema} {a : Attr} (h : holdsCol sch a = true) : ∃ d, sch.side a = some d ∧ d.isColl = false := by
  unfold holdsCol at h
  cases hs : sch.side a with
  | none => simp [hs] at h
  | some d => exact ⟨d, rfl, by simp [hs] at h; exact h.1⟩

/-- committing a consistent session leaves no dangling reference -/
theorem commit_fk {sch : Schema} {ct : ClassTable} {s : Store} (hI : SInv sch ct s) : InvFk sch (commit sch s) := by
  refine ⟨?_, ?_, ?_⟩
  · intro o ho; simp [commit] at ho; exact ho.1
  · intro o a x hx
    simp only [commit] at hx
    split at hx
    · rename_i hcond
      obtain ⟨hlt, hal, hcol⟩ := hcond
      obtain ⟨d, hd, hdc⟩ := holdsCol_side hcol
      have hh : hasB sch s o a x = true := by rw [hasB_ref_eq hd hdc, hx]; simp
      refine ⟨by simp [commit, hlt, hal], ?_, Schema.mem_allAttrs hd⟩
      have := hI.nodang o a x hal hh
      have hxl := hI.range.lt o a x hh
      simp [commit, this, hxl]
    · cases hx
  · intro c p q hl
    simp only [commit, Bool.and_eq_true, decide_eq_true_eq] at hl
    obtain ⟨⟨⟨hlt, hal⟩, hla⟩, hm⟩ := hl
    have hd : ∃ d, sch.side c = some d ∧ d.isColl = true := by
      unfold isLinkAttr at hla
      cases hs : sch.side c with
      | none => simp [hs] at hla
      | some d =>
        cases hs2 : sch.side (sch.rev c) with
        | none => simp [hs, hs2] at hla
        | some rd => simp [hs, hs2] at hla; exact ⟨d, rfl, hla.1.1⟩
    obtain ⟨d, hd, hdc⟩ := hd
    have hh : hasB sch s p c q = true := by rw [hasB_coll_eq hd hdc]; exact hm
    have := hI.nodang p c q hal hh
    have hql := hI.range.lt p c q hh
    simp [commit, hlt, hal, this, hql]

/-- one top-level `obj.delete()` keeps the session invariant, whatever its outcome -/
theorem deleteTop_inv (sch : Schema) (ct : ClassTable) (hwf : CascWF sch) (guard : Bool) (s : Store) (a : ObjId) (hI : SInv sch ct s) :
    SInv sch ct (deleteTop sch ct guard s a).1 := by
  unfold deleteTop
  split
  · split
    · rename_i s' hr
      exact sinv_of_post hI (post_of_delete hwf guard _ hI hr)
    · exact hI
  · exact hI

/-- session calls: `obj.delete()`, or any other call that keeps the session invariant (the C12 space; not re-proved here) -/
inductive SOp
  | delete (o : ObjId)
  | other (f : Store → Store)

def SOp.Good (sch : Schema) (ct : ClassTable) : SOp → Prop
  | .delete _ => True
  | .other f => ∀ s, SInv sch ct s → SInv sch ct (f s)

def runOps (sch : Schema) (ct : ClassTable) (guard : Bool) : List SOp → Store → Store
  | [], s => s
  | .delete o :: ops, s => runOps sch ct guard ops (deleteTop sch ct guard s o).1
  | .other f :: ops, s => runOps sch ct guard ops (f s)

theorem runOps_inv (sch : Schema) (ct : ClassTable) (hwf : CascWF sch) (guard : Bool) : ∀ (ops : List SOp) (s : Store),
    (∀ op ∈ ops, op.Good sch ct) → SInv sch ct s → SInv sch ct (runOps sch ct guard ops s) := by
  intro ops
  induction ops with
  | nil => intro s _ hI; exact hI
  | cons op ops ih =>
    intro s hg hI
    cases op with
    | delete o => exact ih _ (fun x hx => hg x (by simp [hx])) (deleteTop_inv sch ct hwf guard s o hI)
    | other f => exact ih _ (fun x hx => hg x (by simp [hx])) (hg (.other f) (by simp) s hI)

/-- a bulk `DELETE` under the generated ON DELETE clauses keeps the FK invariant (when the database accepts it) -/
theorem C15_bulk_no_dangling (sch : Schema) (db db' : Db) (rows : List ObjId) (hI : InvFk sch db)
    (h : dbDelete sch db rows = some db') : InvFk sch db' := by
  unfold dbDelete at h
  simp only at h
  split at h
  · cases h
  · rename_i hbad
    cases h
    generalize hD : cascadeClosure sch db db.n (List.filter (fun o => db.row o && rows.contains o) (List.range db.n)) = D at hbad
    refine ⟨?_, ?_, ?_⟩
    · intro o ho
      simp only [Bool.and_eq_true] at ho
      exact hI.rowlt o ho.1
    · intro o a x hx
      simp only at hx
      split at hx
      · cases hx
      · rename_i hDo
        cases hc : db.col o a with
        | none => simp [hc] at hx
        | some p =>
          simp only [hc] at hx
          split at hx
          · cases hx
          · rename_i hnn
            have hxp : p = x := by simpa using hx
            subst hxp
            obtain ⟨hro, hrp, ha⟩ := hI.col o a p hc
            have hDo' : D.contains o = false := by simpa using hDo
            -- the statement was accepted: no surviving row points to a deleted one
            have hDp : D.contains p = false := by
              cases hDp : D.contains p with
              | false => rfl
              | true =>
                exfalso
                apply hbad
                rw [List.any_eq_true]
                refine ⟨o, List.mem_range.mpr (hI.rowlt o hro), ?_⟩
                simp only [hro, hDo', Bool.not_false, Bool.and_self, Bool.true_and, List.any_eq_true]
                refine ⟨a, ha, ?_⟩
                simp only [hc]
                simp only [hDp, Bool.true_and] at hnn
                have hmem : p ∈ D := by simpa using hDp
                simp [hnn, hmem]
            exact ⟨by simp only [hro, hDo']; rfl, by simp only [hrp, hDp]; rfl, ha⟩
    · intro c p q hl
      simp only [Bool.and_eq_true, Bool.not_eq_true'] at hl
      obtain ⟨⟨h1, h2⟩, h3⟩ := hl
      obtain ⟨hp, hq⟩ := hI.link c p q h1
      exact ⟨by simp only [hp, h2]; rfl, by simp only [hq, h3]; rfl⟩

/-- the database after any history: sessions (load a consistent image, any sequence of deletes and invariant-keeping calls,
    commit) and accepted bulk deletes (a refused bulk delete changes nothing) -/
inductive DbReach (sch : Schema) (ct : ClassTable) (guard : Bool) : Db → Db → Prop
  | refl (db : Db) : DbReach sch ct guard db db
  | session {db0 db : Db} (s : Store) (ops : List SOp) : DbReach sch ct guard db0 db → commit sch s = db → SInv sch ct s →
      (∀ op ∈ ops, op.Good sch ct) → DbReach sch ct guard db0 (commit sch (runOps sch ct guard ops s))
  | bulk {db0 db db' : Db} (rows : List ObjId) : DbReach sch ct guard db0 db → dbDelete sch db rows = some db' → DbReach sch ct guard db0 db'

/-- For a database satisfying the FK invariant, after any history of committed sessions (object deletes in any order, other
    invariant-keeping calls) and bulk deletes the FK invariant holds again: no row references a missing row, no link-table
    row references a missing row. -/
theorem C15_no_dangling (sch : Schema) (ct : ClassTable) (hwf : CascWF sch) (guard : Bool) (db0 db : Db) (h0 : InvFk sch db0)
    (h : DbReach sch ct guard db0 db) : InvFk sch db := by
  induction h with
  | refl => exact h0
  | session s ops _ _ hI hg _ => exact commit_fk (runOps_inv sch ct hwf guard ops s hg hI)
  | bulk rows _ hb ih => exact C15_bulk_no_dangling sch _ _ rows ih hb

/-! ## The other session calls: bridge to the session model of C12 -/

section bridge
open PonyVerif.Model PonyVerif.Model.Cascade.Bridge

/-- a store of the C12 session model that satisfies C12's invariants (both ends agree, links typed, no live object holds a
    deleted one) is, read as a store of the deletion model, a consistent session in the sense of this file -/
theorem sinv_of_rel (sch : Rel.Schema) (s : Rel.Store) (hI : Rel.Inv sch s) (hT : Rel.Typed sch s) (hL : Rel.LiveAll sch s) :
    SInv (ofSchema sch) (ofSchema sch).classTable (ofStore s) := by
  have hlt : ∀ p b q, p < s.n → Rel.hasB sch s p b q = true → q < s.n := by
    intro p b q hp hh
    unfold Rel.hasB at hh
    cases hb : Rel.Schema.side sch b with
    | none => simp [hb] at hh
    | some d =>
      simp only [hb] at hh
      by_cases hc : d.isColl = true
      · simp only [hc, if_true] at hh; exact hI.range.2 p b q hp hh
      · simp only [hc] at hh
        exact hI.range.1 p b q hp (by simpa using hh)
  refine ⟨⟨?_, ?_⟩, ?_, ?_⟩
  · intro p b q hh
    rw [hasB_of] at hh
    simp only [Bool.and_eq_true, decide_eq_true_eq] at hh
    exact hlt p _ q hh.1 hh.2
  · intro p b q hh
    rw [hasB_of] at hh
    simp only [Bool.and_eq_true, decide_eq_true_eq] at hh
    exact mem_attrsOf_of sch b _ (hT p (toAttr b) q hh.1 hh.2)
  · intro p b q hp hh
    rw [hasB_of] at hh ⊢
    simp only [ofStore, Bool.and_eq_true, decide_eq_true_eq] at hp hh ⊢
    have hm := hI.agree p (toAttr b) q hh.1 hp.2 hh.2
    exact ⟨hlt p _ q hh.1 hh.2, by rw [rev_of]; exact hm⟩
  · intro p b q hp hh
    rw [hasB_of] at hh
    simp only [ofStore, Bool.and_eq_true, decide_eq_true_eq] at hp hh ⊢
    exact ⟨hlt p _ q hh.1 hh.2, hL p (toAttr b) q hh.1 hp.2 hh.2⟩

/-- The other session calls, without an invariant hypothesis: after ANY history of calls of the C12 session model from the empty
    session — constructor calls, assignment of references and collections, add, remove, clear, delete with cascade, successful
    or failing — all of whose calls satisfy C12's guard (a removal, or a call whose operands are alive afterwards), the session
    read as a store of this model is consistent, so a commit leaves no dangling reference (every reference attribute taken as a
    foreign-key column) and every delete theorem of this file applies to it. -/
theorem C15_no_dangling_c12 (sch : Rel.Schema) (ops : List Rel.Op) (h : PonyVerif.Props.C12.AllOK sch Rel.Store.empty ops) :
    SInv (ofSchema sch) (ofSchema sch).classTable (ofStore (Rel.run sch Rel.Store.empty ops)) ∧
    InvFk (ofSchema sch) (commit (ofSchema sch) (ofStore (Rel.run sch Rel.Store.empty ops))) := by
  have hS := sinv_of_rel sch _ (PonyVerif.Props.C12.C12_reachable sch ops) (PonyVerif.Props.C12.C12_typed_reachable sch ops)
    (PonyVerif.Props.C12.C12_no_dangling_reachable_all sch ops h)
  exact ⟨hS, commit_fk hS⟩

/-- hypotheses met by a history with constructor calls, links on all kinds of relationship, a remove and a cascade delete; after it
    the delete of the remaining object goes through in the deletion model as well -/
example : PonyVerif.Props.C12.AllOK PonyVerif.Props.C12.exSchema Rel.Store.empty
      (PonyVerif.Props.C12.exOps ++ [.remove 0 ⟨1, false⟩ [2], .delete 0]) ∧
    (ofStore (Rel.run PonyVerif.Props.C12.exSchema Rel.Store.empty PonyVerif.Props.C12.exOps)).alive 1 = true ∧
    hasB (ofSchema PonyVerif.Props.C12.exSchema) (ofStore (Rel.run PonyVerif.Props.C12.exSchema Rel.Store.empty PonyVerif.Props.C12.exOps)) 0 ⟨0, false⟩ 1 = true := by
  refine ⟨by decide, by decide, ?_⟩
  rw [hasB_of]; decide

end bridge

/-! ## C15_on_delete_matches — `generate_mapping`'s ON DELETE clause vs the in-memory rule, every relationship kind -/

/-- what `Attribute.linked` accepts satisfies `CascWF` (a Required attribute is never a collection) -/
theorem linked_cascWF (d rd : Decl) (hreq : rd.required = true → rd.isColl = false) (hok : linkedCheck d rd = true)
    (hc : effCascade d rd = true) : rd.isColl = false := by
  unfold linkedCheck at hok
  unfold effCascade at hc hok
  cases hd : d.optCascade with
  | none =>
    simp [hd] at hc
    exact hreq hc.2
  | some b =>
    simp [hd] at hc
    subst hc
    simp [hd] at hok
    cases hrc : rd.isColl with
    | false => rfl
    | true => simp [hrc] at hok

/-- the two-object graph: object 0 (entity 0) holds object 1 (entity 1) under attribute `aC`, object 1 holds 0 under `aP` -/
def aC : Attr := ⟨0, false⟩
def aP : Attr := ⟨0, true⟩

def sch2 (dC dP : Side) : Schema := [⟨dC, dP, false⟩]

def store2 (collC collP : Bool) : Store where
  n := 2
  ent := fun o => o
  alive := fun o => decide (o < 2)
  ref := fun o a => if o = 0 ∧ a = aC ∧ collC = false then some 1 else if o = 1 ∧ a = aP ∧ collP = false then some 0 else none
  mem := fun o a x => (decide (o = 0 ∧ a = aC ∧ x = 1) && collC) || (decide (o = 1 ∧ a = aP ∧ x = 0) && collP)

/-- the cells of the two-object graph -/
theorem hasB_store2 (dC dP : Side) (collC collP : Bool) (hC : dC.isColl = collC) (hP : dP.isColl = collP) (p : ObjId) (b : Attr) (q : ObjId) :
    hasB (sch2 dC dP) (store2 collC collP) p b q = true ↔ (p = 0 ∧ b = aC ∧ q = 1) ∨ (p = 1 ∧ b = aP ∧ q = 0) := by
  rcases b with ⟨rel, sd⟩
  cases rel with
  | succ k => simp [hasB, Schema.side, sch2, aC, aP]
  | zero =>
    cases sd <;> cases collC <;> cases collP <;> simp [hasB, Schema.side, sch2, store2, aC, aP, hC, hP] <;>
      intro _ <;> exact ⟨fun h => h.symm, fun h => h.symm⟩

/-- the two-object graph satisfies the session invariant (the hypotheses of the theorems above are satisfiable, non-trivially) -/
theorem sinv_store2 (dC dP : Side) (collC collP : Bool) (hC : dC.isColl = collC) (hP : dP.isColl = collP)
    (heC : dC.ent = 0) (heP : dP.ent = 1) : SInv (sch2 dC dP) (sch2 dC dP).classTable (store2 collC collP) := by
  have H := hasB_store2 dC dP collC collP hC hP
  refine ⟨⟨?_, ?_⟩, ?_, ?_⟩
  · intro p b q h
    rcases (H p b q).mp h with ⟨_, _, rfl⟩ | ⟨_, _, rfl⟩ <;> simp [store2]
  · intro p b q h
    rcases (H p b q).mp h with ⟨rfl, rfl, rfl⟩ | ⟨rfl, rfl, rfl⟩
    · have : (sch2 dC dP).side aC = some dC := by simp [Schema.side, sch2, aC]
      have hm := Schema.mem_attrsOf this
      rw [heC] at hm; exact hm
    · have : (sch2 dC dP).side aP = some dP := by simp [Schema.side, sch2, aP]
      have hm := Schema.mem_attrsOf this
      rw [heP] at hm; exact hm
  · intro p b q _ h
    rcases (H p b q).mp h with ⟨rfl, rfl, rfl⟩ | ⟨rfl, rfl, rfl⟩
    · exact (H 1 _ 0).mpr (Or.inr ⟨rfl, by simp [Schema.rev, sch2, aC, aP], rfl⟩)
    · exact (H 0 _ 1).mpr (Or.inl ⟨rfl, by simp [Schema.rev, sch2, aC, aP], rfl⟩)
  · intro p b q _ h
    rcases (H p b q).mp h with ⟨_, _, rfl⟩ | ⟨_, _, rfl⟩ <;> simp [store2]

/-- hypotheses of `C15_cascade` met non-trivially: a parent with a cascading collection and its Required child — both die -/
example : let sch := sch2 ⟨0, false, true, false, true⟩ ⟨1, true, false, true, false⟩
    CascWF sch ∧ SInv sch sch.classTable (store2 false true) ∧ (store2 false true).alive 1 = true ∧
    ∃ s', delete sch sch.classTable false 6 [] 1 (store2 false true) = .ok s' ∧ s'.alive 0 = false ∧ s'.alive 1 = false := by
  refine ⟨?_, sinv_store2 _ _ false true rfl rfl rfl rfl, rfl, _, rfl, rfl, rfl⟩
  intro a d rd ha hra hc
  rcases a with ⟨rel, sd⟩
  cases rel with
  | succ k => simp [Schema.side, sch2] at ha
  | zero =>
    cases sd
    · simp [Schema.side, sch2] at ha; subst ha; cases hc
    · simp [Schema.side, Schema.rev, sch2] at ha hra; subst hra; rfl

/-- hypotheses of `C15_refuse` met: the Required child (object 0) of a parent WITHOUT cascade is outside the closure of the parent -/
example : let sch := sch2 ⟨0, false, true, false, true⟩ ⟨1, true, false, false, false⟩
    SInv sch sch.classTable (store2 false true) ∧ Reach sch (store2 false true) 1 1 ∧ ¬ Reach sch (store2 false true) 1 0 ∧
    hasB sch (store2 false true) 0 aC 1 = true ∧ delete sch sch.classTable false 6 [] 1 (store2 false true) = .error .constraintError := by
  refine ⟨sinv_store2 _ _ false true rfl rfl rfl rfl, .refl _, ?_, rfl, rfl⟩
  intro h
  -- no attribute cascades, so nothing but the object itself is reachable
  have : ∀ x, Reach (sch2 ⟨0, false, true, false, true⟩ ⟨1, true, false, false, false⟩) (store2 false true) 1 x → x = 1 := by
    intro x hx
    induction hx with
    | refl => rfl
    | step _ he _ =>
      obtain ⟨b, hb, _⟩ := he
      rcases b with ⟨rel, sd⟩
      cases rel with
      | succ k => simp [Schema.isCascade, Schema.side, sch2] at hb
      | zero => cases sd <;> simp [Schema.isCascade, Schema.side, sch2] at hb
  exact absurd (this 0 h) (by decide)

/-- observable outcome: `none` = refused; else (row 0 exists, row 1 exists, FK value of row 0 under `aC`, link row (0,1) exists) -/
def obsDb (db : Option Db) : Option (Bool × Bool × Option ObjId × Bool) :=
  db.map fun db => (db.row 0, db.row 1, db.col 0 aC, db.link aC 0 1)

/-- `obj.delete()` + commit -/
def viaSession (sch : Schema) (guard : Bool) (s : Store) (o : ObjId) : Option Db :=
  match deleteTop sch sch.classTable guard s o with
  | (s', none) => some (commit sch s')
  | (_, some _) => none

/-- bulk `DELETE` of the row on the committed image -/
def viaBulk (sch : Schema) (s : Store) (o : ObjId) : Option Db := dbDelete sch (commit sch s) [o]

/-- child side of a reference relationship: entity 0, holds the column -/
def childSide (req casc : Bool) : Side := ⟨0, false, req, casc, true⟩
/-- parent side: entity 1, a collection (one-to-many) or a virtual one-to-one attribute -/
def parentSide (coll casc : Bool) : Side := ⟨1, coll, false, casc, false⟩

/-- Deleting the REFERENCED row/object (object 1), for every kind (one-to-many / one-to-one), Required/Optional child
    attribute, cascade_delete on the referenced side or not, both variants of `_delete_`:
    the bulk delete (which relies on the ON DELETE clause `onDelete` that `generate_mapping` emits) and the object delete
    followed by commit leave the same rows, and the outcome is the one the clause names:
    CASCADE -> both rows gone;  SET NULL -> child row stays with NULL;  none -> both are REFUSED. -/
theorem C15_on_delete_matches (req collP cascP guard : Bool) :
    let sch := sch2 (childSide req false) (parentSide collP cascP)
    let s := store2 false collP
    obsDb (viaBulk sch s 1) = obsDb (viaSession sch guard s 1) ∧
    obsDb (viaBulk sch s 1) =
      (match onDelete (childSide req false) (parentSide collP cascP) with
       | .cascade => some (false, false, none, false)
       | .setNull => some (true, false, none, false)
       | .noAction => none) := by
  cases req <;> cases collP <;> cases cascP <;> cases guard <;> exact ⟨rfl, rfl⟩

/-- which combinations make a bulk delete of the referenced row fail loudly / cascade / set NULL -/
theorem C15_on_delete_table (req collP cascP : Bool) :
    onDelete (childSide req false) (parentSide collP cascP) =
      (if cascP then .cascade else if req then .noAction else .setNull) := by
  cases req <;> cases collP <;> cases cascP <;> rfl

/-- Deleting the REFERENCING row/object (object 0, the column holder) never needs an ON DELETE clause: without cascade_delete on
    that side the bulk delete and the object delete agree (the referenced row stays) ... -/
theorem C15_delete_referencing_side (req collP cascP guard : Bool) :
    let sch := sch2 (childSide req false) (parentSide collP cascP)
    let s := store2 false collP
    obsDb (viaBulk sch s 0) = obsDb (viaSession sch guard s 0) ∧ obsDb (viaBulk sch s 0) = some (false, true, none, false) := by
  cases req <;> cases collP <;> cases cascP <;> cases guard <;> exact ⟨rfl, rfl⟩

/-- ... but a one-to-one attribute with cascade_delete that itself holds the column has no database counterpart: the object
    delete removes both rows, the bulk delete only the referencing one (no dangling reference either way). -/
theorem C15_bulk_misses_cascade_from_column_side (guard : Bool) :
    let sch := sch2 (childSide false true) (parentSide false false)
    let s := store2 false false
    obsDb (viaSession sch guard s 0) = some (false, false, none, false) ∧
    obsDb (viaBulk sch s 0) = some (false, true, none, false) := by
  cases guard <;> exact ⟨rfl, rfl⟩

/-- many-to-many: deleting either end removes the link row, in memory (the collection is cleared) and in the database
    (`ON DELETE CASCADE` on both link-table keys) -/
theorem C15_on_delete_matches_m2m (guard : Bool) (o : ObjId) (ho : o = 0 ∨ o = 1) :
    let sch := sch2 ⟨0, true, false, false, false⟩ ⟨1, true, false, false, false⟩
    let s := store2 true true
    obsDb (viaBulk sch s o) = obsDb (viaSession sch guard s o) ∧
    obsDb (viaBulk sch s o) = some (decide (o = 1), decide (o = 0), none, false) ∧
    obsDb (some (commit sch s)) = some (true, true, none, true) := by
  rcases ho with rfl | rfl <;> cases guard <;> exact ⟨rfl, rfl, rfl⟩

/-- The ranking hypothesis is decidable on a concrete store: if the executable check `isRankedB` (longest cascade path, cut at
    `n`, strictly decreases along every cascade edge — computed by the driver for every compared history) says yes and all cascade
    links are between existing objects, the top-level delete does not end in the model's RecursionError. -/
theorem C15_terminates_checked (sch : Schema) (ct : ClassTable) (guard : Bool) (s : Store) (a : ObjId)
    (hc : isRankedB sch s = true) (hin : ∀ p q, CEdge sch s p q → p < s.n ∧ q < s.n) :
    (deleteTop sch ct guard s a).2 ≠ some .recursionError := by
  obtain ⟨hr, hb⟩ := ranked_of_check hc hin
  exact (C15_terminates sch ct guard s a _ hr hb).2

/-- hypotheses of `C15_terminates` met non-trivially: on the parent/child graph the object id is a ranking bounded by `n` -/
example : Ranked (sch2 (childSide true false) (parentSide true true)) (store2 false true) (fun x => x) := by
  intro p q ⟨b, hb, hh⟩
  rcases (hasB_store2 _ _ false true rfl rfl p b q).mp hh with ⟨rfl, rfl, rfl⟩ | ⟨rfl, rfl, rfl⟩
  · simp [Schema.isCascade, Schema.side, sch2, aC, childSide] at hb
  · simp

/-! ## Inheritance: the class table is that of the object's REAL class -/

/-- Owner (class 0) --a, cascade--> A (class 1);  B (class 2) is a subclass of A with `items = Set(Item)`; Item (class 3) has
    `b = Required(B)` (so `items` cascades by default).  Object 0 is an Owner, object 1 a B, object 2 its Item. -/
def schInh : Schema :=
  [⟨⟨0, false, false, true, true⟩, ⟨1, false, false, false, false⟩, false⟩,
   ⟨⟨2, true, false, true, false⟩, ⟨3, false, true, false, true⟩, false⟩]

/-- `_attrs_` per class: the subclass B has the inherited `owner` first, then its own `items` -/
def ctInh : ClassTable := fun e =>
  if e = 0 then [⟨0, false⟩] else if e = 1 then [⟨0, true⟩] else if e = 2 then [⟨0, true⟩, ⟨1, false⟩] else if e = 3 then [⟨1, true⟩] else []

/-- the table a delete uses when it iterates the attributes of the BASE class for an object whose real class is B
    (what `_delete_` did for an object known by primary key only, before fix 0dcf4fd) -/
def ctBaseOnly : ClassTable := fun e => if e = 2 then ctInh 1 else ctInh e

def storeInh : Store where
  n := 3
  ent := fun o => if o = 0 then 0 else if o = 1 then 2 else 3
  alive := fun o => decide (o < 3)
  ref := fun o a => if o = 0 ∧ a = ⟨0, false⟩ then some 1 else if o = 1 ∧ a = ⟨0, true⟩ then some 0
                    else if o = 2 ∧ a = ⟨1, true⟩ then some 1 else none
  mem := fun o a x => decide (o = 1 ∧ a = ⟨1, false⟩ ∧ x = 2)

/-- with the real class table the cascade runs through the base-typed reference into the subclass's own collection:
    owner, B-object and item all die (both variants of `_delete_`), and the committed rows are gone -/
theorem C15_cascade_through_subclass (guard : Bool) :
    (match delete schInh ctInh guard 9 [] 0 storeInh with
     | .ok s' => some (s'.alive 0, s'.alive 1, s'.alive 2, checkNoDangling schInh s', (commit schInh s').row 2)
     | .error _ => none) = some (false, false, false, true, false) := by
  cases guard <;> rfl

/-- with the base class's attributes only, the item survives holding a deleted object: exactly the dangling reference the
    theorems exclude — `Range` (an object holds values only under the attributes of its class table) is what rules it out -/
theorem C15_base_class_table_misses_dependents (guard : Bool) :
    (match delete schInh ctBaseOnly guard 9 [] 0 storeInh with
     | .ok s' => some (s'.alive 1, s'.alive 2, checkNoDangling schInh s')
     | .error _ => none) = some (false, true, false) ∧
    ¬ Range schInh ctBaseOnly storeInh := by
  refine ⟨by cases guard <;> rfl, ?_⟩
  intro h
  have := h.ent 1 ⟨1, false⟩ 2 (by decide)
  revert this
  decide

end PonyVerif.Props.C15
