/-
  C09 — the committed database state equals the state the program committed.

  Refinement theorems about Model/SessStore.lean: the implementation machine (session cache with statuses, written-column
  sets, save queue with holes, pending many-to-many additions / removals, deferred INSERT / UPDATE / DELETE and link-row
  statements over a database with one open transaction) refines the reference machine "what the program has" (a logical
  database updated at once by every successful call), for ALL histories of a well-formed program (induction over the
  operation list with the session invariant `Inv`).

  Fragment covered by the model (see the header of Model/SessStore.lean and `C09_full` below): explicit integer primary
  keys, scalar and reference columns, many-to-many link rows, several sessions, flush / commit / rollback / session end
  with and without an error.
-/
import PonyVerif.Lemmas.SessStoreOps
namespace PonyVerif.Props.C09
open PonyVerif.Model.SessStore

/-! ### one lemma per `_save_*_` and the many-to-many lemma -/

/-- `_save_created_`: INSERT listing only the non-None columns produces exactly the object's current values as its row,
    and the object becomes `inserted` with no written columns. -/
theorem C09_save_created (w : World) (k : Key) (o : Obj) (ho : w.cache.objs k = some o) (hs : o.status = .created)
    (hrow : w.txn.rows k = none) :
    ∃ w', saveObj k w = .ok (w', [.insert k o.vals]) ∧ w'.txn.rows k = some o.vals ∧
      (∀ k', k' ≠ k → w'.txn.rows k' = w.txn.rows k') ∧ w'.txn.links = w.txn.links ∧
      w'.cache.objs k = some { o with status := .inserted, wbits := [] } := by
  exact ⟨_, save_created ho hs hrow, by simp, fun k' hk => by simp [hk], rfl, by simp⟩

/-- `_save_updated_`: UPDATE of the written columns brings the row to the object's current values whenever the columns
    that were not written already agreed with the database (the invariant for `modified` objects). -/
theorem C09_save_updated (w : World) (k : Key) (o : Obj) (row : Row) (ho : w.cache.objs k = some o)
    (hs : o.status = .modified) (hrow : w.txn.rows k = some row) (hagree : ∀ c, c ∉ o.wbits → row c = o.vals c) :
    ∃ w' ws, saveObj k w = .ok (w', ws) ∧ w'.txn.rows k = some o.vals ∧
      (∀ k', k' ≠ k → w'.txn.rows k' = w.txn.rows k') ∧
      (∃ o', w'.cache.objs k = some o' ∧ o'.status = .updated ∧ o'.vals = o.vals) := by
  by_cases hw : o.wbits.isEmpty
  · have hvals : row = o.vals := by funext c; apply hagree; simp [List.isEmpty_iff.mp hw]
    refine ⟨{ w with cache := w.cache.setObj k { o with status := .updated } }, [], ?_, by simp [hrow, hvals],
      fun k' _ => rfl, ⟨{ o with status := .updated }, by simp, rfl, rfl⟩⟩
    unfold saveObj; simp [ho, hs, hw]
  · refine ⟨{ w with txn := w.txn.setRow k (some (updateRow row o.wbits o.vals))
                     cache := w.cache.setObj k { o with status := .updated, wbits := [] } },
            [.update k o.wbits o.vals], ?_, by simp [updateRow_eq hagree], fun k' hk => by simp [hk],
            ⟨{ o with status := .updated, wbits := [] }, by simp, rfl, rfl⟩⟩
    unfold saveObj; simp [ho, hs, hw, hrow]

/-- `_save_deleted_`: the row is gone, the object is `deleted`, no other row changes. -/
theorem C09_save_deleted (w : World) (k : Key) (o : Obj) (ho : w.cache.objs k = some o) (hs : o.status = .markedToDelete) :
    ∃ w', saveObj k w = .ok (w', [.delete k]) ∧ w'.txn.rows k = none ∧
      (∀ k', k' ≠ k → w'.txn.rows k' = w.txn.rows k') ∧ w'.txn.links = w.txn.links := by
  exact ⟨_, save_deleted ho hs, by simp, fun k' hk => by simp [hk], rfl⟩

/-- `remove_m2m` / `add_m2m`: after deleting the removed pairs, inserting fresh distinct added pairs succeeds and the link
    table holds exactly (old − removed) ∪ added. -/
theorem C09_m2m (d : Db) (added removed : List Link) (hf : ∀ l, l ∈ added → d.links l = false) (hn : added.Nodup) :
    ∃ d', addLinks (removeLinks d removed) added = .ok d' ∧ d'.rows = d.rows ∧
      ∀ l, d'.links l = ((d.links l && !removed.contains l) || added.contains l) := by
  obtain ⟨d', e, r, hl⟩ := addLinks_spec added (removeLinks d removed) (fun l hl => by simp [removeLinks, hf l hl]) hn
  exact ⟨d', e, r, fun l => by rw [hl l]; rfl⟩

/-! ### the order of the row writes, and where it matters -/

/-- the pending objects in any order: what the model's queue order and Pony's principal-first order
    (`_save_principal_objects_`) have in common -/
def EnumeratesPending (w : World) (q : List (Option Key)) : Prop := InvQ w q

/-- For keys that are known when the rows are written, the ORDER of the INSERT / UPDATE / DELETE statements of a flush is
    immaterial: any two enumerations of the pending objects are both accepted by the database model and leave the same rows
    and the same link rows, with nothing pending.  This is what lets the flush model write in queue order although the code
    writes referenced new objects first. -/
theorem C09_write_order_irrelevant (w : World) (q1 q2 : List (Option Key))
    (h1 : EnumeratesPending w q1) (h2 : EnumeratesPending w q2) :
    ∃ w1 ws1 w2 ws2, saveQueue q1 w = .ok (w1, ws1) ∧ saveQueue q2 w = .ok (w2, ws2) ∧
      (∀ k, w1.txn.rows k = w2.txn.rows k) ∧ w1.txn.links = w2.txn.links ∧
      (∀ k o, w1.cache.objs k = some o → o.status.pending = false) ∧
      (∀ k o, w2.cache.objs k = some o → o.status.pending = false) :=
  saveQueue_order_irrelevant h1 h2

/-- a non-trivial instance: two new objects, the first referring to the second, written in both orders -/
example :
    let w : World := (step (step (World.init Db.empty) (.create ⟨0, 1⟩ [.ref ⟨0, 2⟩])).1 (.create ⟨0, 2⟩ [.int 7])).1
    ((saveQueue [some ⟨0, 1⟩, some ⟨0, 2⟩] w).toOption.map fun r => ((r.1.txn.rows ⟨0, 1⟩).map (· 0), (r.1.txn.rows ⟨0, 2⟩).map (· 0)))
      = ((saveQueue [some ⟨0, 2⟩, none, some ⟨0, 1⟩] w).toOption.map fun r => ((r.1.txn.rows ⟨0, 1⟩).map (· 0), (r.1.txn.rows ⟨0, 2⟩).map (· 0))) := by
  decide

/-- Where the order does matter: a reference column receives the target's primary key as it is known at that moment.  If
    every referenced key is known, the row written is exactly the object's values (the assumption of the flush model) ... -/
theorem C09_raw_fk_exact (known : Key → Bool) (vals : Row) (h : ∀ c t, vals c = .ref t → known t = true) :
    rawRow known vals = vals := by
  funext c
  unfold rawRow
  cases hv : vals c with
  | ref t => simp [h c t hv]
  | null => rfl
  | int i => rfl

/-- ... and a reference to a new object whose key has not been generated yet is written as NULL: the link is lost without any
    error.  Writing referenced new objects first (`_save_principal_objects_`, for `created` AND `modified` objects) is therefore
    necessary for C09 once keys are generated by the database; that the code does so is C16. -/
theorem C09_raw_fk_lost (known : Key → Bool) (vals : Row) (c : Nat) (t : Key) (hv : vals c = .ref t) (hk : known t = false) :
    rawRow known vals c = .null ∧ rawRow known vals ≠ vals := by
  have h1 : rawRow known vals c = .null := by simp [rawRow, hv, hk]
  refine ⟨h1, fun h => ?_⟩
  have := congrFun h c
  rw [h1, hv] at this
  cases this

/-! ### flush, commit, rollback -/

/-- Under the session invariant a flush never fails, leaves nothing pending, does not touch the committed state and does
    not change the logical database: the moment at which the session writes is invisible to the program. -/
theorem C09_flush_invisible (w : World) (h : Inv w) :
    ∃ w' ws, flushIfModified w = .ok (w', ws) ∧ Inv w' ∧ Clean w' ∧ abs w' = abs w ∧ w'.committed = w.committed ∧
      w'.txn = abs w := by
  obtain ⟨w', ws, e, hi, hcl, ha, hc⟩ := flushIfModified_spec h
  exact ⟨w', ws, e, hi, hcl, ha, hc, by rw [← ha]; exact (abs_eq_txn_of_clean hi.q.objs hcl).symm⟩

/-- After `commit` the committed database is exactly the logical database the session had (`abs`): the objects that are
    not deleted with their current values, and the links; the commit always succeeds. -/
theorem C09_commit (w : World) (h : Inv w) :
    ∃ w' ws, step w .commit = (w', .ok, ws) ∧ w'.committed = abs w ∧ abs w' = abs w ∧ Inv w' := by
  obtain ⟨w', ws, e, hi, _, ha, hc, _⟩ := commit_spec h
  exact ⟨w', ws, e, hc, ha, hi⟩

/-- the same at the normal end of a session (`db_session.__exit__` without an exception): committed, cache closed -/
theorem C09_session_end (w : World) (h : Inv w) :
    ∃ w' ws, step w .endOk = (w', .ok, ws) ∧ w'.committed = abs w ∧ w'.txn = abs w ∧ abs w' = abs w := by
  obtain ⟨w', ws, e, _, _, _, hc, ht⟩ := commit_spec h
  refine ⟨{ w' with cache := Cache.empty }, ws, ?_, hc, ht, ?_⟩
  · show (match commitOp w with | (w', .ok, ws) => ({ w' with cache := Cache.empty }, Outcome.ok, ws) | r => r) = _
    rw [e]
  · show abs ⟨w'.committed, w'.txn, Cache.empty⟩ = _
    rw [abs_empty_cache, ht]

/-- `rollback()` and a session that ends with an exception: whatever the session did since its last commit — flushed or
    not — is gone: the committed state is untouched and the next session starts from it with an empty cache. -/
theorem C09_rollback (w : World) (op : Op) (hop : op = .rollback ∨ op = .endErr) :
    (step w op).1.committed = w.committed ∧ (step w op).1.txn = w.committed ∧ abs (step w op).1 = w.committed := by
  rcases hop with rfl | rfl <;> exact ⟨rfl, rfl, abs_empty_cache _ _⟩

/-! ### the refinement theorem: all histories -/

/-- For every starting database and every history of a well-formed program — creates, assignments, link changes, deletes,
    loads, flushes, commits, rollbacks and session ends in any order over any number of sessions — the implementation
    stays in simulation with the reference machine: the committed database equals the state the program had at its last
    commit, and the session's view equals what the program currently has. -/
theorem C09_refinement (d : Db) (ops : List Op) (hv : ValidFrom ⟨World.init d, Spec.init d⟩ ops) :
    let r := runBoth ⟨World.init d, Spec.init d⟩ ops
    r.w.committed = r.s.committed ∧ abs r.w = r.s.working ∧ Inv r.w := by
  have := run_sim ops _ (sim_init d) hv
  exact ⟨this.committed, this.view, this.inv⟩

/-- `C09_commit` along a history: whenever a well-formed history is followed by `commit` or a normal session end, that
    call succeeds and the committed database becomes exactly what the program had (the reference machine's working
    state) — the objects, attribute values and links of the session at that commit. -/
theorem C09_commit_history (d : Db) (ops : List Op) (hv : ValidFrom ⟨World.init d, Spec.init d⟩ ops)
    (op : Op) (hop : op = .commit ∨ op = .endOk) :
    let r := runBoth ⟨World.init d, Spec.init d⟩ ops
    (step r.w op).2.1 = .ok ∧ (step r.w op).1.committed = r.s.working := by
  have hs := run_sim ops _ (sim_init d) hv
  rcases hop with rfl | rfl
  · obtain ⟨w', ws, e, hc, _, _⟩ := C09_commit _ hs.inv
    intro r; show (step r.w _).2.1 = _ ∧ _; rw [show step r.w _ = _ from e]; exact ⟨rfl, hc.trans hs.view⟩
  · obtain ⟨w', ws, e, hc, _, _⟩ := C09_session_end _ hs.inv
    intro r; show (step r.w _).2.1 = _ ∧ _; rw [show step r.w _ = _ from e]; exact ⟨rfl, hc.trans hs.view⟩

/-- `C09_rollback` along a history: after `rollback` or a session end with an exception the database every later session
    sees is the state of the last commit. -/
theorem C09_rollback_history (d : Db) (ops : List Op) (hv : ValidFrom ⟨World.init d, Spec.init d⟩ ops)
    (op : Op) (hop : op = .rollback ∨ op = .endErr) :
    let r := runBoth ⟨World.init d, Spec.init d⟩ ops
    (step r.w op).1.committed = r.s.committed ∧ (step r.w op).1.txn = r.s.committed ∧
      abs (step r.w op).1 = r.s.committed := by
  have hs := run_sim ops _ (sim_init d) hv
  obtain ⟨h1, h2, h3⟩ := C09_rollback (runBoth ⟨World.init d, Spec.init d⟩ ops).w op hop
  exact ⟨h1.trans hs.committed, h2.trans hs.committed, h3.trans hs.committed⟩

/-- in a well-formed history no flush is ever refused by the database (no call ends with the model's `dbError`) -/
theorem C09_no_db_error (d : Db) (ops : List Op) (hv : ValidFrom ⟨World.init d, Spec.init d⟩ ops) (op : Op) :
    let r := runBoth ⟨World.init d, Spec.init d⟩ ops
    ∀ e, (step r.w op).2.1 ≠ .dbError e := by
  have hs := run_sim ops _ (sim_init d) hv
  intro r e
  obtain ⟨w', ws, ef, _⟩ := flushIfModified_spec hs.inv
  have ef' : flushIfModified r.w = .ok (w', ws) := ef
  cases op with
  | create k vals => simp only [step, create]; split <;> simp
  | set k c v => simp only [step, setAttr]; repeat' split
                 all_goals simp
  | link l => simp only [step, linkOp]; repeat' split
              all_goals simp
  | unlink l => simp only [step, unlinkOp]; repeat' split
                all_goals simp
  | delete k => simp only [step, deleteObj]; repeat' split
                all_goals simp
  | load k =>
    simp only [step, loadObj, ef']
    split
    · split
      · split <;> simp
      · simp
    · simp only [fetch]; split <;> simp
  | seed k => simp only [step]; split <;> simp
  | hasLink l => simp [step]
  | flush => simp [step, ef']
  | commit => simp [step, commitOp, ef']
  | rollback => simp [step]
  | endOk => simp [step, commitOp, ef']
  | endErr => simp [step]

/-! ### the hypotheses are satisfiable, and the theorem is about something -/

def k1 : Key := ⟨0, 1⟩
def k2 : Key := ⟨1, 7⟩
def l12 : Link := ⟨0, k1, k2⟩

/-- a two-session history: create two objects, link them, commit; next session: load, update a column, unlink, delete one,
    create a third, end normally; a third session changes things and ends with an error -/
def demo : List Op :=
  [.create k1 [.int 5, .null], .create k2 [.ref k1], .link l12, .flush, .set k1 1 (.int 9), .endOk,
   .load k1, .load k2, .set k1 0 (.int 6), .unlink l12, .delete k2, .create ⟨1, 8⟩ [.null], .endOk,
   .load k1, .set k1 0 (.int 100), .flush, .endErr]

example : ValidFrom ⟨World.init Db.empty, Spec.init Db.empty⟩ demo := by decide

example : ((runBoth ⟨World.init Db.empty, Spec.init Db.empty⟩ demo).w.committed.rows k1).map (fun r => [r 0, r 1])
    = some [.int 6, .int 9] := by decide
example : ((runBoth ⟨World.init Db.empty, Spec.init Db.empty⟩ demo).w.committed.rows k2).isNone = true := by decide
example : (runBoth ⟨World.init Db.empty, Spec.init Db.empty⟩ demo).w.committed.links l12 = false := by decide

/-! ### the guard is necessary; what is outside the model -/

/-- The refinement WITHOUT the well-formedness guard: for every history whatsoever. -/
def C09_full : Prop :=
  ∀ (d : Db) (ops : List Op),
    let r := runBoth ⟨World.init d, Spec.init d⟩ ops
    r.w.committed = r.s.committed ∧ abs r.w = r.s.working

/-- It does not hold, in the model and (replayed by harness/engines/c09.py on every run) on the real code: a program that
    constructs a second object under a primary key whose first holder is committed but not loaded — the constructor cannot
    see the clash, the pk index does not contain the key — and deletes the new object again leaves the FIRST object in the
    database, although "the object with this key" was deleted in the program's view.  (Without the delete the flush fails
    loudly with TransactionIntegrityError and everything is rolled back.)  `ValidFrom` excludes exactly these programs;
    `C09_refinement` is the `_partial` theorem with this explicit, decidable guard. -/
theorem C09_full_false : ¬ C09_full := by
  intro h
  have h1 := (h Db.empty [.create ⟨0, 1⟩ [.int 5], .endOk, .create ⟨0, 1⟩ [.int 6], .delete ⟨0, 1⟩, .endOk]).1
  have h2 := congrArg (fun d => (d.rows ⟨0, 1⟩).isSome) h1
  revert h2
  decide

/-- the witness violates the guard at its third call, and only there -/
example : ¬ ValidFrom ⟨World.init Db.empty, Spec.init Db.empty⟩
    [.create ⟨0, 1⟩ [.int 5], .endOk, .create ⟨0, 1⟩ [.int 6], .delete ⟨0, 1⟩, .endOk] := by decide
example : ValidFrom ⟨World.init Db.empty, Spec.init Db.empty⟩ [.create ⟨0, 1⟩ [.int 5], .endOk] := by decide

/- Outside the model altogether (the real code is checked against the same reference machine by the oracle of
   harness/engines/c09.py only): auto-generated primary keys and the write order of `_save_principal_objects_` that makes
   them available to referencing rows (C16), composite primary keys, the one-to-many / one-to-one collection sides and
   cascade rules as such (their effect enters as column-level operations; C12 / C15), lifecycle hooks (C33), read bits and
   optimistic checks (C20 / C21), lazy attributes, inheritance, several databases in one session. -/

/-- `C09_refused_call_changes_nothing`: a call that is REFUSED (raises before / while changing the session and is undone: constructor
    under a key in use, assignment to or link change with a deleted / unknown object, ...) leaves the whole session - statuses,
    written columns, save queue, pending additions AND removals of every collection, the transaction - exactly as it was, and
    writes nothing: whatever was pending before the failed call is still pending, nothing else is.  (Calls refused for reasons the
    model does not know - ConstraintError of a Required reference, CacheIndexError of a unique key - reach the model as "no
    operation"; that the real session is unchanged by them is compared state by state in the engine, and at the next commit the
    database is compared with what the program had: the directed family `failed_call_family` and the random shape
    "failing call after pending collection changes".) -/
theorem C09_refused_call_changes_nothing (w : World) (op : Op) (r : Refusal) (h : (step w op).2.1 = .refused r) :
    (step w op).1 = w ∧ (step w op).2.2 = [] := by
  cases op with
  | create k vals => simp only [step, create] at h ⊢; split at h <;> simp_all
  | set k c v =>
    simp only [step, setAttr] at h ⊢
    cases ho : w.cache.objs k with
    | none => simp [ho]
    | some o => simp only [ho] at h ⊢; repeat' split at h <;> simp_all
  | link l => simp only [step, linkOp] at h ⊢; repeat' split at h <;> simp_all
  | unlink l => simp only [step, unlinkOp] at h ⊢; repeat' split at h <;> simp_all
  | delete k =>
    simp only [step, deleteObj] at h ⊢
    cases ho : w.cache.objs k with
    | none => simp [ho]
    | some o => simp only [ho] at h ⊢; repeat' split at h <;> simp_all
  | load k =>
    simp only [step, loadObj] at h
    repeat' split at h
    all_goals first | (simp at h; done) | (simp_all [fetch]; done) | skip
    all_goals (unfold fetch at h; repeat' split at h) <;> simp_all
  | seed k => simp only [step] at h ⊢; split at h <;> simp_all
  | hasLink l => simp [step] at h
  | flush => simp only [step] at h; split at h <;> simp at h
  | commit => simp only [step, commitOp] at h; split at h <;> simp at h
  | rollback => simp [step] at h
  | endOk =>
    simp only [step, commitOp] at h
    repeat' split at h
    all_goals simp_all
  | endErr => simp [step] at h

/-- together with the refinement: in ALL histories of a well-formed program a refused call changes neither the session's logical
    view nor the reference machine - the state that the next commit writes is the one the program had before the failed call -/
theorem C09_refused_call_keeps_view (b : Both) (op : Op) (r : Refusal) (h : (step b.w op).2.1 = .refused r) :
    abs (step b.w op).1 = abs b.w ∧ (step b.w op).1.committed = b.w.committed := by
  rw [(C09_refused_call_changes_nothing b.w op r h).1]; exact ⟨rfl, rfl⟩

end PonyVerif.Props.C09
