/-
  C14 — primary and unique keys are never silently duplicated.
  Property theorems only.  Models: PonyVerif/Model/KeyDb.lean (a committed table with PRIMARY KEY / UNIQUE constraints
  checked per statement, one Pony session over it, `flush` / `commit()` / `rollback()` / `E[pk]`, a second writer) on top of
  PonyVerif/Model/KeyIndex.lean (the session's key indexes; see Props/C11.lean).

  All statements are for ARBITRARY schemas (any unique / composite keys), arbitrary tables satisfying `Inv_dbkeys`,
  arbitrary sessions, arbitrary generated ids, and arbitrary histories of calls.
-/
import PonyVerif.Lemmas.KeyDb
namespace PonyVerif.Props.C14
open PonyVerif.Model.KeyIndex PonyVerif.Model.KeyDb

/-! ### `Inv_dbkeys` holds in every reachable state -/

theorem C14_init (sch : Schema) : WInv sch World.init := WInv.init sch

/-- EVERY call — session calls, `E[pk]`, `flush()`, `obj.flush()`, `commit()`, `rollback()`, an INSERT by a second connection — whether it
    succeeds or raises, keeps: no two rows of the committed table (and of the session's view of it) agree on a primary,
    unique or composite key; outside a transaction the session sees the committed table -/
theorem C14_step (sch : Schema) (w : World) (op : WOp) (h : WInv sch w) : WInv sch (stepW sch w op).1 := stepW_inv h op

theorem C14_reachable (sch : Schema) (ops : List WOp) : WInv sch (runW sch World.init ops) := by
  suffices h : ∀ w, WInv sch w → WInv sch (runW sch w ops) from h _ (C14_init sch)
  induction ops with
  | nil => intro w hw; exact hw
  | cons op ops ih => intro w hw; exact ih _ (C14_step sch w op hw)

/-- the property as stated: after ANY history, any two different rows of the committed table differ in their primary key
    and in every unique / composite key whose columns are not NULL -/
theorem C14_keys_never_duplicated (sch : Schema) (ops : List WOp) (i j : Nat)
    (hi : i < (runW sch World.init ops).committed.length) (hj : j < (runW sch World.init ops).committed.length) (hij : i ≠ j) :
    (runW sch World.init ops).committed[i].pk ≠ (runW sch World.init ops).committed[j].pk ∧
    ∀ k v, k < sch.keys.length → rowKv sch (runW sch World.init ops).committed[i] k = some v →
      rowKv sch (runW sch World.init ops).committed[j] k ≠ some v :=
  keysOk_spec (C14_reachable sch ops).committed i j hi hj hij

/-! ### errors roll back -/

/-- `C14_flush_error_rolls_back`: when `commit()` raises (a statement of the flush was refused by the database, an
    auto-generated id was already used in the session, an earlier flush had stopped half-way), the committed table is
    what it was, the session's view equals it again and the transaction is over -/
theorem C14_flush_error_rolls_back (sch : Schema) (w : World) (h : WInv sch w) (ids : List Int) (e : WErr)
    (he : (stepW sch w (.commit ids)).2 = some e) :
    (stepW sch w (.commit ids)).1.committed = w.committed ∧ (stepW sch w (.commit ids)).1.txn = w.committed ∧
      (stepW sch w (.commit ids)).1.inTxn = false :=
  commit_err h ids e he

/-- nothing but a successful `commit()` (and the second writer) changes what other connections see: not a flush, not a
    failing flush, not a query, not a rollback -/
theorem C14_only_commit_publishes (sch : Schema) (w : World) (h : WInv sch w) (op : WOp)
    (hc : ∀ ids, op ≠ .commit ids) (he : ∀ st, op ≠ .ext st) : (stepW sch w op).1.committed = w.committed :=
  stepW_committed h op hc he

def sessionOnly : WOp → Bool
  | .commit _ | .ext _ => false
  | _ => true

/-- a whole session — ANY sequence of calls and flushes, successful or failing — that ends in a failing `commit()` or in
    `rollback()` leaves the committed table equal to the pre-session state -/
theorem C14_failed_session_invisible (sch : Schema) (w : World) (h : WInv sch w) (ops : List WOp)
    (hs : ops.all sessionOnly = true) :
    (runW sch w ops).committed = w.committed ∧
    (∀ ids e, (stepW sch (runW sch w ops) (.commit ids)).2 = some e → (stepW sch (runW sch w ops) (.commit ids)).1.committed = w.committed) ∧
    (stepW sch (runW sch w ops) .rollback).1.committed = w.committed := by
  have key : ∀ (ops : List WOp) (w : World), WInv sch w → ops.all sessionOnly = true →
      WInv sch (runW sch w ops) ∧ (runW sch w ops).committed = w.committed := by
    intro ops
    induction ops with
    | nil => intro w hw _; exact ⟨hw, rfl⟩
    | cons op ops ih =>
      intro w hw hs
      simp only [List.all_cons, Bool.and_eq_true] at hs
      have h1 := C14_step sch w op hw
      have h2 : (stepW sch w op).1.committed = w.committed := by
        apply C14_only_commit_publishes sch w hw op
        · intro ids e; subst e; simp [sessionOnly] at hs
        · intro r e; subst e; simp [sessionOnly] at hs
      obtain ⟨a, b⟩ := ih _ h1 hs.2
      exact ⟨a, b.trans h2⟩
  obtain ⟨a, b⟩ := key ops w h hs
  refine ⟨b, ?_, b⟩
  intro ids e he
  exact (C14_flush_error_rolls_back sch _ a ids e he).1.trans b

/-! ### a conflict surfaces as an error: at the call … -/

/-- constructor: some non-deleted object of the session holds tuple `v` under key `i`, the new object would hold it too
    ⇒ CacheIndexError, and the session is exactly what it was -/
theorem C14_conflict_at_create (sch : Schema) (s : Sess) (hI : Inv sch s) (c : Nat) (pk : Option KeyVal) (vals : List (Option Int)) (lf : Bool)
    (i : Nat) (v : KeyVal) (o' : ObjId) (ho' : o' < s.n) (hl : (s.obj o').status.isDel = false)
    (hk' : kv sch (s.obj o').vals i = some v) (hk : kv sch (fun a => Slot.val ((vals[a]?).join)) i = some v) :
    stepR sch s (.create c pk vals lf) = (s, { err := some .cacheIndex }) := by
  have hg := hI.key_complete i o' v ho' hl hk'
  have hi : i ∈ allKeys sch := by
    rw [mem_allKeys]; apply Nat.lt_of_not_le; intro hge
    rw [kv_none_of_ge sch _ i hge] at hk; cases hk
  have : keyTaken sch s (fun a => Slot.val ((vals[a]?).join)) = true := by
    unfold keyTaken
    rw [List.any_eq_true]
    exact ⟨i, hi, by simp [hk, hg]⟩
  simp only [stepR]
  exact create_eq_keyTaken this

/-- a second object with the same primary key ⇒ CacheIndexError, session unchanged -/
theorem C14_conflict_at_create_pk (sch : Schema) (s : Sess) (hI : Inv sch s) (c : Nat) (k : KeyVal) (vals : List (Option Int)) (lf : Bool)
    (o' : ObjId) (ho' : o' < s.n) (hp : (s.obj o').pk = some k) (hh : (s.obj o').status.holdsPk = true) :
    stepR sch s (.create c (some k) vals lf) = (s, { err := some .cacheIndex }) := by
  have hg := hI.pk_complete o' k ho' hp hh
  simp only [stepR]
  cases hkt : keyTaken sch s (fun a => Slot.val ((vals[a]?).join)) with
  | true => exact create_eq_keyTaken hkt
  | false => exact create_eq_pkTaken hkt (by simp [pkTaken, hg])

/-- assignment (`obj.attr = v`, `obj.set(**kw)`): ANOTHER non-deleted object holds the tuple the object would get ⇒
    CacheIndexError (and by `C11_failed_assignment_restores` nothing changed) — this is what happens to a direct swap of
    unique values between two objects -/
theorem C14_conflict_at_set (sch : Schema) (s : Sess) (hI : Inv sch s) (o : ObjId) (ch : List (Nat × Option Int))
    (ho : o < s.n) (hlo : (s.obj o).status.isDel = false)
    (i : Nat) (v : KeyVal) (o' : ObjId) (ho' : o' < s.n) (hl : (s.obj o').status.isDel = false) (hne : o' ≠ o)
    (hk' : kv sch (s.obj o').vals i = some v) (hk : kv sch (chVals (s.obj o) ch) i = some v) :
    (stepR sch s (.setAttrs o ch)).2.err = some .cacheIndex := by
  have hg := hI.key_complete i o' v ho' hl hk'
  have hi : i ∈ allKeys sch := by
    rw [mem_allKeys]; apply Nat.lt_of_not_le; intro hge
    rw [kv_none_of_ge sch _ i hge] at hk; cases hk
  simp only [stepR, setAttrs]
  have h1 : ¬ o ≥ s.n := Nat.not_le_of_lt ho
  simp only [h1, if_false, hlo, Bool.false_eq_true]
  cases hok : (updKeysGo o (kv sch (s.obj o).vals) (kv sch (chVals (s.obj o) ch)) (allKeys sch) ⟨s.ixs, [], true⟩).ok with
  | false => simp
  | true =>
    exfalso
    have := updKeysGo_each o _ _ (allKeys sch) (allKeys_nodup sch) ⟨s.ixs, [], true⟩ hok i hi
    apply this
    rw [updKey_none]
    refine ⟨?_, v, o', hk, hg, hne⟩
    intro e
    rw [hk] at e
    have := hI.key_complete i o v ho hlo e
    rw [hg] at this
    exact hne (Option.some.inj this)

/-! ### … or at flush -/

/-- INSERT of a new object whose primary key or one of whose key tuples is already in the table the session's connection
    sees (e.g. written by another connection after the session looked) ⇒ TransactionIntegrityError; neither the table nor
    the session changed -/
theorem C14_conflict_at_flush_insert (sch : Schema) (w : World) (o : ObjId) (ids : List Int) (k : KeyVal)
    (hst : (w.sess.obj o).status = .created) (hpk : (w.sess.obj o).pk = some k)
    (x : DbRow) (hx : x ∈ w.txn) (hc : clash sch (objRow (w.sess.obj o) k) x = true) :
    (flushObj sch w o ids).err = some .txnIntegrity ∧ (flushObj sch w o ids).w.txn = w.txn ∧
      (flushObj sch w o ids).w.sess = w.sess ∧ (flushObj sch w o ids).w.committed = w.committed := by
  have hn : dbInsert sch w.txn (objRow (w.sess.obj o) k) = none := dbInsert_none.mpr ⟨x, hx, hc⟩
  unfold flushObj flushInsert
  simp only [hst, hpk, hn]
  exact ⟨trivial, trivial, trivial, trivial⟩

/-- UPDATE that would give the row a key tuple another row has ⇒ IntegrityError; table and session unchanged.  This is
    what happens to a swap of unique values through a temporary value when the rows are written in the wrong order. -/
theorem C14_conflict_at_flush_update (sch : Schema) (w : World) (o : ObjId) (ids : List Int) (k : KeyVal) (old : DbRow)
    (hst : (w.sess.obj o).status = .modified) (hpk : (w.sess.obj o).pk = some k)
    (hw : (List.range sch.nattrs).any (w.sess.obj o).wbits = true) (hold : getRow w.txn k = some old)
    (hopt : (!w.forUpdate.contains o && !optimisticOk sch (w.sess.obj o) old) = false)
    (hu : dbUpdate sch w.txn (updRow (w.sess.obj o) old) = none) :
    (flushObj sch w o ids).err = some .integrity ∧ (flushObj sch w o ids).w.txn = w.txn ∧
      (flushObj sch w o ids).w.sess = w.sess ∧ (flushObj sch w o ids).w.committed = w.committed := by
  unfold flushObj
  simp only [hst, hpk, hw, hold, hu, hopt, if_true, Bool.false_eq_true, if_false]
  exact ⟨trivial, trivial, trivial, trivial⟩

/-- a row the session had READ was changed by another connection meanwhile: the UPDATE matches no row ⇒ OptimisticCheckError;
    table and session unchanged (the stale value is never written over the other writer's) -/
theorem C14_conflict_at_flush_optimistic (sch : Schema) (w : World) (o : ObjId) (ids : List Int) (k : KeyVal) (old : DbRow)
    (hst : (w.sess.obj o).status = .modified) (hpk : (w.sess.obj o).pk = some k)
    (hw : (List.range sch.nattrs).any (w.sess.obj o).wbits = true) (hold : getRow w.txn k = some old)
    (hfu : w.forUpdate.contains o = false) (a : Nat) (ha : a < sch.nattrs) (hr : (w.sess.obj o).rbits a = true)
    (hch : ((w.sess.obj o).dbvals a).key ≠ old.vals a) :
    (flushObj sch w o ids).err = some .optimistic ∧ (flushObj sch w o ids).w.txn = w.txn ∧
      (flushObj sch w o ids).w.sess = w.sess ∧ (flushObj sch w o ids).w.committed = w.committed := by
  have hopt : (!w.forUpdate.contains o && !optimisticOk sch (w.sess.obj o) old) = true := by
    have : optimisticOk sch (w.sess.obj o) old = false := by
      unfold optimisticOk
      rw [Bool.eq_false_iff]
      intro hall
      have := List.all_eq_true.mp hall a (List.mem_range.mpr ha)
      simp [hr, hch] at this
    rw [hfu, this]; rfl
  unfold flushObj
  simp only [hst, hpk, hw, hold, hopt, if_true]
  exact ⟨trivial, trivial, trivial, trivial⟩

/-- a flush that meets a refused statement reports it: `flush` returns the error of the first refused statement (it is not
    swallowed), and `commit()` then rolls back (`C14_flush_error_rolls_back`) -/
theorem C14_flush_reports (sch : Schema) (w : World) (ids : List Int) (hp : w.pendingSaved = false) (hq : w.modified = true)
    (e : WErr) (sv : Bool) (w' : World) (hg : flushGo sch w.sess.queue w ids false = (w', some e, sv)) :
    (flush sch w ids).2 = some e ∧ (commit sch w ids).2 = some e := by
  have : flush sch w ids = ({ w' with pendingSaved := sv }, some e) := by
    unfold flush
    simp [hp, hq, hg]
  exact ⟨by rw [this], by unfold commit; rw [this]⟩

/-! ### … and nothing is lost or written silently: one `_save_()` touches exactly one row -/

/-- a new object that was saved without error IS in the table the session sees, under its explicit or generated primary
    key, with exactly the session's values; every other primary key finds the row it found before -/
theorem C14_saved_insert_is_there (sch : Schema) (w : World) (o : ObjId) (ids : List Int)
    (hst : (w.sess.obj o).status = .created) (he : (flushObj sch w o ids).err = none) :
    ∃ k, ((w.sess.obj o).pk = some k ∨ ((w.sess.obj o).pk = none ∧ ∃ id r, ids = id :: r ∧ k = [id])) ∧
      ∀ pk', getRow (flushObj sch w o ids).w.txn pk' = if pk' = k then some (objRow (w.sess.obj o) k) else getRow w.txn pk' :=
  flushObj_created_rows hst he

/-- a modified object that was saved without error: its row (and no other) now has the session's values in the written columns -/
theorem C14_saved_update_is_there (sch : Schema) (w : World) (o : ObjId) (ids : List Int) (k : KeyVal)
    (hst : (w.sess.obj o).status = .modified) (hpk : (w.sess.obj o).pk = some k)
    (hw : (List.range sch.nattrs).any (w.sess.obj o).wbits = true) (he : (flushObj sch w o ids).err = none) :
    ∃ old, getRow w.txn k = some old ∧
      ∀ pk', getRow (flushObj sch w o ids).w.txn pk' = if pk' = k then some (updRow (w.sess.obj o) old) else getRow w.txn pk' :=
  flushObj_modified_rows hst hpk hw he

/-- a deleted object that was saved: its row (and no other) is gone -/
theorem C14_saved_delete_is_gone (sch : Schema) (w : World) (o : ObjId) (ids : List Int) (k : KeyVal)
    (hst : (w.sess.obj o).status = .markedToDelete) (hpk : (w.sess.obj o).pk = some k) (pk' : KeyVal) :
    getRow (flushObj sch w o ids).w.txn pk' = if pk' = k then none else getRow w.txn pk' :=
  flushObj_deleted_rows hst hpk pk'

/-- NO INSERT IS LOST, for the whole queue and ANY ids the database generates: when `commit()` returns without an error,
    every object that was `created` and queued is a row of the COMMITTED table, under the primary key the object now holds
    (explicit or generated), with exactly the values the session had — later statements of the same flush (other INSERTs,
    UPDATEs, DELETEs) cannot have touched it, because the session never holds two objects for one primary key (`Inv_idx`, C11) -/
theorem C14_commit_loses_no_insert (sch : Schema) (w : World) (ids : List Int) (hI : Inv sch w.sess)
    (hnd : w.sess.queue.Nodup) (hq : ∀ o, o ∈ w.sess.queue → o < w.sess.n) (hm : w.modified = true) (hp : w.pendingSaved = false)
    (hc : (stepW sch w (.commit ids)).2 = none) (o : ObjId) (ho : o ∈ w.sess.queue) (hst : (w.sess.obj o).status = .created) :
    ∃ k, ((stepW sch w (.commit ids)).1.sess.obj o).pk = some k ∧
      getRow (stepW sch w (.commit ids)).1.committed k = some (objRow (w.sess.obj o) k) := by
  simp only [stepW, commit, flush, hp, hm, Bool.false_eq_true, if_false, Bool.not_true] at hc ⊢
  cases hg : flushGo sch w.sess.queue w ids false with
  | mk w' r =>
    obtain ⟨e, sv⟩ := r
    cases e with
    | some e => simp [hg] at hc
    | none =>
      simp only [hg]
      exact flushGo_inserts w.sess.queue hnd w ids false hI hq w' sv hg o ho hst

/-- NO UPDATE IS LOST: after a `commit()` that returned normally, the row of every queued modified object is the row the
    session's connection saw before with the written columns replaced by the session's values — whatever else the flush wrote -/
theorem C14_commit_loses_no_update (sch : Schema) (w : World) (ids : List Int) (hI : Inv sch w.sess)
    (hnd : w.sess.queue.Nodup) (hq : ∀ o, o ∈ w.sess.queue → o < w.sess.n) (hm : w.modified = true) (hp : w.pendingSaved = false)
    (hc : (stepW sch w (.commit ids)).2 = none) (o : ObjId) (ho : o ∈ w.sess.queue) (k : KeyVal)
    (hst : (w.sess.obj o).status = .modified) (hpk : (w.sess.obj o).pk = some k)
    (hw : (List.range sch.nattrs).any (w.sess.obj o).wbits = true) :
    ∃ old, getRow w.txn k = some old ∧ getRow (stepW sch w (.commit ids)).1.committed k = some (updRow (w.sess.obj o) old) := by
  obtain ⟨w', sv, hg, hcm⟩ := commit_ok_flushGo hm hp hc
  rw [hcm]
  exact (flushGo_updates_deletes w.sess.queue hnd w ids false hI hq w' sv hg o ho k hpk).1 hst hw

/-- NO DELETE COMES BACK: the row of every queued deleted object is gone from the committed table (provided the database
    does not hand out the deleted row's key as a fresh id in the same flush) -/
theorem C14_commit_delete_stays_gone (sch : Schema) (w : World) (ids : List Int) (hI : Inv sch w.sess)
    (hnd : w.sess.queue.Nodup) (hq : ∀ o, o ∈ w.sess.queue → o < w.sess.n) (hm : w.modified = true) (hp : w.pendingSaved = false)
    (hc : (stepW sch w (.commit ids)).2 = none) (o : ObjId) (ho : o ∈ w.sess.queue) (k : KeyVal)
    (hst : (w.sess.obj o).status = .markedToDelete) (hpk : (w.sess.obj o).pk = some k) (hid : ∀ i, i ∈ ids → k ≠ [i]) :
    getRow (stepW sch w (.commit ids)).1.committed k = none := by
  obtain ⟨w', sv, hg, hcm⟩ := commit_ok_flushGo hm hp hc
  rw [hcm]
  exact (flushGo_updates_deletes w.sess.queue hnd w ids false hI hq w' sv hg o ho k hpk).2 hst hid

/-- … AND NOTHING ELSE (the converse): a primary key that no queued object holds and that is not a generated id finds in the
    committed table exactly the row the session's connection saw before the commit — the flush wrote no other row -/
theorem C14_commit_touches_only_queue (sch : Schema) (w : World) (ids : List Int) (hI : Inv sch w.sess)
    (hnd : w.sess.queue.Nodup) (hm : w.modified = true) (hp : w.pendingSaved = false)
    (hc : (stepW sch w (.commit ids)).2 = none) (k : KeyVal)
    (hk : ∀ p, p ∈ w.sess.queue → (w.sess.obj p).pk ≠ some k) (hid : ∀ i, i ∈ ids → k ≠ [i]) :
    getRow (stepW sch w (.commit ids)).1.committed k = getRow w.txn k := by
  obtain ⟨w', sv, hg, hcm⟩ := commit_ok_flushGo hm hp hc
  rw [hcm]
  exact flushGo_other_rows w.sess.queue w ids false hI w' sv hg k hk hid hnd

/-! ### the statements are not vacuous -/

/-- `E(id, u unique, a, b; composite_key(a, b))` -/
def exSchema : Schema := { nattrs := 3, keys := [[0], [1, 2]], parent := [none] }

def row (pk : Int) (u a b : Option Int) : DbRow := { pk := [pk], vals := fun i => match i with | 0 => u | 1 => a | 2 => b | _ => none }

/-- session 1 creates two objects and commits; session 2 loads both and swaps their unique values through a temporary value;
    the first UPDATE is refused (IntegrityError), `commit()` rolls back -/
def swapOps : List WOp :=
  [ .sess (.create 0 (some [1]) [some 10, none, none] false), .sess (.create 0 (some [2]) [some 20, none, none] false),
    .commit [], .rollback,
    .fetch 0 [1] [], .fetch 0 [2] [],
    .sess (.setAttrs 0 [(0, some 99)]), .sess (.setAttrs 1 [(0, some 10)]), .sess (.setAttrs 0 [(0, some 20)]) ]

example : (stepW exSchema (runW exSchema World.init swapOps) (.commit [])).2 = some .integrity ∧
    ((stepW exSchema (runW exSchema World.init swapOps) (.commit [])).1.committed.map fun r => (r.pk, r.vals 0)) = [([1], some 10), ([2], some 20)] := by
  decide

/-- the direct swap is refused at the call -/
example : (stepW exSchema (runW exSchema World.init (swapOps.take 6)) (.sess (.setAttrs 0 [(0, some 20)]))).2 = some (.sess .cacheIndex) := by
  decide

/-- a second connection inserts a conflicting row between the session's look and its flush: the flush is refused, commit
    rolls back, the other writer's row stays -/
example : (stepW exSchema (runW exSchema World.init
      [.fetch 0 [5] [], .sess (.create 0 (some [5]) [some 7, none, none] false), .ext (.insert (row 6 (some 7) none none))]) (.commit [])).2 = some .txnIntegrity ∧
    ((stepW exSchema (runW exSchema World.init
      [.fetch 0 [5] [], .sess (.create 0 (some [5]) [some 7, none, none] false), .ext (.insert (row 6 (some 7) none none))]) (.commit [])).1.committed.map (·.pk)) = [[6]] := by
  decide

/-- optional keys: any number of rows may hold None; deleting an object and re-creating its key in the same session commits -/
example : (runW exSchema World.init
      [.sess (.create 0 (some [1]) [none, some 1, none] false), .sess (.create 0 (some [2]) [none, some 1, none] false),
       .sess (.create 0 (some [3]) [some 5, some 1, some 2] false), .commit [],
       .sess (.delete 2), .sess (.create 0 (some [4]) [some 5, some 1, some 2] false), .commit []]).committed.map (·.pk) = [[1], [2], [4]] := by
  decide

/-- a per-object flush: `obj.delete(); obj.flush()` as the FIRST write of a session deletes the row inside a transaction;
    the later flush-time conflict (a new object with a unique value an unloaded row holds) rolls everything back: the
    committed table still has both rows -/
example : ((stepW exSchema (runW exSchema World.init
      [.ext (.insert (row 1 (some 10) none none)), .ext (.insert (row 2 (some 20) none none)),
       .fetch 0 [1] [], .sess (.delete 0), .flushOne 0 [] true, .sess (.create 0 (some [3]) [some 20, none, none] false)]) (.commit [])).2 = some .txnIntegrity) ∧
    ((stepW exSchema (runW exSchema World.init
      [.ext (.insert (row 1 (some 10) none none)), .ext (.insert (row 2 (some 20) none none)),
       .fetch 0 [1] [], .sess (.delete 0), .flushOne 0 [] true, .sess (.create 0 (some [3]) [some 20, none, none] false)]) (.commit [])).1.committed.map (·.pk)) = [[1], [2]] ∧
    (runW exSchema World.init
      [.ext (.insert (row 1 (some 10) none none)), .ext (.insert (row 2 (some 20) none none)),
       .fetch 0 [1] [], .sess (.delete 0), .flushOne 0 [] true]).inTxn = true := by
  decide

/-- the hypotheses of `C14_commit_loses_no_insert` are met by a session with two new objects, one with a generated id -/
example : (runW exSchema World.init [.sess (.create 0 none [some 1, none, none] false), .sess (.create 0 (some [7]) [some 2, none, none] false)]).sess.queue = [0, 1] ∧
    (stepW exSchema (runW exSchema World.init [.sess (.create 0 none [some 1, none, none] false), .sess (.create 0 (some [7]) [some 2, none, none] false)]) (.commit [3])).2 = none ∧
    ((stepW exSchema (runW exSchema World.init [.sess (.create 0 none [some 1, none, none] false), .sess (.create 0 (some [7]) [some 2, none, none] false)]) (.commit [3])).1.committed.map fun r => (r.pk, r.vals 0)) = [([3], some 1), ([7], some 2)] := by
  decide

/-- update + delete + an untouched row in one commit: row 1 gets the new unique value, row 2 is gone, row 3 is what it was -/
example : ((stepW exSchema (runW exSchema World.init
      [.ext (.insert (row 1 (some 10) none none)), .ext (.insert (row 2 (some 20) none none)), .ext (.insert (row 3 (some 30) (some 1) none)),
       .fetch 0 [1] [], .fetch 0 [2] [], .sess (.setAttrs 0 [(0, some 11)]), .sess (.delete 1)]) (.commit [])).2 = none) ∧
    ((stepW exSchema (runW exSchema World.init
      [.ext (.insert (row 1 (some 10) none none)), .ext (.insert (row 2 (some 20) none none)), .ext (.insert (row 3 (some 30) (some 1) none)),
       .fetch 0 [1] [], .fetch 0 [2] [], .sess (.setAttrs 0 [(0, some 11)]), .sess (.delete 1)]) (.commit [])).1.committed.map
        fun r => (r.pk, r.vals 0, r.vals 1)) = [([1], some 11, none), ([3], some 30, some 1)] := by
  decide

/-- the auto-id branch: the database generates id 1 while an object with explicit id 1 is pending ⇒ error, rollback -/
example : (stepW exSchema (runW exSchema World.init
      [.sess (.create 0 none [none, none, none] false), .sess (.create 0 (some [1]) [none, none, none] false)]) (.commit [1])).2 = some .autoIdUsed ∧
    (stepW exSchema (runW exSchema World.init
      [.sess (.create 0 none [none, none, none] false), .sess (.create 0 (some [1]) [none, none, none] false)]) (.commit [1])).1.committed.length = 0 := by
  decide

end PonyVerif.Props.C14
