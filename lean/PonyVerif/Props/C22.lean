/-
  C22 — concurrent threads do not interfere through shared process state.  Property theorems only.

  Model: PonyVerif/Model/SharedCache.lean (`Query._get_translator` and the five publish sites as atomic dict operations
  of any number of threads under an arbitrary schedule).  `step`/`run` = the code as it is now (`pop(key, None)`),
  `stepOld`/`runOld` = the code before commit f620458 (`del cache[key]`).
-/
import PonyVerif.Lemmas.SharedCache
import PonyVerif.Lemmas.SharedMemo
import PonyVerif.Gen.CacheKeys
import PonyVerif.Gen.StoreLast
namespace PonyVerif.Props.C22
open PonyVerif.Model.SharedCache

/-- global invariant: every cached translator was built for its key from some thread's values; every thread is
    well-formed, has raised nothing, and every query object it holds carries its OWN pinned values -/
def Inv (cfg : Cfg) (s : State) : Prop := CacheOK cfg s.cache ∧ ∀ t, ThreadOK cfg (s.th t)

/-- the programs handed to the threads are well-formed (see `ReqOK`): parameters present, derivation chains consistent -/
def WFProgs (cfg : Cfg) (progs : List (List Req)) : Prop := ∀ t, WFReqs cfg [] (progs.getD t [])

theorem C22_init (cfg : Cfg) (progs : List (List Req)) (h : WFProgs cfg progs) : Inv cfg (State.init progs) := by
  refine ⟨fun k tr hg => by simp [State.init, cget] at hg, fun t => ⟨?_, ?_, rfl, ?_⟩⟩
  · simpa [State.init, Thread.init] using h t
  · intro x hx; simp [State.init, Thread.init] at hx
  · simp [State.init, Thread.init, PhaseOK]

/-- one step of ANY thread of the current code keeps the invariant and does not raise -/
theorem C22_step (cfg : Cfg) (s : State) (t : Nat) (h : Inv cfg s) :
    Inv cfg (step cfg s t).1 ∧ (step cfg s t).2.isError = false := by
  have hs := tstep_ok cfg s.cache (s.th t) h.1 (h.2 t)
  refine ⟨⟨hs.cache, fun t' => ?_⟩, hs.noError⟩
  by_cases ht : t' = t
  · subst ht; simpa [step, stepG, updTh] using hs.thread
  · simpa [step, stepG, updTh, ht] using h.2 t'

theorem C22_run_inv (cfg : Cfg) : ∀ (sched : List Nat) (s : State), Inv cfg s →
    Inv cfg (run cfg s sched).1 ∧ ∀ o, o ∈ (run cfg s sched).2 → o.isError = false
  | [], s, h => ⟨by simpa [run, runG] using h, by simp [run, runG]⟩
  | t :: sched, s, h => by
    obtain ⟨h1, h2⟩ := C22_step cfg s t h
    obtain ⟨h3, h4⟩ := C22_run_inv cfg sched (step cfg s t).1 h1
    refine ⟨by simpa [run, runG, step] using h3, ?_⟩
    intro o ho
    simp only [run, runG, List.mem_cons] at ho
    rcases ho with ho | ho
    · subst ho; exact h2
    · exact h4 o ho

/-- **C22, no spurious errors** (all schedules, any number of threads): running well-formed programs from the empty
    cache under ANY interleaving, no step of any thread raises (neither `KeyError` from the cache nor the
    `assert key in new_vars`), and no thread has recorded an escaped exception -/
theorem C22_no_raise (cfg : Cfg) (progs : List (List Req)) (sched : List Nat) (h : WFProgs cfg progs) :
    (∀ o, o ∈ (run cfg (State.init progs) sched).2 → o.isError = false) ∧
    ∀ t, ((run cfg (State.init progs) sched).1.th t).raised = [] := by
  obtain ⟨h1, h2⟩ := C22_run_inv cfg sched _ (C22_init cfg progs h)
  exact ⟨h2, fun t => (h1.2 t).2.2.1⟩

/-- **C22, never another thread's data** (all schedules, any number of threads): every query object a thread holds at
    any time carries a translator for ITS key whose pinned parameter values are exactly those the thread computes when it
    runs alone (`soloPins` = translation from scratch with the thread's own values, no cache) -/
theorem C22_own_values (cfg : Cfg) (progs : List (List Req)) (sched : List Nat) (h : WFProgs cfg progs)
    (t : Nat) (r : Req) (tr : Translator) (hu : (r, tr) ∈ ((run cfg (State.init progs) sched).1.th t).used) :
    tr.key = r.key ∧ soloPins cfg r.key r.vars = some tr.pinned :=
  ((C22_run_inv cfg sched _ (C22_init cfg progs h)).1.2 t).2.1 (r, tr) hu

/-- the pinned values of a translator taken from the cache equal the thread's own raw parameter values -/
theorem C22_cached_agrees (vars : Vars) (tr : Translator) (h : compare vars tr.pinned = .same)
    (p : PKey) (v : Val) (hp : (p, v) ∈ tr.pinned) : lookup p vars = some v :=
  (compare_same_iff vars tr.pinned).1 h (p, v) hp

/-- progress bookkeeping: the requests completed so far followed by those still to do are always the thread's program
    (no request is dropped or duplicated under any schedule) -/
theorem C22_program_kept (cfg : Cfg) (progs : List (List Req)) (h : WFProgs cfg progs) :
    ∀ (sched : List Nat) (t : Nat),
      let th := (run cfg (State.init progs) sched).1.th t
      th.used.map (·.1) ++ th.todo = progs.getD t [] := by
  suffices H : ∀ (sched : List Nat) (s : State), Inv cfg s → ∀ t,
      ((run cfg s sched).1.th t).used.map (·.1) ++ ((run cfg s sched).1.th t).todo
        = (s.th t).used.map (·.1) ++ (s.th t).todo by
    intro sched t
    simpa [State.init, Thread.init] using H sched _ (C22_init cfg progs h) t
  intro sched
  induction sched with
  | nil => intro s _ t; simp [run, runG]
  | cons t0 sched ih =>
    intro s hs t
    have h1 := (C22_step cfg s t0 hs).1
    have e := ih (step cfg s t0).1 h1 t
    have hk := (tstep_ok cfg s.cache (s.th t0) hs.1 (hs.2 t0)).prog
    have : ((step cfg s t0).1.th t).used.map (·.1) ++ ((step cfg s t0).1.th t).todo
        = (s.th t).used.map (·.1) ++ (s.th t).todo := by
      by_cases ht : t = t0
      · subst ht; simpa [step, stepG, updTh] using hk
      · simp [step, stepG, updTh, ht]
    have e' := e.trans this
    simpa [run, runG, step] using e'

/-- **same results as alone**: when a thread has finished its program, the translators of its query objects are, in
    order, those of its program evaluated without any cache and without any other thread -/
theorem C22_same_as_alone (cfg : Cfg) (progs : List (List Req)) (sched : List Nat) (h : WFProgs cfg progs) (t : Nat)
    (hdone : ((run cfg (State.init progs) sched).1.th t).todo = []) :
    ((run cfg (State.init progs) sched).1.th t).used.map (fun x => (x.1, x.2.key, some x.2.pinned))
      = (progs.getD t []).map (fun r => (r, r.key, soloPins cfg r.key r.vars)) := by
  have hk := C22_program_kept cfg progs h sched t
  simp only [hdone, List.append_nil] at hk
  rw [← hk, List.map_map]
  apply List.map_congr_left
  intro x hx
  obtain ⟨h1, h2⟩ := C22_own_values cfg progs sched h t x.1 x.2 hx
  simp [h1, h2]

/-! ### the code before the fix (`del database._translator_cache[query_key]`) -/

/-- two threads run `select(e.name[:n] for e in E)`-like queries (one key, parameter 0 pinned as slice stop) -/
def wCfg : Cfg := ⟨fun _ => [(0, .sliceStop)]⟩
def wReq (n : Int) : Req := ⟨[7], [(0, some n)], none, true, false⟩
/-- thread 0: warms the cache with n=1, then asks with n=2; thread 1 asks with n=3 -/
def wProgs : List (List Req) := [[wReq 1, wReq 2], [wReq 3]]
/-- t0 warms (get, build, store); both threads `get` the stale entry and compare; t1 deletes first; t0's `del` raises -/
def wSched : List Nat := [0, 0, 0, 0, 1, 0, 1, 1, 0]

example : WFProgs wCfg wProgs := by
  intro t
  match t with
  | 0 => exact ⟨⟨⟨_, rfl⟩, 7, rfl⟩, ⟨⟨_, rfl⟩, 7, rfl⟩, trivial⟩
  | 1 => exact ⟨⟨⟨_, rfl⟩, 7, rfl⟩, trivial⟩
  | (n+2) => simp [wProgs, WFReqs]

/-- **witness for the old code**: there is a schedule of two threads with different pinned values on which the
    `del` of the old `_get_translator` raises `KeyError` (this is what `fix:` f620458 repaired) -/
theorem C22_old_code_KeyError :
    ∃ (cfg : Cfg) (progs : List (List Req)) (sched : List Nat), WFProgs cfg progs ∧ progs.length = 2 ∧
      (runOld cfg (State.init progs) sched).2.getLast? = some (.error .keyError) ∧
      ((runOld cfg (State.init progs) sched).1.th 0).raised = [.keyError] := by
  refine ⟨wCfg, wProgs, wSched, ?_, rfl, by decide, by decide⟩
  intro t
  match t with
  | 0 => exact ⟨⟨⟨_, rfl⟩, 7, rfl⟩, ⟨⟨_, rfl⟩, 7, rfl⟩, trivial⟩
  | 1 => exact ⟨⟨⟨_, rfl⟩, 7, rfl⟩, trivial⟩
  | (n+2) => simp [wProgs, WFReqs]

/-- the same programs and schedule on the current code: nobody raises and both threads end with their own values -/
theorem C22_witness_fixed :
    (∀ o, o ∈ (run wCfg (State.init wProgs) wSched).2 → o.isError = false) ∧
    ((run wCfg (State.init wProgs) (wSched ++ [0, 1])).1.th 0).used.map (fun x => x.2.pinned)
      = [[(0, some 1)], [(0, some 2)]] ∧
    ((run wCfg (State.init wProgs) (wSched ++ [0, 1])).1.th 1).used.map (fun x => x.2.pinned) = [[(0, some 3)]] := by
  refine ⟨(C22_no_raise wCfg wProgs wSched ?_).1, by decide, by decide⟩
  intro t
  match t with
  | 0 => exact ⟨⟨⟨_, rfl⟩, 7, rfl⟩, ⟨⟨_, rfl⟩, 7, rfl⟩, trivial⟩
  | 1 => exact ⟨⟨⟨_, rfl⟩, 7, rfl⟩, trivial⟩
  | (n+2) => simp [wProgs, WFReqs]

/-! ### the other process-wide caches: the memo protocol at dict-operation granularity

`Model/SharedMemo.lean`: the C05 memo record (key, store key, miss branch, re-check, cacheable, pop-on-reject) with every call
split at its operations on the shared dict; any number of threads, any schedule. -/

section Memo
open PonyVerif.Model.Memo

/-- **C22, every memo cache, all schedules, any number of threads**: if the cache is transparent in C05's sense (an entry
    that a lookup finds and accepts is the value of the lookup's own input), every value any thread ever gets out of a call
    is exactly what its own input computes without the cache -- never another thread's data -/
theorem C22_memo_threads {I K V : Type} [DecidableEq K] (m : Memo I K V) (ht : Transparent m)
    (progs : List (List I)) (sched : List Nat) (t : Nat) (i : I) (v : V)
    (h : (i, v) ∈ ((PonyVerif.Model.SharedMemo.run m (PonyVerif.Model.SharedMemo.State.init progs) sched).1.th t).results) : v = m.compute i :=
  ((PonyVerif.Model.SharedMemo.run_inv m ht sched _ (PonyVerif.Model.SharedMemo.init_inv m progs)).2 t).1 (i, v) h

/-- and the shared table only ever holds cold values under the store key of the input they belong to -/
theorem C22_memo_table {I K V : Type} [DecidableEq K] (m : Memo I K V) (ht : Transparent m)
    (progs : List (List I)) (sched : List Nat) (k : K) (v : V)
    (h : (k, v) ∈ (PonyVerif.Model.SharedMemo.run m (PonyVerif.Model.SharedMemo.State.init progs) sched).1.table) :
    ∃ j, m.skey j = k ∧ m.cacheable j = true ∧ v = m.compute j := by
  obtain ⟨j, _, h1, h2, h3⟩ := (PonyVerif.Model.SharedMemo.run_inv m ht sched _ (PonyVerif.Model.SharedMemo.init_inv m progs)).1 (k, v) h
  exact ⟨j, h1, h2, h3⟩

/-- transparency is NEEDED: with a colliding key a thread is served the other thread's value (two threads, three steps) -/
theorem C22_memo_collision_serves_foreign_value :
    ∃ (m : Memo Nat Nat Nat) (progs : List (List Nat)) (sched : List Nat),
      ((PonyVerif.Model.SharedMemo.run m (PonyVerif.Model.SharedMemo.State.init progs) sched).1.th 1).results = [(2, 1)] ∧ m.compute 2 = 2 :=
  ⟨plain (fun _ => 0) id, [[1], [2]], [0, 0, 1], by decide, rfl⟩

/-- **published values are complete** (bridge to the source, regenerated on every run by harness/gen_c22.py): in every function
    that publishes a value in a process-wide cache (`create_extractors`, `string2ast`, `decompile`, `adapt_sql`,
    `_construct_sql_and_arguments`, the four translator-publishing sites) no statement that can run after the store mutates
    the published object -/
theorem C22_stores_complete : PonyVerif.Gen.StoreLast.allStoresLast = true := by decide

/-- that fact is NEEDED: a miss branch that publishes its object before it has finished building it (`early = true`) lets
    another thread look the unfinished object up (two threads, same input 5, three steps: thread 1 is handed `0`) -/
theorem C22_memo_early_store_serves_unfinished :
    ∃ (m : Memo Nat Nat Nat) (part : Nat → Nat) (progs : List (List Nat)) (sched : List Nat),
      Transparent m ∧
      ((PonyVerif.Model.SharedMemo.runG m true part (PonyVerif.Model.SharedMemo.State.init progs) sched).1.th 1).results = [(5, 0)] ∧
      m.compute 5 = 5 :=
  ⟨plain id id, fun _ => 0, [[5], [5]], [0, 0, 1], fun i j _ _ hk _ _ => by simpa [plain] using hk.symm, by decide, rfl⟩

/-- **C22, every memo cache AS CODED**: the protocol variant is selected by the regenerated source fact (`early` = some
    publishing site mutates its object after the store); for the code as it is, every value any thread gets is its own cold
    value, under every schedule -/
theorem C22_memo_threads_as_coded {I K V : Type} [DecidableEq K] (m : Memo I K V) (ht : Transparent m)
    (progs : List (List I)) (sched : List Nat) (t : Nat) (i : I) (v : V)
    (h : (i, v) ∈ ((PonyVerif.Model.SharedMemo.runG m (!PonyVerif.Gen.StoreLast.allStoresLast) m.compute
            (PonyVerif.Model.SharedMemo.State.init progs) sched).1.th t).results) : v = m.compute i := by
  have hflag : (!PonyVerif.Gen.StoreLast.allStoresLast) = false := by decide
  rw [hflag, PonyVerif.Model.SharedMemo.runG_false] at h
  exact C22_memo_threads m ht progs sched t i v h

/-- the caches whose key is a tuple of input fields, keys AS CODED (`Gen/CacheKeys.lean`, regenerated from the source on
    every run): whatever the miss branch computes from the fields it reads, threads never interfere through them -/
theorem C22_threads_field_caches {W : Type} (F : List PonyVerif.Model.Memo.Val → W) (progs : List (List Env)) (sched : List Nat) (t : Nat)
    (e : Env) (v : W) :
    ((e, v) ∈ ((PonyVerif.Model.SharedMemo.run (fieldMemo PonyVerif.Gen.CacheKeys.string2astKey string2astDeps F) (PonyVerif.Model.SharedMemo.State.init progs) sched).1.th t).results →
        v = F (keyOf string2astDeps e)) ∧
    ((e, v) ∈ ((PonyVerif.Model.SharedMemo.run (fieldMemo PonyVerif.Gen.CacheKeys.astKey astDeps F) (PonyVerif.Model.SharedMemo.State.init progs) sched).1.th t).results →
        v = F (keyOf astDeps e)) ∧
    ((e, v) ∈ ((PonyVerif.Model.SharedMemo.run (fieldMemo PonyVerif.Gen.CacheKeys.constructedSqlKey constructedRowDeps F) (PonyVerif.Model.SharedMemo.State.init progs) sched).1.th t).results →
        v = F (keyOf constructedRowDeps e)) ∧
    ((e, v) ∈ ((PonyVerif.Model.SharedMemo.run (fieldMemo PonyVerif.Gen.CacheKeys.batchloadKey batchloadDeps F) (PonyVerif.Model.SharedMemo.State.init progs) sched).1.th t).results →
        v = F (keyOf batchloadDeps e)) ∧
    ((e, v) ∈ ((PonyVerif.Model.SharedMemo.run (fieldMemo PonyVerif.Gen.CacheKeys.findKey findRowDeps F) (PonyVerif.Model.SharedMemo.State.init progs) sched).1.th t).results →
        v = F (keyOf findRowDeps e)) ∧
    ((e, v) ∈ ((PonyVerif.Model.SharedMemo.run (fieldMemo PonyVerif.Gen.CacheKeys.updateSqlKey updateDeps F) (PonyVerif.Model.SharedMemo.State.init progs) sched).1.th t).results →
        v = F (keyOf updateDeps e)) := by
  refine ⟨fun h => ?_, fun h => ?_, fun h => ?_, fun h => ?_, fun h => ?_, fun h => ?_⟩ <;>
    exact C22_memo_threads _ (PonyVerif.Model.SharedMemo.fieldMemo_transparent _ _ (by decide) F) progs sched t e v h

end Memo

end PonyVerif.Props.C22
